"""Driver: enumerates paths of a function under contract, collects obligations, discharges them."""
import ast
import builtins
import os
import subprocess
import tempfile
import time
import traceback
import z3

from . import REPO, VERIF
from .vals import (SV, Char, Opaque, Cell, Closure, ClassRef, BoundMethod, Builtin, ExcValue, Unsupported, INT, BOOL,
                   REAL, STR, ASTR, OPQ, TOpt, TList, TTuple, TRef, TMap, TSet, sort_of, alen, aat, parse_type)
from .core import Ctx, Oracle, Infeasible, PathEnd, PyRaise, Obligation
from .symex import ExprMixin, Frame, _Return, _Break, _Continue, BUILTIN_EXC, exc_is_subclass
from .access import AccessMixin, MODULES
from .calls import CallMixin, PURE_BUILTINS
from .methods import MethodMixin
from .stmts import StmtMixin, source_order_loops
from .extract import RepoIndex, error_table, _lit, ExtractError
from . import contract as C


class Interp(StmtMixin, MethodMixin, CallMixin, AccessMixin, ExprMixin):
    pass


READONLY_EXTERNS = ("len", "str", "repr", "print", "isinstance", "os.path", "json.dumps", "copy.deepcopy", "deepcopy",
                    "copy.copy", "sorted", "sum", "reversed", "iter", "hasattr", "id", "map", "filter", "open", "re.",
                    "pd.", "pandas.", "np.", "list()", "set()", "math.", "itertools.")


class Engine:
    def __init__(self, repo=None, timeout_ms=10000, feas_timeout=400):
        self.index = RepoIndex(repo)
        self.repo = self.index.repo
        self.timeout_ms = timeout_ms
        self.feas_timeout = feas_timeout
        self.spec_funcs = {}
        self._spec_cache = {}
        self._fn_cache = {}
        self._loop_cache = {}
        self.assumptions = set()
        self.bounded_notes = set()
        self.calls = {}
        self._errtab = None
        self.exc_classes = dict(BUILTIN_EXC)
        for cname, hits in self.index.class_index.items():
            rel, node = hits[0]
            for b in node.bases:
                bn = b.id if isinstance(b, ast.Name) else (b.attr if isinstance(b, ast.Attribute) else None)
                if bn:
                    self.exc_classes.setdefault(cname, bn) if (bn in self.exc_classes or bn.endswith("Error") or bn.endswith("Exception")) else None
        for mod in self.index.modules.values():      # exception classes nested inside classes (e.g. HedSchema._TagIdentifyError)
            for cnode in mod.classes.values():
                for st in cnode.body:
                    if isinstance(st, ast.ClassDef):
                        for b in st.bases:
                            bn = b.id if isinstance(b, ast.Name) else None
                            if bn in self.exc_classes:
                                self.exc_classes.setdefault(st.name, bn)
        self.exc_classes.setdefault("LockException", "Exception")
        self.exc_classes.setdefault("HTTPError", "OSError")
        self.exc_classes.setdefault("URLError", "OSError")
        self.exc_classes.setdefault("JSONDecodeError", "ValueError")
        self.exc_classes.setdefault("ParseError", "Exception")

    # ------------------------------------------------------------------ spec functions
    def load_spec_source(self, src, name="<spec>"):
        tree = ast.parse(src)
        for node in tree.body:
            if isinstance(node, ast.FunctionDef):
                doc = ast.get_docstring(node) or ""
                if doc.startswith("smt-builtin"):
                    from .specbuiltins import SPEC_BUILTINS
                    if node.name not in SPEC_BUILTINS:
                        raise KeyError(f"spec builtin {node.name} has no SMT definition")
                    self.spec_funcs[node.name] = SPEC_BUILTINS[node.name]
                    continue
                clo = Closure(node, {}, name=node.name)
                clo.module = None
                clo.is_spec = True
                self.spec_funcs[node.name] = clo

    def parse_spec(self, text):
        if text not in self._spec_cache:
            self._spec_cache[text] = ast.parse(text.strip(), mode="eval").body
        return self._spec_cache[text]

    # ------------------------------------------------------------------ lookups
    @property
    def errtab(self):
        if self._errtab is None:
            self._errtab = error_table(self.index)
        return self._errtab

    def find_function(self, ct):
        if ct.cid not in self._fn_cache:
            self._fn_cache[ct.cid] = self.index.find_function(ct.file, ct.func)
        return self._fn_cache[ct.cid]

    def loop_order(self, ct):
        if ct.cid not in self._loop_cache:
            mod, cls, fn = self.find_function(ct)
            self._loop_cache[ct.cid] = source_order_loops(fn)
        return self._loop_cache[ct.cid]

    def call_ordinal(self, ct, node):
        """source-order ordinal of a call node inside the function under contract (stable under line shifts)"""
        if node is None:
            return 0
        key = ("calls", ct.cid)
        if key not in self._loop_cache:
            mod, cls, fn = self.find_function(ct)
            calls = [n for n in ast.walk(fn) if isinstance(n, (ast.Call, ast.With))]
            calls.sort(key=lambda n: (n.lineno, n.col_offset))
            self._loop_cache[key] = {id(n): k for k, n in enumerate(calls)}
        return self._loop_cache[key].get(id(node), 0)

    def exc_parent(self, cls):
        return self.exc_classes.get(cls)

    def is_exception_class(self, name):
        return name in self.exc_classes

    def exception_expected(self, ctx, exc_cls):
        for handlers in ctx.try_depth:
            if any(exc_is_subclass(self, exc_cls, h) for h in handlers):
                return True
        for allowed in ctx.contract.raises:
            if exc_is_subclass(self, exc_cls, allowed):
                return True
        return False

    def modifies_allows(self, ctx, origin):
        for m in ctx.contract.modifies:
            if m == origin or origin.startswith(m + ".") or origin.startswith(m + "["):
                return True
            if m.startswith("heap:") and origin.endswith("." + m.split(".")[-1]):
                return True
        return False

    def extern_is_readonly(self, desc):
        return any(desc.startswith(p) or ("." + p) in desc for p in READONLY_EXTERNS) or desc.endswith(".copy") \
            or ".copy()" in desc

    def extern(self, name):
        return C.EXTERNS.get(name)

    def extern_required(self, name):
        e = C.EXTERNS.get(name)
        if e is None:
            raise Unsupported(f"{name} not modelled")
        return e

    def json_isinstance(self, interp, v, names):
        return None

    def model_subclass(self, cls, base):
        seen, todo = set(), [cls]
        while todo:
            c = todo.pop()
            if c == base:
                return True
            if c in seen:
                continue
            seen.add(c)
            todo.extend(C.CLASSES.get(c, {}).get("bases", []))
        return False

    def method_contract(self, interp, cls, name):
        ct = C.find_method_contract(cls, name)
        if ct is not None:
            return ct
        ext = C.EXTERNS.get(f"{cls}.{name}")
        if ext is not None:
            class _E:   # adapt python-side model to the contract-call path
                pass
            return None
        return None

    def truth_of_object(self, ctx, v):
        """bool(obj): classes with __bool__/__len__ expose it through the model field __bool__"""
        hit = C.class_field(v.ty.args[0].name, "__bool__")
        if hit is None:
            return True
        owner, tystr = hit
        arr = ctx.heap.get(f"{owner}.__bool__")
        if arr is None:
            arr = z3.Const(f"H0_{owner}.__bool__", z3.ArraySort(z3.IntSort(), z3.BoolSort()))
            ctx.heap[f"{owner}.__bool__"] = arr
            ctx.heap0[f"{owner}.__bool__"] = (arr, BOOL)
        return z3.Select(arr, v.t)

    def record_call(self, caller, callee, inline=False):
        self.calls.setdefault(caller.cid, set()).add((callee.cid, "inline" if inline else ("trusted" if callee.trusted else "contract")))

    def note_assumption(self, text):
        self.assumptions.add(text)

    def note_bounded(self, ctx, text):
        self.bounded_notes.add(f"{ctx.contract.cid}: {text}")

    def case_axioms(self, ctx, name, fn, t):
        """ground instances of the casefold/lower axioms at the term t: idempotence"""
        ctx.assume(fn(fn(t)) == fn(t))

    def dict_view(self, interp, cell, name):
        """items()/keys()/values() of a symbolic dict: a list in some fixed order that enumerates exactly the domain
        (distinct keys, every key present, values as stored).  Insertion order itself is not modelled."""
        ctx = interp.ctx
        ty = cell.sym.ty
        cache = getattr(ctx, "dict_views", None)
        if cache is None:
            cache = ctx.dict_views = {}
        ck = cell.sym.t.sexpr()
        if ck not in cache:
            kty, vty = ty.args
            lty = TList(TTuple(kty, vty))
            ls = sort_of(lty)
            ms = sort_of(ty)
            ts = sort_of(TTuple(kty, vty))
            r = z3.Const(ctx.fresh_name("items"), ls)
            i, j = z3.Int(ctx.fresh_name("i")), z3.Int(ctx.fresh_name("j"))
            key = z3.Const(ctx.fresh_name("key"), sort_of(kty))
            pos = z3.Function(ctx.fresh_name("pos"), sort_of(kty), z3.IntSort())
            m = cell.sym.t
            ctx.assume(ls.len(r) >= 0)
            elem = lambda x: z3.Select(ls.data(r), x)
            ctx.assume(z3.ForAll([i], z3.Implies(z3.And(0 <= i, i < ls.len(r)),
                                                 z3.And(z3.Select(ms.dom(m), ts.accessor(0, 0)(elem(i))),
                                                        z3.Select(ms.val(m), ts.accessor(0, 0)(elem(i))) == ts.accessor(0, 1)(elem(i)),
                                                        pos(ts.accessor(0, 0)(elem(i))) == i)),
                                 patterns=[elem(i)]))
            ctx.assume(z3.ForAll([key], z3.Implies(z3.Select(ms.dom(m), key),
                                                   z3.And(0 <= pos(key), pos(key) < ls.len(r),
                                                          ts.accessor(0, 0)(elem(pos(key))) == key)),
                                 patterns=[z3.Select(ms.dom(m), key)]))
            cache[ck] = (r, lty)
        r, lty = cache[ck]
        items = Cell("list", sym=SV(lty, r), fresh=True)
        if name == "items":
            return items
        from .access import ProjV
        return ProjV(items, 0 if name == "keys" else 1)

    def with_enter(self, interp, v):
        if isinstance(v, Opaque):
            return Opaque(v.desc + ".__enter__")
        return v

    def eval_default(self, interp, mod, node):
        try:
            return self.pyvalue(_lit(node, {}, self.index))
        except ValueError:
            if isinstance(node, ast.Attribute) and isinstance(node.value, ast.Name):
                cc = self.index.class_constants(node.value.id)
                if cc and node.attr in cc:
                    return self.pyvalue(cc[node.attr])
            if isinstance(node, ast.Name) and mod is not None and node.id in mod.assigns:
                try:
                    return self.pyvalue(self.index.module_constant(mod.rel, node.id))
                except ExtractError:
                    pass
            raise Unsupported(f"default value {ast.unparse(node)}")

    def pyvalue(self, v):
        if isinstance(v, (set, frozenset)):
            return Cell("set", conc=set(v), fresh=False, origin="constant")
        if isinstance(v, list):
            return Cell("list", conc=[self.pyvalue(x) for x in v], fresh=False, origin="constant")
        if isinstance(v, dict):
            return Cell("dict", conc={k: self.pyvalue(x) for k, x in v.items()}, fresh=False, origin="constant")
        if isinstance(v, tuple):
            return tuple(self.pyvalue(x) for x in v)
        return v

    def resolve_import(self, interp, module, name):
        if name in self.exc_classes:
            return ClassRef(name)
        if self.index.find_class(name):
            return ClassRef(name)
        ct = C.find_function_contract(name)
        if ct is not None:
            return ct
        if name in C.EXTERNS:
            return C.EXTERNS[name]
        return Builtin(f"{module}.{name}" if module else name)

    def resolve_global(self, interp, name):
        if name in C.EXTERNS:
            return C.EXTERNS[name]
        fr = interp.frames[-1]
        mod = fr.module
        # enclosing class constants are NOT in scope in python; module level only
        if mod is not None:
            if name in mod.functions:
                ct = C.find_function_contract(name)
                if ct is not None and ct.file == mod.rel:
                    return ct
                raise Unsupported(f"call to module function {name} without contract")
            if name in mod.classes:
                return ClassRef(name)
            if name in mod.assigns:
                try:
                    return self.pyvalue(self.index.module_constant(mod.rel, name))
                except ExtractError:
                    return Opaque(f"global {name}")
            if name in mod.imports:
                m, n = mod.imports[name]
                if n is None:
                    return Builtin(name)
                return self.resolve_import(interp, m, n)
        if name in self.exc_classes:
            return ClassRef(name)
        if name in PURE_BUILTINS or hasattr(builtins, name):
            return Builtin(name)
        if name in MODULES:
            return Builtin(name)
        if self.index.find_class(name):
            return ClassRef(name)
        raise Unsupported(f"unknown name {name}")

    def class_attr(self, interp, cref, attr):
        ext = C.EXTERNS.get(f"{cref.name}.{attr}")
        if ext is not None:
            return ext
        cc = self.index.class_constants(cref.name)
        if cc is not None and attr in cc:
            return self.pyvalue(cc[attr])
        ct = C.find_method_contract(cref.name, attr)
        if ct is not None:
            return ct
        hit = self.index.find_class(cref.name)
        if hit:
            rel, node = hit
            for st in node.body:
                if isinstance(st, ast.Assign) and isinstance(st.targets[0], ast.Name) and st.targets[0].id == attr:
                    return Opaque(f"{cref.name}.{attr}")
                if isinstance(st, ast.FunctionDef) and st.name == attr:
                    top = getattr(interp.frames[0], "contract", None)
                    if top is not None and top.unwind == "havoc":
                        return Opaque(f"{cref.name}.{attr}")      # frame-only verification: an unmodelled callable
            for b in node.bases:
                if isinstance(b, ast.Name) and b.id != cref.name and self.index.find_class(b.id):
                    try:
                        return self.class_attr(interp, ClassRef(b.id), attr)
                    except Unsupported:
                        pass
        raise Unsupported(f"class attribute {cref.name}.{attr}")

    # ------------------------------------------------------------------ running one contract
    def make_params(self, interp, ct, fn, cls):
        ctx = interp.ctx
        env = {}
        names = [a.arg for a in fn.args.args] + [a.arg for a in fn.args.kwonlyargs]
        if fn.args.vararg:
            names.append(fn.args.vararg.arg)
        if fn.args.kwarg:
            names.append(fn.args.kwarg.arg)
        # free variables of a nested function (closure cells of the enclosing decorator ...) are inputs like parameters
        for name, tystr in (ct.ghost.get("free") or {}).items():
            if tystr == "Recorder":
                # an unknown callable: each call records its arguments in the ghost variable called_<name> and returns an unknown string
                def rec(interp_, args, kwargs, _n=name):
                    interp_.ctx.ghost["called_" + _n] = tuple(args)
                    interp_.ctx.ghost["calls_" + _n] = interp_.ctx.ghost.get("calls_" + _n, 0) + 1
                    return interp_.ctx.fresh(interp_.ptype("Str"), "ret_" + _n)
                env[name] = rec
                continue
            ct.params.setdefault(name, tystr)
            names.append(name)
        refs = []
        for name in names:
            if name not in ct.params:
                if name == "self" and cls is not None and cls.name in C.CLASSES:
                    ct.params["self"] = cls.name
                elif name in ("self", "cls"):
                    env[name] = Opaque(name)
                    continue
                else:
                    raise Unsupported(f"parameter {name} of {ct.func} has no declared type")
            ty = interp.ptype(ct.params[name])
            if ty == OPQ:
                env[name] = Opaque("param:" + name)
                continue
            if ty.name == "Tuple":
                v = tuple(self._param_const(ctx, f"p_{name}_{i}", t) for i, t in enumerate(ty.args))
            else:
                v = self._param_const(ctx, "p_" + name, ty)
            if isinstance(v, Cell):
                v.fresh = False
                v.origin = name
            env[name] = v
            if ty.name == "Ref":
                refs.append(v)
        # distinct Ref parameters denote distinct objects unless the contract says otherwise
        for i in range(len(refs)):
            for j in range(i + 1, len(refs)):
                if refs[i].ty == refs[j].ty and not ct.ghost.get("alias_ok"):
                    ctx.assume(refs[i].t != refs[j].t)
                    self.note_assumption("distinct object parameters of one function are not aliased")
        return env

    def _param_const(self, ctx, name, ty):
        t = z3.Const(name, sort_of(ty))
        v = ctx.wrap(t, ty)
        ctx.assume_type_inv(v, ty)
        if ty.name == "List" and ty.args[0] == ASTR:
            pass
        return v

    def run_path(self, ct, oracle, decisions):
        mod, cls, fn = self.find_function(ct)
        oracle.start(decisions)
        ctx = Ctx(self, ct, oracle)
        interp = Interp(ctx, self)
        outcome = None
        try:
            env = self.make_params(interp, ct, fn, cls)
            fr = Frame(env, mod, cls, ct.func)
            fr.contract = ct
            interp.frames.append(fr)
            ctx.spec = True
            for g, gty in ct.ghost.get("vars", {}).items():
                ctx.ghost[g] = ctx.fresh(interp.ptype(gty), "g_" + g)
            for r in ct.requires:
                ctx.assume(ctx.zbool(ctx.truth(interp.eval_spec_text(r))))
            ctx.spec = False
            self.assume_lemmas(interp, ct)
            ctx.old_snap = interp.snapshot()
            ctx.entry_env = dict(env)
            for g, init in ct.ghost.get("init", {}).items():
                interp.ghost_assign(f"{g} = {init}")
            try:
                interp.exec_block(fn.body)
                outcome = ("return", None)
            except _Return as r:
                outcome = ("return", r.v)
            except PyRaise as e:
                outcome = ("raise", e.exc)
            except PathEnd:
                outcome = ("end", None)
            if outcome[0] != "end":
                self.check_exit(interp, ct, outcome)
            ctx.oblige("canary", "path", z3.BoolVal(False))
        except Infeasible:
            ctx.dead = True
        except Unsupported as u:
            ctx.undecided("unsupported", str(u)[:80], str(u))
        except RecursionError:
            ctx.undecided("unsupported", "recursion", "interpreter recursion limit")
        except (AttributeError, TypeError, KeyError, IndexError, z3.Z3Exception) as e:
            # a value of a kind the executor has no rule for at this point (typically an Opaque where a typed value is needed):
            # the path is undecided, never "verified"; PYVC_DEBUG=1 shows the trace
            import os as _os
            if _os.environ.get("PYVC_DEBUG"):
                raise
            import traceback as _tb
            where = _tb.extract_tb(e.__traceback__)[-1]
            ctx.undecided("unsupported", f"no rule: {type(e).__name__}"[:80],
                          f"executor has no rule here ({type(e).__name__}: {e}) at {where.filename.rsplit('/', 1)[-1]}:{where.lineno}")
        return ctx

    def check_exit(self, interp, ct, outcome):
        ctx = interp.ctx
        kind, val = outcome
        ctx.spec = True
        ctx.ghost["result"] = val
        # the entry frame env may have been rebound by the body; contracts speak about parameters at entry
        # (python semantics: rebinding a parameter is local) -> evaluate in an env where parameters have entry values
        fr = interp.frames[0]
        cur_env = fr.env
        fr.env = dict(cur_env)
        fr.env.update(ctx.entry_env)
        if "result" in fr.env and "result" not in ctx.entry_env:
            del fr.env["result"]        # a LOCAL named `result` must not shadow the value handed back, which is what clauses mean by it
        try:
            for lbl, e in ct.lets.items():          # abbreviations over the entry state are usable in raises conditions
                if "result" not in e:
                    try:
                        ctx.ghost[lbl] = interp.eval_old(self.parse_spec(e))
                    except Unsupported:
                        pass
            if kind == "raise":
                allowed = None
                for exc, cond in ct.raises.items():
                    if exc_is_subclass(self, val.cls, exc):
                        allowed = (exc, cond)
                        break
                if allowed is None:
                    ctx.oblige("raises", f"{val.cls} escapes", z3.BoolVal(False), top=True, info={"exception": val.cls})
                else:
                    exc, cond = allowed
                    if not (cond is True or cond == "True"):
                        text = cond[6:] if cond.startswith("maybe:") else cond
                        g = ctx.zbool(ctx.truth(interp.eval_old(self.parse_spec(text))))
                        ctx.oblige("raises", f"{exc} only-if", g, top=True, info={"clause": text})
                    for lbl, e in ct.ensures.items():
                        if lbl.startswith("exc:"):
                            g = ctx.zbool(ctx.truth(interp.eval_spec_text(e)))
                            ctx.oblige("ensures", lbl, g, top=True, info={"clause": e})
            else:
                # a declared iff-condition for an exception must be false on normal return
                for exc, cond in ct.raises.items():
                    if isinstance(cond, str) and not cond.startswith("maybe") and cond != "True":
                        g = ctx.zbool(ctx.truth(interp.eval_old(self.parse_spec(cond))))
                        ctx.oblige("raises", f"{exc} must-raise", z3.Not(g), top=True, info={"clause": cond})
                if ct.returns not in (None, "None", "Opaque") and val is not None and not isinstance(val, Opaque):
                    rty = interp.ptype(ct.returns)
                    try:
                        def conv(v, ty):
                            if ty == OPQ:
                                return v
                            if ty.name == "Tuple" and isinstance(v, tuple) and len(v) == len(ty.args):
                                return tuple(conv(x, t) for x, t in zip(v, ty.args))
                            if isinstance(v, Cell):
                                if v.sym is None:
                                    interp.symbolise(v, ty)
                                return v
                            return ctx.wrap(ctx.term(v, ty), ty)
                        val = conv(val, rty)
                        ctx.ghost["result"] = val
                    except Unsupported as u:
                        ctx.undecided("ensures", "result-type", str(u))
                        return
                if ct.returns not in (None, "None", "Opaque") and val is None and not interp.ptype(ct.returns).name == "Opt":
                    ctx.oblige("ensures", "result-not-None", z3.BoolVal(False), top=True)
                    return
                for lbl, e in ct.lets.items():
                    ctx.ghost[lbl] = interp.eval_spec_text(e)
                for lbl, e in ct.ensures.items():
                    if lbl.startswith("exc:") or lbl.startswith("bounded:"):
                        continue        # bounded: clauses are checked only by the concrete bounded search (never counted as proved)
                    try:
                        g = ctx.zbool(ctx.truth(interp.eval_spec_text(e)))
                    except Unsupported as u:
                        ctx.undecided("ensures", lbl, str(u))
                        continue
                    except (KeyError, IndexError) as u:
                        # the clause itself cannot be evaluated (it subscripts a literal table with a key that is not there): that is a
                        # fault of the clause, never a reason to drop it silently with the path
                        ctx.undecided("ensures", lbl, f"the clause cannot be evaluated: {type(u).__name__}: {u}")
                        continue
                    saved_pc = list(ctx.pc)
                    ctx.oblige("ensures", lbl, g, top=True, info={"clause": e})
                    ctx.pc = saved_pc       # ensures clauses are proved independently of each other
            self.check_frame(interp, ct)
        finally:
            fr.env = cur_env
            ctx.spec = False

    def check_frame(self, interp, ct):
        """every (object, field) pair of an entry object not listed in modifies is unchanged"""
        ctx = interp.ctx
        if not ct.ghost.get("no_frame"):
            # attributes OUTSIDE the class model written on entry objects: state kept on the object that no `modifies` entry allows
            bad = []
            for label, field, ref in getattr(ctx, "unmodelled_writes", []):
                allowed = False
                for m in ct.modifies:
                    if "." in m and not m.startswith("heap:") and m.split(".", 1)[1] == field:
                        v = ctx.entry_env.get(m.split(".", 1)[0])
                        if isinstance(v, SV) and v.ty.name == "Ref" and v.t.eq(ref):
                            allowed = True
                if not allowed:
                    bad.append(label)
            if bad:
                saved_pc = list(ctx.pc)
                ob = ctx.oblige("frame", "assignment to an attribute outside modifies", z3.BoolVal(False), top=True,
                                info={"clause": "frame: nothing outside `modifies` is written", "written": bad[:6]})
                ob.detail = "writes: " + ", ".join(bad[:6])
                ctx.pc = saved_pc
        if ct.ghost.get("pure"):
            # ghost pure: "asking again gives the same answer" - the function keeps no state: it writes NO attribute of an object that
            # existed at entry (this obligation is emitted on every path, violated or not)
            fresh = getattr(ctx, "fresh_refs", set())
            bad = [k for k, r in getattr(ctx, "writes", []) if r.sexpr() not in fresh] + [l for l, _, _ in getattr(ctx, "unmodelled_writes", [])]
            saved_pc = list(ctx.pc)
            ob = ctx.oblige("frame", "pure: no attribute of an entry object is written", z3.BoolVal(not bad), top=True,
                            info={"clause": "pure: no state is kept between calls", "written": bad[:6]})
            if bad:
                ob.detail = "writes: " + ", ".join(bad[:6])
            ctx.pc = saved_pc
        if ct.ghost.get("no_frame"):
            return
        for key, (arr0, ty) in ctx.heap0.items():
            cur = ctx.heap.get(key)
            if cur is None or cur.eq(arr0):
                continue
            cls, field = key.split(".")
            fresh = getattr(ctx, "fresh_refs", set())
            if all(r.sexpr() in fresh for k2, r in getattr(ctx, "writes", []) if k2 == key) and \
                    any(k2 == key for k2, r in getattr(ctx, "writes", [])):
                continue        # only objects allocated by this call were written
            allowed_refs = []
            whole = False
            for m in ct.modifies:
                if m == "heap:" + key:
                    whole = True
                elif "." in m and m.split(".", 1)[1] == field:
                    base = m.split(".", 1)[0]
                    v = ctx.entry_env.get(base)
                    if isinstance(v, SV) and v.ty.name == "Ref":
                        allowed_refs.append(v.t)
            if whole:
                continue
            r = z3.Int(ctx.fresh_name("r"))
            from .core import BIRTH
            goal = z3.ForAll([r], z3.Implies(z3.And(BIRTH(r) < 0, *[r != a for a in allowed_refs]),
                                             z3.Select(cur, r) == z3.Select(arr0, r)))
            saved_pc = list(ctx.pc)
            ctx.oblige("frame", f"heap {key}", goal, top=True, info={"frame": key})
            ctx.pc = saved_pc

    def lemma_formula(self, interp, lem, subst=None):
        """statement of a lemma over fresh constants (or over the given substitution of its variables)"""
        ctx = interp.ctx
        env = {}
        consts = {}
        for name, tystr in lem["vars"].items():
            ty = interp.ptype(tystr)
            c = z3.Const(f"lem_{lem['name']}_{name}", sort_of(ty))
            consts[name] = c
            env[name] = ctx.wrap(c, ty)
        interp.frames.append(Frame(env, None, None, "<lemma>"))
        saved = ctx.spec
        ctx.spec = True
        try:
            f = ctx.zbool(ctx.truth(interp.eval_spec_text(lem["stmt"])))
        finally:
            ctx.spec = saved
            interp.frames.pop()
        return consts, f

    def prove_lemmas(self, ct):
        """induction lemmas: base and step become obligations of their own; the closed lemma is then assumed"""
        obs = []
        for lem in ct.lemmas:
            ctx = Ctx(self, ct, Oracle())
            interp = Interp(ctx, self)
            interp.frames.append(Frame({}, None, None, "<lemma>"))
            consts, f = self.lemma_formula(interp, lem)
            n = consts[lem["induct"]]
            base = z3.substitute(f, (n, z3.IntVal(0)))
            step_hyp = f
            step_goal = z3.substitute(f, (n, n + 1))
            ctx.oblige("lemma", f"{lem['name']}.base", base, info={"clause": lem["stmt"]})
            ctx.pc = [p for p in ctx.pc[:-1]]
            ctx.pc += [n >= 0, step_hyp]
            ctx.oblige("lemma", f"{lem['name']}.step", step_goal, info={"clause": lem["stmt"]})
            obs.extend(ctx.obligations)
        return obs

    def assume_lemmas(self, interp, ct):
        ctx = interp.ctx
        for lem in ct.lemmas:
            consts, f = self.lemma_formula(interp, lem)
            n = consts[lem["induct"]]
            ctx.assume(z3.ForAll(list(consts.values()), z3.Implies(n >= 0, f)))

    def verify(self, ct, max_paths=None):
        max_paths = max_paths or (3000 if ct.unwind == "havoc" else 400)
        oracle = Oracle()
        obligations = []
        # decorators: extraction applies the calling convention of the known ones and drops them; any OTHER decorator (a cache, a retry
        # wrapper ...) changes what a call of this function means, so the body alone is not the function any more -> undecided
        if not ct.trusted and ct.func != "<error-table>":
            mod0, cls0, fn0 = self.find_function(ct)
            known = {"staticmethod", "classmethod", "property", "wraps", "setter", "hed_error", "hed_tag_error", "abstractmethod"}
            for d in fn0.decorator_list:
                base = d.func if isinstance(d, ast.Call) else d
                nm = base.id if isinstance(base, ast.Name) else (base.attr if isinstance(base, ast.Attribute) else "?")
                if nm in (ct.ghost.get("decorators_ok") or {}):
                    # the contract declares (with a sentence that is listed among the assumptions of the evidence) what it means for the
                    # decorated function: e.g. lru_cache - the clauses speak about an evaluation of the body; a later call with equal
                    # arguments gets the remembered answer of such an evaluation
                    continue
                if nm not in known:
                    ob = Obligation(f"{ct.cid}:unsupported:decorator {nm}", "unsupported", f"decorator {nm}", [], z3.BoolVal(False), "-")
                    ob.verdict = "undecided"
                    ob.detail = f"decorator @{nm} is not one the extraction understands: the decorated function is not its body"
                    obligations.append(ob)
        obligations.extend(self.prove_lemmas(ct))
        obligations.extend(self.independence_obligations(ct))
        obligations.extend(self.final_value_obligations(ct))
        if ct.ghost.get("dataflow_only"):
            # the contract consists of iteration-independence clauses only: no symbolic run of the body
            self.find_function(ct)
            return {"contract": ct, "obligations": obligations, "paths": 0, "dead": 0, "symex_s": 0.0}
        paths = dead = 0
        t0 = time.time()
        while oracle.worklist:
            decisions = oracle.worklist.pop()
            ctx = self.run_path(ct, oracle, decisions)
            paths += 1
            if ctx.dead:
                dead += 1
            obligations.extend(ctx.obligations)
            if paths >= max_paths:
                ob = Obligation(f"{ct.cid}:unsupported:path-limit", "unsupported", "path-limit", [], z3.BoolVal(False), "-")
                ob.verdict = "undecided"
                ob.detail = f"more than {max_paths} paths"
                obligations.append(ob)
                break
        return {"contract": ct, "obligations": obligations, "paths": paths, "dead": dead, "symex_s": time.time() - t0}

    def final_value_obligations(self, ct):
        """ghost['final_value'] = {"var": v, "call": f, "early_returns": n}: what the function hands back at its end is f(v, ...) with nothing
        added afterwards, and it has exactly n early outs - decided on the statement list of the real function (pyvc.dataflow)"""
        spec = ct.ghost.get("final_value")
        if not spec:
            return []
        from .dataflow import check_final_value
        mod, cls, fn = self.find_function(ct)
        problems = check_final_value(fn, spec["var"], spec["call"], spec.get("early_returns", 0))
        obs = []
        for what, kinds in (("handed-back-value-is-the-result-of-the-call", ("final-return", "last-write-is-not-the-call")),
                            ("no-other-way-out-than-the-known-early-outs", ("early-returns",))):
            bad = [p for p in problems if p[0] in kinds]
            ob = Obligation(f"{ct.cid}:final:{what}", "independent", what, [], z3.BoolVal(not bad), "-",
                            info={"clause": f"the function ends with `return {spec['var']}` right after `{spec['var']} = {spec['call']}({spec['var']}, ...)`"
                                            f" and has {spec.get('early_returns', 0)} early return(s): {what}"})
            ob.verdict = "sat" if bad else "unsat"
            ob.backend = "dataflow"
            ob.ms = 0
            ob.model = None
            if bad:
                ob.detail = "; ".join(f"{k}: '{n}' at line {ln}" for k, n, ln in bad[:4])
            obs.append(ob)
        return obs

    def independence_obligations(self, ct):
        """ghost['independent_iterations'] = {loop ordinal: [accumulators]}: decided by pyvc.dataflow (def-before-use), not by a solver"""
        spec = ct.ghost.get("independent_iterations")
        if not spec:
            return []
        from .dataflow import check_loop
        mod, cls, fn = self.find_function(ct)
        loops = [n for n in ast.walk(fn) if isinstance(n, ast.For)]
        loops.sort(key=lambda n: (n.lineno, n.col_offset))
        obs = []
        for ordinal, accs in spec.items():
            if ordinal >= len(loops):
                ob = Obligation(f"{ct.cid}:unsupported:independent loop{ordinal}", "unsupported", "loop not found", [], z3.BoolVal(False), "-")
                ob.verdict, ob.detail = "undecided", f"the function has no for-loop number {ordinal}"
                obs.append(ob)
                continue
            problems = check_loop(loops[ordinal], accs)
            for what in ("no-value-carried-between-iterations", "accumulators-only-extended", "every-element-processed"):
                kinds = {"no-value-carried-between-iterations": ("read-before-assignment",),
                         "accumulators-only-extended": ("accumulator-read", "accumulator-rebound"),
                         "every-element-processed": ("break",)}[what]
                bad = [p for p in problems if p[0] in kinds]
                ob = Obligation(f"{ct.cid}:independent:loop{ordinal}.{what}", "independent", what, [], z3.BoolVal(not bad), "-",
                                info={"clause": f"iterations of loop {ordinal} are independent: {what} (accumulators {list(accs)})"})
                ob.verdict = "sat" if bad else "unsat"
                ob.backend = "dataflow"
                ob.ms = 0
                ob.model = None
                if bad:
                    ob.detail = "; ".join(f"{k}: '{n}' at line {fn.lineno and ln}" for k, n, ln in bad[:4])
                obs.append(ob)
        return obs

    # ------------------------------------------------------------------ solving
    def unfold_axioms(self, formulas, depth=2):
        """ground instances of the defining equations of recursive spec functions, at the applications that
        occur in the query, to the given depth (induction itself is carried by loop invariants)"""
        defs = getattr(self, "rec_defs", {})
        if not defs:
            return []
        seen = set()
        axioms = []
        frontier = list(formulas)
        for _ in range(depth):
            apps = []
            todo = list(frontier)
            visited = set()
            while todo:
                t = todo.pop()
                if t.get_id() in visited:
                    continue
                visited.add(t.get_id())
                if z3.is_quantifier(t):
                    todo.append(t.body())
                    continue
                if z3.is_app(t):
                    if t.decl().name() in defs and t.num_args() > 0:
                        apps.append(t)
                    todo.extend(t.children())
            new = []
            for a in apps:
                if a.get_id() in seen:
                    continue
                seen.add(a.get_id())
                if _has_var(a):
                    continue
                rf, consts, body = defs[a.decl().name()]
                inst = z3.substitute(body, *[(c, arg) for c, arg in zip(consts, a.children())])
                new.append(a == inst)
            if not new:
                break
            axioms.extend(new)
            frontier = new
        return axioms

    def solve(self, ob, params=None):
        """z3 with a short budget, then cvc5 (strings), then z3 with the full budget.  unknown is never a verdict."""
        if ob.verdict is not None:
            return ob
        t0 = time.time()
        extra = self.unfold_axioms(list(ob.assumptions) + [ob.goal] + list(ob.hints))

        def z3_try(ms):
            s = z3.Solver()
            s.set("timeout", ms)
            s.add(*ob.assumptions)
            s.add(z3.Not(ob.goal))
            s.add(*extra)
            return s, s.check()
        budget = self.timeout_ms if ob.kind != "canary" else 400
        first = min(2500, budget)
        s, r = z3_try(first)
        ob.backend = "z3-" + z3.get_version_string()
        if r == z3.unknown and ob.kind != "canary":
            ob.verdict = "unknown"
            ob.detail = s.reason_unknown()
            self.try_cvc5(ob, s)
            if ob.verdict == "sat":
                ob.ms = int((time.time() - t0) * 1000)
                return ob
            if ob.verdict == "unknown" and budget > first:
                s, r = z3_try(budget)
                ob.backend = "z3-" + z3.get_version_string()
        if ob.verdict != "unsat" or ob.backend.startswith("z3"):
            if r == z3.unsat:
                ob.verdict = "unsat"
            elif r == z3.sat:
                ob.verdict = "sat"
                try:
                    ob.model = s.model()
                except z3.Z3Exception:
                    ob.model = None
            elif ob.verdict is None or ob.verdict == "unknown":
                ob.verdict = "unknown"
                ob.detail = (ob.detail or "") + " " + s.reason_unknown()
        ob.ms = int((time.time() - t0) * 1000)
        return ob

    def try_cvc5(self, ob, solver):
        try:
            smt = solver.to_smt2()
        except z3.Z3Exception:
            return
        if "declare-sort AStr" in smt or "(_ " in smt and False:
            pass
        logic = "(set-logic ALL)\n"
        with tempfile.NamedTemporaryFile("w", suffix=".smt2", delete=False, dir=os.path.join(VERIF, "build") if os.path.isdir(os.path.join(VERIF, "build")) else None) as f:
            f.write(logic + smt)
            path = f.name
        try:
            for extra in ([], ["--finite-model-find"]):
                out = subprocess.run(["/usr/bin/cvc5", "--strings-exp", f"--tlimit={self.timeout_ms}", *extra, path],
                                     capture_output=True, text=True, timeout=self.timeout_ms / 1000 + 5)
                res = out.stdout.strip().splitlines()[-1] if out.stdout.strip() else ""
                if res == "unsat":
                    ob.verdict = "unsat"
                    ob.backend = "cvc5-1.0.3"
                    break
                elif res == "sat":
                    # a counter-model exists (found by cvc5%s); inputs are recovered by the bounded replay search
                    ob.verdict = "sat"
                    ob.backend = "cvc5-1.0.3" + ("-fmf" if extra else "")
                    ob.detail += " | cvc5: sat"
                    break
                else:
                    ob.detail += f" | cvc5{' fmf' if extra else ''}: {res or out.stderr.strip()[:100]}"
        except (subprocess.TimeoutExpired, OSError) as e:
            ob.detail += f" | cvc5: {type(e).__name__}"
        finally:
            try:
                os.unlink(path)
            except OSError:
                pass


def _has_var(t):
    todo = [t]
    while todo:
        x = todo.pop()
        if z3.is_var(x):
            return True
        if z3.is_app(x):
            todo.extend(x.children())
    return False
