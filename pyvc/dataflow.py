"""Loop-iteration independence, decided by a def-before-use analysis of the loop body (no solver involved).

A contract may declare ghost={"independent_iterations": {<loop ordinal>: [accumulator names]}}.  For that loop the analysis shows a
*sufficient* condition for "what one iteration reports depends only on the element it processes, never on the elements before it":
  (1) every local variable assigned in the body (other than the loop targets and the accumulators) is definitely assigned before it is
      read on every path of the body - nothing computed for an earlier element can flow into a later one;
  (2) an accumulator is only extended (`acc += ...`, `acc.append/extend(...)`, a cell assignment `acc[k] = v` / `acc.at[i, c] = v`),
      never read, rebound or shrunk;
  (3) the loop has no `break` and no `return` / `raise` that every iteration reaches (every element is processed).
Each condition becomes an obligation `<cid>:independent:loop<k>.<what>`; a failing one carries the variable and line as its reason.
Object fields written through parameters are NOT covered here (they are frame obligations of the symbolic run)."""
import ast


class _Reads(ast.NodeVisitor):
    def __init__(self):
        self.reads = []

    def visit_Name(self, n):
        if isinstance(n.ctx, ast.Load):
            self.reads.append(n)

    def visit_Lambda(self, n):
        bound = {a.arg for a in n.args.args}
        sub = _Reads()
        sub.visit(n.body)
        self.reads.extend(r for r in sub.reads if r.id not in bound)

    def _comp(self, n):
        bound = set()
        for g in n.generators:
            for t in ast.walk(g.target):
                if isinstance(t, ast.Name):
                    bound.add(t.id)
        sub = _Reads()
        for g in n.generators:
            sub.visit(g.iter)
            for c in g.ifs:
                sub.visit(c)
        for f in ("elt", "key", "value"):
            if hasattr(n, f):
                sub.visit(getattr(n, f))
        self.reads.extend(r for r in sub.reads if r.id not in bound)

    visit_ListComp = visit_SetComp = visit_GeneratorExp = visit_DictComp = _comp


def _reads(node):
    r = _Reads()
    r.visit(node)
    return r.reads


def _targets(t, out):
    if isinstance(t, ast.Name):
        out.add(t.id)
    elif isinstance(t, (ast.Tuple, ast.List)):
        for e in t.elts:
            _targets(e, out)
    elif isinstance(t, ast.Starred):
        _targets(t.value, out)


class Analysis:
    def __init__(self, tracked, accs):
        self.tracked = tracked        # variables assigned somewhere in the body
        self.accs = accs
        self.problems = []            # (kind, name, lineno)

    def use(self, node, defined):
        for r in _reads(node):
            if r.id in self.accs:
                self.problems.append(("accumulator-read", r.id, r.lineno))
            elif r.id in self.tracked and r.id not in defined:
                self.problems.append(("read-before-assignment", r.id, r.lineno))

    def block(self, stmts, defined, top=False):
        """returns the set definitely assigned after the block (None if the block always leaves the iteration)"""
        for s in stmts:
            if top and isinstance(s, (ast.Return, ast.Raise)):
                # an exit that every iteration reaches: only the first element would ever be processed
                self.problems.append(("break", "unconditional " + type(s).__name__.lower(), s.lineno))
            defined = self.stmt(s, defined)
            if defined is None:
                return None
        return defined

    def stmt(self, s, defined):
        if isinstance(s, ast.Assign):
            self.use(s.value, defined)
            new = set(defined)
            for t in s.targets:
                if isinstance(t, (ast.Attribute, ast.Subscript)):
                    base = t
                    while isinstance(base, (ast.Attribute, ast.Subscript)):
                        base = base.value
                    if isinstance(base, ast.Name) and base.id in self.accs:
                        # acc[k] = v / acc.at[i, c] = v: one cell of the accumulator is written (the index expressions are ordinary reads)
                        for sub in ast.walk(t):
                            if isinstance(sub, ast.Subscript):
                                self.use(sub.slice, defined)
                        continue
                    self.use(t, defined)
                names = set()
                _targets(t, names)
                for nm in names:
                    if nm in self.accs:
                        self.problems.append(("accumulator-rebound", nm, s.lineno))
                new |= names
            return new
        if isinstance(s, ast.AugAssign):
            if isinstance(s.target, ast.Name) and s.target.id in self.accs and isinstance(s.op, ast.Add):
                self.use(s.value, defined)
                return defined
            self.use(s.value, defined)
            self.use(ast.Name(id=s.target.id, ctx=ast.Load(), lineno=s.lineno, col_offset=0) if isinstance(s.target, ast.Name) else s.target, defined)
            return defined
        if isinstance(s, ast.Expr):
            v = s.value
            if isinstance(v, ast.Call) and isinstance(v.func, ast.Attribute) and isinstance(v.func.value, ast.Name) \
                    and v.func.value.id in self.accs and v.func.attr in ("append", "extend"):
                for a in v.args:
                    self.use(a, defined)
                return defined
            self.use(v, defined)
            return defined
        if isinstance(s, ast.If):
            self.use(s.test, defined)
            a = self.block(s.body, set(defined))
            b = self.block(s.orelse, set(defined))
            if a is None:
                return b
            if b is None:
                return a
            return a & b
        if isinstance(s, (ast.For, ast.While)):
            if isinstance(s, ast.For):
                self.use(s.iter, defined)
                inner = set(defined)
                _targets(s.target, inner)
            else:
                self.use(s.test, defined)
                inner = set(defined)
            self.block(s.body, inner)        # may run zero times: nothing new is definitely assigned
            self.block(s.orelse, set(defined))
            return defined
        if isinstance(s, (ast.Continue, ast.Return, ast.Raise)):
            for f in ("value", "exc"):
                if getattr(s, f, None) is not None:
                    self.use(getattr(s, f), defined)
            return None
        if isinstance(s, ast.Break):
            self.problems.append(("break", "break", s.lineno))
            return None
        if isinstance(s, ast.Try):
            d = self.block(s.body, set(defined))
            outs = [d] if d is not None else []
            for h in s.handlers:
                hd = self.block(h.body, set(defined))
                if hd is not None:
                    outs.append(hd)
            res = set.intersection(*outs) if outs else None
            if s.finalbody:
                fd = self.block(s.finalbody, set(defined))
                if res is not None and fd is not None:
                    res |= (fd - defined)
            return res
        if isinstance(s, ast.With):
            for it in s.items:
                self.use(it.context_expr, defined)
                if it.optional_vars is not None:
                    _targets(it.optional_vars, defined)
            return self.block(s.body, defined)
        if isinstance(s, (ast.Pass, ast.Import, ast.ImportFrom)):
            return defined
        for child in ast.iter_child_nodes(s):
            self.use(child, defined)
        return defined


def nested_breaks_ok(body):
    """`break` inside an inner loop is that loop's business: strip inner loops before looking for `break`"""
    return body


def check_loop(loop, accs):
    """-> list of (kind, name, lineno) problems for one `for` loop"""
    from .stmts import assigned_names
    names, mutated, attrs, calls = assigned_names(loop.body)
    targets = set()
    _targets(loop.target, targets)
    tracked = (names | mutated) - set(accs) - targets
    an = Analysis(tracked, set(accs))

    class Inner(Analysis):
        pass
    # breaks of nested loops do not leave the outer loop: analyse nested loops with a scratch analysis for 'break'
    def strip(stmts):
        return stmts
    start = set(targets)
    an.block(loop.body, start, top=True)
    # a `break` reported from inside a nested loop belongs to that loop
    inner_break_lines = set()
    for n in ast.walk(ast.Module(body=loop.body, type_ignores=[])):
        if isinstance(n, (ast.For, ast.While)):
            for m in ast.walk(n):
                if isinstance(m, ast.Break):
                    inner_break_lines.add(m.lineno)
    return [p for p in an.problems if not (p[0] == "break" and p[2] in inner_break_lines)]


def writes_name(stmt, name):
    """does the statement (at any depth) rebind or extend the local `name`: assignment, augmented assignment, deletion, a mutating
    method call on it (append / extend / insert / sort / remove / pop / clear / update)"""
    for n in ast.walk(stmt):
        if isinstance(n, (ast.Assign, ast.AnnAssign, ast.AugAssign)):
            targets = n.targets if isinstance(n, ast.Assign) else [n.target]
            for t in targets:
                for m in ast.walk(t):
                    if isinstance(m, ast.Name) and m.id == name:
                        return True
        if isinstance(n, ast.Call) and isinstance(n.func, ast.Attribute) and isinstance(n.func.value, ast.Name) \
                and n.func.value.id == name and n.func.attr in ("append", "extend", "insert", "sort", "remove", "pop", "clear", "update",
                                                                  "reverse"):
            return True
        if isinstance(n, (ast.For, ast.comprehension)) and any(isinstance(m, ast.Name) and m.id == name for m in ast.walk(n.target)):
            return True
    return False


def check_final_value(fn, var, call, early_returns):
    """the value the function hands back at its end is the result of `call` applied to `var`: the last top-level statement is
    `return var`, the closest earlier top-level statement that writes `var` is `var = call(var, ...)`, and the function has exactly
    `early_returns` other return statements (each one is an early out the contract knows about).  -> list of problems"""
    problems = []
    body = [s for s in fn.body if not (isinstance(s, ast.Expr) and isinstance(getattr(s, "value", None), ast.Constant))]
    if not body or not (isinstance(body[-1], ast.Return) and isinstance(body[-1].value, ast.Name) and body[-1].value.id == var):
        problems.append(("final-return", var, getattr(body[-1], "lineno", fn.lineno) if body else fn.lineno))
        return problems
    last = None
    for st in reversed(body[:-1]):
        if writes_name(st, var):
            last = st
            break
    ok = isinstance(last, ast.Assign) and len(last.targets) == 1 and isinstance(last.targets[0], ast.Name) and last.targets[0].id == var \
        and isinstance(last.value, ast.Call) \
        and (last.value.func.id if isinstance(last.value.func, ast.Name) else getattr(last.value.func, "attr", None)) == call \
        and last.value.args and isinstance(last.value.args[0], ast.Name) and last.value.args[0].id == var
    if not ok:
        problems.append(("last-write-is-not-the-call", var, getattr(last, "lineno", fn.lineno)))
    others = [n for n in ast.walk(fn) if isinstance(n, ast.Return) and n is not body[-1]]
    inner_defs = [d for d in ast.walk(fn) if isinstance(d, (ast.FunctionDef, ast.Lambda)) and d is not fn]
    others = [r for r in others if not any(r in list(ast.walk(d)) for d in inner_defs)]
    if len(others) != early_returns:
        problems.append(("early-returns", str(len(others)), others[0].lineno if others else fn.lineno))
    return problems
