"""Engine self-test (setup_cmd): the verifier must prove true contracts AND refute false ones on small functions."""
import os
import shutil
import sys
import tempfile

SRC = '''
def count_up(n):
    i = 0
    total = 0
    while i < n:
        total += 2
        i += 1
    return total


def first_brace(s):
    for i, ch in enumerate(s):
        if ch == "{":
            return i
    return -1


def buggy_first_brace(s):
    for i, ch in enumerate(s):
        if ch == "{":
            return i + 1
    return -1
'''


def main():
    d = tempfile.mkdtemp(prefix="pyvc_selftest_")
    try:
        os.makedirs(os.path.join(d, "hed", "errors"))
        for f in ("error_messages.py", "schema_error_messages.py", "error_reporter.py"):
            open(os.path.join(d, "hed", "errors", f), "w").write("")
        open(os.path.join(d, "hed", "sample.py"), "w").write(SRC)
        os.environ["HED_REPO"] = d
        from pyvc import contract as C
        from pyvc.engine import Engine
        C.contract("T.count_up", file="hed/sample.py", func="count_up", params={"n": "Int"}, returns="Int",
                   requires=["n >= 0"], ensures={"double": "result == 2 * n"},
                   loops={0: {"invariant": ["0 <= i <= n", "total == 2 * i"], "decreases": "n - i"}})
        spec = {"invariant": ["all(s[k] != '{' for k in range(_n))"]}
        ens = {"first": "(result == -1 and all(s[k] != '{' for k in range(len(s)))) or "
                        "(0 <= result < len(s) and s[result] == '{' and all(s[k] != '{' for k in range(result)))"}
        C.contract("T.first_brace", file="hed/sample.py", func="first_brace", params={"s": "Str"}, returns="Int", enc="array",
                   ensures=ens, loops={0: spec})
        C.contract("T.buggy", file="hed/sample.py", func="buggy_first_brace", params={"s": "Str"}, returns="Int", enc="array",
                   ensures=ens, loops={0: spec})
        eng = Engine(repo=d, timeout_ms=5000)
        ok = True
        for cid, expect_all_unsat in (("T.count_up", True), ("T.first_brace", True), ("T.buggy", False)):
            res = eng.verify(C.CONTRACTS[cid])
            verdicts = []
            for ob in res["obligations"]:
                if ob.kind == "canary":
                    continue
                eng.solve(ob)
                verdicts.append(ob.verdict)
            if not verdicts:
                print(f"selftest {cid}: no obligations generated")
                ok = False
            all_unsat = all(v == "unsat" for v in verdicts)
            refuted = any(v == "sat" for v in verdicts)
            good = all_unsat if expect_all_unsat else refuted
            print(f"selftest {cid}: {len(verdicts)} obligations, {'proved' if all_unsat else 'refuted' if refuted else 'undecided'}"
                  f" -> {'ok' if good else 'UNEXPECTED'}")
            ok = ok and good
        for cid in ("T.count_up", "T.first_brace", "T.buggy"):
            del C.CONTRACTS[cid]
        return 0 if ok else 1
    finally:
        shutil.rmtree(d, ignore_errors=True)


if __name__ == "__main__":
    sys.exit(main())
