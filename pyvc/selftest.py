"""Engine self-test (setup_cmd): the verifier must prove true contracts AND refute false ones on small functions."""
import os
import shutil
import sys
import tempfile

SRC = '''
def count_up(n):
    i = 0
    total = 0
    while i < n:
        total += 2
        i += 1
    return total


def first_brace(s):
    for i, ch in enumerate(s):
        if ch == "{":
            return i
    return -1


def buggy_first_brace(s):
    for i, ch in enumerate(s):
        if ch == "{":
            return i + 1
    return -1


def bump(x):
    return x + 1


def grow(box):
    box.append(1)
    box.append(2)
    n = bump(len(box))
    box.append(n)
    return box


def shadow(a):
    result = a + 1
    return result + 1
'''


def main():
    d = tempfile.mkdtemp(prefix="pyvc_selftest_")
    try:
        os.makedirs(os.path.join(d, "hed", "errors"))
        for f in ("error_messages.py", "schema_error_messages.py", "error_reporter.py"):
            open(os.path.join(d, "hed", "errors", f), "w").write("")
        open(os.path.join(d, "hed", "sample.py"), "w").write(SRC)
        os.environ["HED_REPO"] = d
        from pyvc import contract as C
        from pyvc.engine import Engine
        C.contract("T.count_up", file="hed/sample.py", func="count_up", params={"n": "Int"}, returns="Int",
                   requires=["n >= 0"], ensures={"double": "result == 2 * n"},
                   loops={0: {"invariant": ["0 <= i <= n", "total == 2 * i"], "decreases": "n - i"}})
        spec = {"invariant": ["all(s[k] != '{' for k in range(_n))"]}
        ens = {"first": "(result == -1 and all(s[k] != '{' for k in range(len(s)))) or "
                        "(0 <= result < len(s) and s[result] == '{' and all(s[k] != '{' for k in range(result)))"}
        C.contract("T.first_brace", file="hed/sample.py", func="first_brace", params={"s": "Str"}, returns="Int", enc="array",
                   ensures=ens, loops={0: spec})
        C.contract("T.buggy", file="hed/sample.py", func="buggy_first_brace", params={"s": "Str"}, returns="Int", enc="array",
                   ensures=ens, loops={0: spec})
        # old(...) keeps denoting the ENTRY state after a call answered by a callee contract (regression: it meant "at the last call")
        C.contract("T.bump", file="hed/sample.py", func="bump", params={"x": "Int"}, returns="Int", ensures={"one_more": "result == x + 1"})
        C.contract("T.grow_true", file="hed/sample.py", func="grow", params={"box": "List[Int]"}, returns="List[Int]",
                   ghost={"alias_ok": True}, modifies=["box"], ensures={"three_more": "len(box) == len(old(box)) + 3"})
        C.contract("T.grow_false", file="hed/sample.py", func="grow", params={"box": "List[Int]"}, returns="List[Int]",
                   ghost={"alias_ok": True, "not_at_call_sites": True}, modifies=["box"], ensures={"one_more": "len(box) == len(old(box)) + 1"})
        # `result` in a clause is the value handed back, not a local of that name
        C.contract("T.shadow_true", file="hed/sample.py", func="shadow", params={"a": "Int"}, returns="Int", ensures={"two_more": "result == a + 2"})
        C.contract("T.shadow_false", file="hed/sample.py", func="shadow", params={"a": "Int"}, returns="Int",
                   ghost={"not_at_call_sites": True}, ensures={"one_more": "result == a + 1"})
        eng = Engine(repo=d, timeout_ms=5000)
        ok = True
        cases = (("T.count_up", True), ("T.first_brace", True), ("T.buggy", False), ("T.grow_true", True), ("T.grow_false", False),
                 ("T.shadow_true", True), ("T.shadow_false", False))
        for cid, expect_all_unsat in cases:
            res = eng.verify(C.CONTRACTS[cid])
            verdicts = []
            for ob in res["obligations"]:
                if ob.kind == "canary":
                    continue
                eng.solve(ob)
                verdicts.append(ob.verdict)
            if not verdicts:
                print(f"selftest {cid}: no obligations generated")
                ok = False
            all_unsat = all(v == "unsat" for v in verdicts)
            refuted = any(v == "sat" for v in verdicts)
            good = all_unsat if expect_all_unsat else refuted
            print(f"selftest {cid}: {len(verdicts)} obligations, {'proved' if all_unsat else 'refuted' if refuted else 'undecided'}"
                  f" -> {'ok' if good else 'UNEXPECTED'}")
            ok = ok and good
        # a trusted summary counts as proved only if another contract states ITS clauses on the same function (pyvc/contract.py)
        C.contract("T.sum_x", file="hed/sample.py", func="bump", params={"x": "Int"}, returns="Int", trusted=True,
                   ensures={"one_more": "result == x + 1"})
        C.contract("T.sum_good", file="hed/sample.py", func="bump", params={"x": "Int"}, returns="Int",
                   ghost={"not_at_call_sites": True, "discharges": "T.sum_x"}, ensures={"one_more": "result ==  x + 1", "more": "result > x"})
        C.apply_discharges()
        good1 = C.DISCHARGED.get("T.sum_x") == "T.sum_good"
        C.CONTRACTS["T.sum_good"].ensures["one_more"] = "result >= x + 1"       # a weaker text under the same label must be refused
        C.apply_discharges()
        good2 = "T.sum_x" not in C.DISCHARGED
        C.CONTRACTS["T.sum_good"].ensures["one_more"] = "result == x + 1"
        C.CONTRACTS["T.sum_good"].requires.append("x > 0")                      # a proof under an extra precondition must be refused
        C.apply_discharges()
        good3 = "T.sum_x" not in C.DISCHARGED
        print(f"selftest discharges: accepted={good1} weaker-refused={good2} extra-requires-refused={good3} -> "
              f"{'ok' if good1 and good2 and good3 else 'UNEXPECTED'}")
        ok = ok and good1 and good2 and good3
        for cid in [c for c, _ in cases] + ["T.bump", "T.sum_x", "T.sum_good"]:
            del C.CONTRACTS[cid]
        C.apply_discharges()
        return 0 if ok else 1
    finally:
        shutil.rmtree(d, ignore_errors=True)


if __name__ == "__main__":
    sys.exit(main())
