"""SMT definitions of spec functions whose CPython definition (in /verif/spec) uses set algebra."""
import z3
from .vals import SV, Cell, BOOL, sort_of, Unsupported


def _map_term(interp, m):
    ctx = interp.ctx
    if isinstance(m, SV) and m.ty.name == "Map":
        return m.ty, m.t
    if isinstance(m, Cell) and m.kind == "dict":
        if m.sym is None:
            raise Unsupported("map view of a concrete dict")
        return m.sym.ty, m.sym.t
    raise Unsupported(f"map view of {m!r}")


def _keys_rel(interp, m1, m0, key, mode):
    ctx = interp.ctx
    ty, a = _map_term(interp, m1)
    _, b = _map_term(interp, m0)
    s = sort_of(ty)
    k = z3.Const(ctx.fresh_name("key"), sort_of(ty.args[0]))
    same = z3.Select(s.dom(a), k) == z3.Select(s.dom(b), k)
    if mode == "same":
        return SV(BOOL, z3.ForAll([k], same))
    kt = ctx.term(key, ty.args[0])
    here = z3.Select(s.dom(a), kt)
    return SV(BOOL, z3.And(here if mode == "add" else z3.Not(here), z3.ForAll([k], z3.Or(k == kt, same))))


def _replace_all(interp, args, kwargs):
    from . import contract as C
    return C.EXTERNS["replace_all"](interp, args, kwargs)


def _quant_in(is_all):
    def f(interp, args, kwargs):
        """all_in(L, lambda x: P) / any_in(L, lambda x: P): quantification over the members of a list (set view)"""
        from .core import mem_fn
        ctx = interp.ctx
        lst, fn = args
        if isinstance(lst, Cell):
            if lst.sym is None:
                ts = [ctx.zbool(ctx.truth(interp.call(fn, [x], {}))) for x in lst.conc]
                if not ts:
                    return is_all
                return SV(BOOL, (z3.And if is_all else z3.Or)(*ts))
            lst = lst.sym
        ty = lst.ty
        e = z3.Const(ctx.fresh_name("m"), sort_of(ty.args[0]))
        body = ctx.zbool(ctx.truth(interp.call(fn, [ctx.wrap(e, ty.args[0])], {})))
        m = mem_fn(ty)(lst.t, e)
        if is_all:
            try:
                return SV(BOOL, z3.ForAll([e], z3.Implies(m, body), patterns=[m]))
            except z3.Z3Exception:      # the list term is not a valid pattern (contains an ite): let z3 choose
                return SV(BOOL, z3.ForAll([e], z3.Implies(m, body)))
        return SV(BOOL, z3.Exists([e], z3.And(m, body)))
    return f


def _fresh(interp, args, kwargs):
    """fresh(x): x was allocated during the call under verification (None is not fresh)"""
    from .core import BIRTH
    v = args[0]
    if v is None:
        return False
    if isinstance(v, SV) and v.ty.name == "Opt":
        s = sort_of(v.ty)
        return SV(BOOL, z3.And(z3.Not(s.is_none(v.t)), BIRTH(s.val(v.t)) >= 0))
    if isinstance(v, SV) and v.ty.name == "Ref":
        return SV(BOOL, BIRTH(v.t) >= 0)
    from .vals import Cell
    if isinstance(v, Cell) and v.fresh and v.home is None:
        # a list/dict/set created on this path by the function under verification (or handed out as fresh by a callee contract): the same
        # flag decides whether mutating it is a frame obligation. A container that is not known to be fresh stays undecided (never False).
        return True
    raise Unsupported(f"fresh() of {v!r}")


def _extern(name):
    def f(interp, args, kwargs):
        from . import contract as C
        return C.EXTERNS[name](interp, args, kwargs)
    return f


def _is_in(interp, args, kwargs):
    """is_in(x, L): identity membership (the set view of the list), whatever __eq__ the element class defines"""
    from .core import mem_fn
    ctx = interp.ctx
    x, lst = args
    if isinstance(lst, Cell) and lst.sym is None:
        ts = [ctx.zbool(ctx.equal(x, e)) for e in lst.conc]
        return SV(BOOL, z3.Or(*ts)) if ts else False
    sv = lst.sym if isinstance(lst, Cell) else lst
    return SV(BOOL, mem_fn(sv.ty)(sv.t, ctx.term(x, sv.ty.args[0])))


def _count_of(interp, args, kwargs):
    """count_of(s, c): the uninterpreted str.count symbol (its two facts are assumed where the code calls str.count)"""
    f = z3.Function("count_of", z3.StringSort(), z3.StringSort(), z3.IntSort())
    from .vals import INT
    return SV(INT, f(interp.ctx.strs.to_native(args[0]), interp.ctx.strs.to_native(args[1])))


def _no_keys(interp, args, kwargs):
    """no_keys(m): the map has no key at all"""
    ty, a = _map_term(interp, args[0])
    s = sort_of(ty)
    k = z3.Const(interp.ctx.fresh_name("key"), sort_of(ty.args[0]))
    return SV(BOOL, z3.ForAll([k], z3.Not(z3.Select(s.dom(a), k))))


SPEC_BUILTINS = {
    "no_keys": _no_keys,
    "count_of": _count_of,
    "is_in": _is_in,
    "fresh": _fresh, "split_off": _extern("split_off"), "join_off": _extern("join_off"),
    "all_in": _quant_in(True), "any_in": _quant_in(False),
    "replace_all": _replace_all,
    "same_keys": lambda interp, args, kwargs: _keys_rel(interp, args[0], args[1], None, "same"),
    "map_eq_except_add": lambda interp, args, kwargs: _keys_rel(interp, args[0], args[1], args[2], "add"),
    "map_eq_except_del": lambda interp, args, kwargs: _keys_rel(interp, args[0], args[1], args[2], "del"),
}
