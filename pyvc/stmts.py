"""Statements, scopes, loops cut at invariants, try/except."""
import ast
import z3

from .vals import (SV, Char, Opaque, Cell, Closure, ClassRef, BoundMethod, Builtin, ExcValue, Unsupported, INT, BOOL,
                   REAL, STR, ASTR, OPQ, TOpt, TList, TTuple, TRef, TMap, TSet, sort_of, alen, aat)
from .core import Infeasible, PathEnd, PyRaise
from .strenc import is_str
from .symex import _Return, _Break, _Continue, MUTATORS, exc_is_subclass, Frame
from .access import RangeV, EnumV, ZipV
from . import contract as C


def source_order_loops(fn):
    """loops of a function in source order (not descending into nested defs / lambdas / comprehensions)"""
    out = []

    def visit(stmts):
        for s in stmts:
            if isinstance(s, (ast.For, ast.While)):
                out.append(s)
                visit(s.body)
                visit(s.orelse)
            elif isinstance(s, ast.If):
                visit(s.body)
                visit(s.orelse)
            elif isinstance(s, ast.Try):
                visit(s.body)
                for h in s.handlers:
                    visit(h.body)
                visit(s.orelse)
                visit(s.finalbody)
            elif isinstance(s, ast.With):
                visit(s.body)
    visit(fn.body)
    return out


def assigned_names(stmts):
    names, mutated, attr_stores, calls = set(), set(), set(), []

    def target(t):
        if isinstance(t, ast.Name):
            names.add(t.id)
        elif isinstance(t, (ast.Tuple, ast.List)):
            for e in t.elts:
                target(e)
        elif isinstance(t, ast.Starred):
            target(t.value)
        elif isinstance(t, ast.Subscript):
            base = t.value
            while isinstance(base, ast.Subscript):
                base = base.value
            if isinstance(base, ast.Name):
                mutated.add(base.id)
            elif isinstance(base, ast.Attribute):
                attr_stores.add(base.attr)
        elif isinstance(t, ast.Attribute):
            # (receiver name, attribute) when the receiver is a plain name: lets the loop havoc touch only that object's field
            attr_stores.add((t.value.id, t.attr) if isinstance(t.value, ast.Name) else t.attr)

    class V(ast.NodeVisitor):
        def visit_Assign(self, n):
            for t in n.targets:
                target(t)
            self.generic_visit(n)

        def visit_AugAssign(self, n):
            target(n.target)
            if isinstance(n.target, ast.Name):
                mutated.add(n.target.id)
            self.generic_visit(n)

        def visit_AnnAssign(self, n):
            target(n.target)
            self.generic_visit(n)

        def visit_For(self, n):
            target(n.target)
            self.generic_visit(n)

        def visit_With(self, n):
            for it in n.items:
                if it.optional_vars is not None:
                    target(it.optional_vars)
            self.generic_visit(n)

        def visit_Delete(self, n):
            for t in n.targets:
                target(t)
            self.generic_visit(n)

        def visit_ExceptHandler(self, n):
            if n.name:
                names.add(n.name)
            self.generic_visit(n)

        def visit_Call(self, n):
            if isinstance(n.func, ast.Attribute) and n.func.attr in MUTATORS:
                base = n.func.value
                while isinstance(base, ast.Subscript):
                    base = base.value
                if isinstance(base, ast.Name):
                    mutated.add(base.id)
                elif isinstance(base, ast.Attribute):
                    attr_stores.add(base.attr)
            calls.append(n)
            self.generic_visit(n)

        def visit_FunctionDef(self, n):
            names.add(n.name)

        def visit_Lambda(self, n):
            pass

        def visit_NamedExpr(self, n):
            target(n.target)
            self.generic_visit(n)
    v = V()
    for s in stmts:
        v.visit(s)
    return names, mutated, attr_stores, calls


class StmtMixin:
    # ------------------------------------------------------------------ scopes / binding
    def push_scope(self):
        fr = self.frames[-1]
        fr.saved = getattr(fr, "saved", [])
        fr.saved.append(fr.env)
        fr.env = dict(fr.env)

    def pop_scope(self):
        fr = self.frames[-1]
        fr.env = fr.saved.pop()

    def bind(self, target, v):
        ctx = self.ctx
        if isinstance(target, ast.Name):
            vv = getattr(ctx, "var_version", None)
            if vv is None:
                vv = ctx.var_version = {}
            vv[target.id] = vv.get(target.id, 0) + 1
            self.env[target.id] = v
        elif isinstance(target, (ast.Tuple, ast.List)):
            if isinstance(v, Cell) and v.kind == "list" and v.sym is None:
                v = tuple(v.conc)
            if isinstance(v, Opaque):
                for e in target.elts:
                    self.bind(e, Opaque(v.desc + "[]"))
                return
            if not isinstance(v, tuple):
                raise Unsupported(f"unpacking of {v!r}")
            if len(v) != len(target.elts):
                ctx.may_raise(True, "ValueError", "unpack arity")
                raise Infeasible()
            for e, x in zip(target.elts, v):
                self.bind(e, x)
        elif isinstance(target, ast.Attribute):
            obj = self.eval(target.value)
            if isinstance(obj, Opaque):
                return
            if obj is None or (isinstance(obj, SV) and obj.ty.name == "Opt"):
                obj = ctx.unopt(obj, "AttributeError", "store on None")
            if isinstance(obj, SV) and obj.ty.name == "Ref":
                if obj.t.sexpr() not in getattr(ctx, "fresh_refs", set()):
                    origin = f"{self.describe(obj)}.{target.attr}"
                    if not self.engine.modifies_allows(ctx, origin):
                        ctx.oblige("frame", f"assignment to {origin}", z3.BoolVal(False), top=True, info={"frame": origin})
                self.field_write(obj, target.attr, v)
                return
            raise Unsupported(f"attribute store on {obj!r}")
        elif isinstance(target, ast.Subscript):
            if isinstance(target.slice, ast.Slice):
                cont = self.eval(target.value)
                if isinstance(cont, Cell) and cont.kind == "list" and target.slice.lower is None and target.slice.upper is None:
                    self.mutate(cont, "slice assignment")
                    src = v
                    if isinstance(src, Cell):
                        cont.conc = list(src.conc) if src.conc is not None else None
                        cont.sym = src.sym
                        self.write_back(cont)
                        return
                raise Unsupported("slice assignment")
            # nested: a[i][j] = v  / a[i] = v
            self.store_subscript(target, v)
        else:
            raise Unsupported(f"assignment target {type(target).__name__}")

    def store_subscript(self, target, v):
        ctx = self.ctx
        cont = self.eval(target.value)
        idx = self.eval(target.slice)
        if isinstance(cont, Opaque):
            if not cont.fresh:
                if not self.engine.modifies_allows(ctx, cont.desc):
                    ctx.oblige("frame", f"item assignment on {cont.desc}", z3.BoolVal(False), top=True, info={"frame": cont.desc})
            return
        if cont is None or (isinstance(cont, SV) and cont.ty.name == "Opt"):
            cont = ctx.unopt(cont, "TypeError", "item store on None")
        if isinstance(cont, Cell):
            if cont.kind == "list":
                self.list_set(cont, idx, v)
            elif cont.kind == "dict":
                self.dict_set(cont, idx, v)
            else:
                raise Unsupported("item store on set")
            self.propagate_nested(target.value, cont)
            return
        if isinstance(cont, SV) and cont.ty.name == "Ref" and isinstance(idx, str):
            if cont.t.sexpr() not in getattr(ctx, "fresh_refs", set()):
                origin = f"{self.describe(cont)}.{idx}"
                if not self.engine.modifies_allows(ctx, origin):
                    ctx.oblige("frame", f"assignment to {origin}", z3.BoolVal(False), top=True, info={"frame": origin})
            self.field_write(cont, idx, v)
            if self.field_info(cont.ty.args[0].name, "has_" + idx) is not None:
                self.field_write(cont, "has_" + idx, True)
            return
        raise Unsupported(f"item store on {cont!r}")

    def propagate_nested(self, expr, inner):
        """after mutating the value obtained from expr (value-semantics nested container), store it back"""
        if isinstance(expr, ast.Subscript) and not isinstance(expr.slice, ast.Slice):
            outer = self.eval(expr.value)
            if isinstance(outer, Cell) and outer.sym is not None:
                idx = self.eval(expr.slice)
                if outer.kind == "list":
                    self.list_set(outer, idx, inner)
                else:
                    self.dict_set(outer, idx, inner)
                self.propagate_nested(expr.value, outer)

    # ------------------------------------------------------------------ statements
    def exec_block(self, stmts):
        for s in stmts:
            self.exec(s)

    def exec(self, s):
        m = getattr(self, "x_" + type(s).__name__, None)
        if m is None:
            raise Unsupported(f"statement {type(s).__name__}")
        m(s)
        fr = self.frames[-1]
        ct = getattr(fr, "contract", None)
        if ct is not None and ct.ghost.get("update"):
            txt = None
            for anchor, upd in ct.ghost["update"]:
                if anchor.startswith("assign:"):
                    # every assignment to the named variable, whatever its right-hand side (robust against rewrites of the expression)
                    if isinstance(s, ast.Assign) and len(s.targets) == 1 and isinstance(s.targets[0], ast.Name) \
                            and s.targets[0].id == anchor[7:]:
                        self.ghost_assign(upd)
                    continue
                if txt is None:
                    txt = ast.unparse(s)
                if txt == anchor:
                    self.ghost_assign(upd)

    def ghost_assign(self, text):
        ctx = self.ctx
        node = ast.parse(text).body[0]
        saved = ctx.spec
        ctx.spec = True
        try:
            v = self.eval(node.value)
        finally:
            ctx.spec = saved
        ctx.ghost[node.targets[0].id] = v

    def x_Expr(self, s):
        if isinstance(s.value, ast.Constant):
            return
        self.eval(s.value)

    def x_Pass(self, s):
        pass

    def x_Assign(self, s):
        self._expected_ty = None
        declared = None
        if len(s.targets) == 1 and isinstance(s.targets[0], ast.Name):
            ct = getattr(self.frames[-1], "contract", None)
            if ct is not None and s.targets[0].id in ct.locals:
                declared = self.ptype(ct.locals[s.targets[0].id])
                if isinstance(s.value, ast.ListComp):
                    self._expected_ty = declared      # declared type of the list being built
        try:
            v = self.eval(s.value)
            if self._expected_ty is not None and isinstance(v, Cell) and getattr(v, "unknown", False) \
                    and self._expected_ty.name == "List":
                # a list built by an unmodelled comprehension whose element type the contract declares: arbitrary content of that type
                v = self.ctx.fresh(self._expected_ty, s.targets[0].id)
                v.fresh = True
            elif declared is not None and declared.name in ("Set", "List", "Map") and (
                    (isinstance(v, Cell) and getattr(v, "unknown", False) and v.kind == {"Set": "set", "List": "list", "Map": "dict"}[declared.name])
                    or (isinstance(v, Opaque) and v.fresh and v.desc == {"Set": "set()", "List": "list()", "Map": "dict()"}[declared.name])):
                # a container of unknown content (built from unmodelled calls) whose type the contract declares: arbitrary content of that type
                v = self.ctx.fresh(declared, s.targets[0].id)
                v.fresh = True
        finally:
            self._expected_ty = None
        for t in s.targets:
            self.bind(t, v)

    def x_AnnAssign(self, s):
        if s.value is not None:
            self.bind(s.target, self.eval(s.value))

    def x_AugAssign(self, s):
        ctx = self.ctx
        cur = self.eval(s.target) if not isinstance(s.target, ast.Name) else self.e_Name(s.target)
        rhs = self.eval(s.value)
        if isinstance(cur, Cell) and cur.kind == "list" and isinstance(s.op, ast.Add):
            # in-place extension: every alias sees it
            self.list_extend(cur, rhs)
            if isinstance(s.target, ast.Subscript):
                self.propagate_nested(s.target, cur)
            return
        if isinstance(cur, Cell) and cur.kind == "set" and isinstance(s.op, ast.BitOr):
            self.mutate(cur, "|=")
            u = self.set_union(cur, rhs)
            cur.conc, cur.sym = u.conc, u.sym
            self.write_back(cur)
            return
        if isinstance(cur, Opaque):
            if not cur.fresh and not self.engine.modifies_allows(ctx, cur.desc) and isinstance(s.op, (ast.Add, ast.BitOr)):
                # += on an unknown object obtained from outside may mutate it in place (lists do)
                ctx.oblige("frame", f"augmented assignment on {cur.desc}", z3.BoolVal(False), top=True, info={"frame": cur.desc})
            self.bind(s.target, Opaque("augassign", fresh=cur.fresh))
            return
        self.bind(s.target, self.binop(s.op, cur, rhs))

    def x_Return(self, s):
        raise _Return(self.eval(s.value) if s.value is not None else None)

    def x_Break(self, s):
        raise _Break()

    def x_Continue(self, s):
        raise _Continue()

    def x_Global(self, s):
        pass

    def x_Nonlocal(self, s):
        pass

    def x_Import(self, s):
        for a in s.names:
            self.env[a.asname or a.name.split(".")[0]] = Builtin(a.name if a.asname else a.name.split(".")[0])

    def x_ImportFrom(self, s):
        for a in s.names:
            self.env[a.asname or a.name] = self.engine.resolve_import(self, s.module, a.name)

    def x_FunctionDef(self, s):
        clo = Closure(s, self.env, name=s.name)
        clo.module = self.frames[-1].module
        self.env[s.name] = clo

    def x_Assert(self, s):
        t = self.ctx.truth(self.eval(s.test))
        self.ctx.may_raise(self._not(t), "AssertionError", "assert")

    def x_Delete(self, s):
        for t in s.targets:
            if isinstance(t, ast.Subscript):
                cont = self.eval(t.value)
                idx = self.eval(t.slice)
                if isinstance(cont, Cell) and cont.kind == "dict":
                    self.dict_del(cont, idx)
                    continue
                if isinstance(cont, Opaque):
                    if not cont.fresh and not self.engine.modifies_allows(self.ctx, cont.desc):
                        self.ctx.oblige("frame", f"del on {cont.desc}", z3.BoolVal(False), top=True, info={"frame": cont.desc})
                    continue
                raise Unsupported("del on non-dict")
            elif isinstance(t, ast.Name):
                self.env.pop(t.id, None)
            else:
                raise Unsupported("del target")

    def x_If(self, s):
        ctx = self.ctx
        v = self.eval(s.test)
        if isinstance(v, Opaque) or getattr(v, "unknown", False):
            # the same test over unchanged variables has the same (unknown) outcome: correlate the forks
            names = sorted({n.id for n in ast.walk(s.test) if isinstance(n, ast.Name)})
            vers = getattr(ctx, "var_version", {})
            has_call = any(isinstance(n, ast.Call) and not (isinstance(n.func, ast.Name) and n.func.id in ("len", "isinstance"))
                           for n in ast.walk(s.test))
            key = (ast.unparse(s.test), tuple(vers.get(n, 0) for n in names), len(self.frames))
            memo = getattr(ctx, "opaque_memo", None)
            if memo is None:
                memo = ctx.opaque_memo = {}
            if not has_call and key in memo:
                take = memo[key]
            else:
                take = ctx.decide_opaque("if-opaque")
                memo[key] = take
        else:
            t = ctx.truth(v)
            take = t if isinstance(t, bool) else ctx.decide(t, "if")
        self.exec_block(s.body if take else s.orelse)

    def x_Raise(self, s):
        if s.exc is None:
            cur = getattr(self, "current_exc", None)
            if cur is None:
                raise Unsupported("bare raise outside handler")
            raise PyRaise(cur)
        v = self.eval(s.exc)
        if isinstance(v, ClassRef):
            v = ExcValue(v.name)
        if isinstance(v, Opaque):
            v = ExcValue("Exception")
        if not isinstance(v, ExcValue):
            raise Unsupported(f"raise of {v!r}")
        raise PyRaise(v)

    def handler_classes(self, h):
        if h.type is None:
            return ["BaseException"]
        v = self.eval(h.type)
        out = []
        for x in (v if isinstance(v, tuple) else (v,)):
            if isinstance(x, ClassRef):
                out.append(x.name)
            elif isinstance(x, Builtin):
                out.append(x.name.split(".")[-1])
            else:
                raise Unsupported("except clause type")
        return out

    def x_Try(self, s):
        ctx = self.ctx
        handlers = [(h, self.handler_classes(h)) for h in s.handlers]
        ctx.try_depth.append([c for _, cs in handlers for c in cs])
        popped = False
        try:
            try:
                self.exec_block(s.body)
                ctx.try_depth.pop()
                popped = True
                self.exec_block(s.orelse)
            except PyRaise as e:
                if not popped:
                    ctx.try_depth.pop()
                    popped = True
                for h, classes in handlers:
                    if any(exc_is_subclass(self.engine, e.exc.cls, c) for c in classes):
                        if h.name:
                            self.env[h.name] = e.exc
                        prev = getattr(self, "current_exc", None)
                        self.current_exc = e.exc
                        try:
                            self.exec_block(h.body)
                        finally:
                            self.current_exc = prev
                        break
                else:
                    raise
        finally:
            if not popped:
                ctx.try_depth.pop()
            if s.finalbody:
                self.exec_block(s.finalbody)

    def x_With(self, s):
        """context managers: objects of modelled classes get their __enter__/__exit__ contracts applied
        (also on exceptional exit); everything else is an extern value entered as itself"""
        managers = []
        for it in s.items:
            v = self.eval(it.context_expr)
            entered = v
            if isinstance(v, SV) and v.ty.name == "Ref":
                cls = v.ty.args[0].name
                ct_in = C.find_method_contract(cls, "__enter__")
                ct_out = C.find_method_contract(cls, "__exit__")
                if ct_in is not None:
                    entered = self.apply_contract(ct_in, v, [], {}, s)
                    managers.append((v, ct_out))
            else:
                entered = self.engine.with_enter(self, v)
            if it.optional_vars is not None:
                self.bind(it.optional_vars, entered)
        try:
            self.exec_block(s.body)
        finally:
            for v, ct_out in reversed(managers):
                if ct_out is not None:
                    self.apply_contract(ct_out, v, [None, None, None], {}, s)

    # ------------------------------------------------------------------ loops
    def loop_spec(self, node):
        fr = self.frames[-1]
        ct = getattr(fr, "contract", None)
        if ct is None:
            return None, None
        order = self.engine.loop_order(ct)
        for k, ln in enumerate(order):
            if ln is node:
                return ct.loops.get(k), k
        return None, None

    def x_For(self, s):
        ctx = self.ctx
        spec, ordinal = self.loop_spec(s)
        it = self.eval(s.iter)
        if it is None or (isinstance(it, SV) and it.ty.name == "Opt"):
            it = ctx.unopt(it, "TypeError", "iterate over None")
        items = self.iter_items_concrete(it)
        if spec is None and items is not None:
            self.unroll(s, items)
            return
        if spec is None and (isinstance(it, Opaque) or getattr(it, "unknown", False)):
            self.opaque_loop(s)
            return
        if spec is None:
            ct = getattr(self.frames[-1], "contract", None) or self.frames[0].contract
            k = getattr(ct, "unwind", None)
            if k == "havoc":
                self.opaque_loop(s, it)
                return
            if k:
                self.unwind_for(s, it, k)
                return
            raise Unsupported(f"loop at line {s.lineno} has no invariant")
        ln, at = self.iter_model(it)
        lnt = ctx.term(ln, INT)
        ctx.ghost[f"_iter{ordinal}"] = it if not isinstance(it, (RangeV, EnumV, ZipV)) else None
        ctx.ghost["_len"] = ln
        self.cut_loop(s, spec, ordinal, guard=lambda n: n < lnt, bound=lnt,
                      bind=lambda n: self.bind(s.target, at(n)))

    def x_While(self, s):
        ctx = self.ctx
        spec, ordinal = self.loop_spec(s)
        if spec is None:
            ct = getattr(self.frames[-1], "contract", None) or self.frames[0].contract
            k = getattr(ct, "unwind", None)
            if k == "havoc":
                fake = ast.For(target=ast.Name(id="_while", ctx=ast.Store()), iter=s.test, body=s.body, orelse=s.orelse)
                self.eval_tolerant(s.test)
                self.opaque_loop(fake)
                return
            if k:
                for _ in range(k):
                    t = ctx.truth(self.eval(s.test))
                    take = t if isinstance(t, bool) else ctx.decide(t, "while")
                    if not take:
                        self.exec_block(s.orelse)
                        return
                    try:
                        self.exec_block(s.body)
                    except _Continue:
                        continue
                    except _Break:
                        return
                t = ctx.truth(self.eval(s.test))
                if not isinstance(t, bool):
                    ctx.assume(z3.Not(t))
                    self.engine.note_bounded(ctx, f"while loop line {s.lineno} unwound {k} times")
                elif t:
                    raise Infeasible()
                return
            raise Unsupported(f"while loop at line {s.lineno} has no invariant")

        def guard_eval():
            t = ctx.truth(self.eval(s.test))
            return ctx.zbool(t)
        self.cut_loop(s, spec, ordinal, guard=None, bound=None, bind=None, while_guard=guard_eval)

    def unroll(self, s, items):
        for x in items:
            self.bind(s.target, x)
            try:
                self.exec_block(s.body)
            except _Continue:
                continue
            except _Break:
                return
        self.exec_block(s.orelse)

    def unwind_for(self, s, it, k):
        ctx = self.ctx
        ln, at = self.iter_model(it)
        lnt = ctx.term(ln, INT)
        for j in range(k):
            if not ctx.decide(lnt > j, "unwind"):
                self.exec_block(s.orelse)
                return
            self.bind(s.target, at(z3.IntVal(j)))
            try:
                self.exec_block(s.body)
            except _Continue:
                continue
            except _Break:
                return
        ctx.assume(lnt <= k)
        self.engine.note_bounded(ctx, f"for loop line {s.lineno} unwound {k} times")
        self.exec_block(s.orelse)

    def opaque_loop(self, s, it=None):
        """iteration without invariant (unmodelled iterable, or a frame-only contract): the body is explored once
        from a havocked state - sound for frame / None-safety obligations, which hold in every state;
        value obligations after the loop see havocked variables."""
        ctx = self.ctx
        mode = ctx.choose(2, "opaque-loop")
        names, mutated, attrs, calls = assigned_names([s])
        self.havoc_names(names | mutated, {}, opaque_ok=True)
        self.havoc_fields(attrs, calls, {}, reassigned=names)
        if mode == 0:
            self.exec_block(s.orelse)
            return
        bound = False
        if it is not None and not isinstance(it, Opaque):
            try:
                ln, at = self.iter_model(it)
                n = z3.Int(ctx.fresh_name("_it"))
                ctx.assume(z3.And(0 <= n, n < ctx.term(ln, INT)))
                self.bind(s.target, at(n))
                bound = True
            except Unsupported:
                pass
        if not bound:
            self.bind_opaque(s.target)
            self.bind_declared(s.target)
        try:
            self.exec_block(s.body)
        except _Continue:
            pass
        except _Break:
            return
        self.havoc_names(names | mutated, {}, opaque_ok=True)
        self.havoc_fields(attrs, calls, {}, reassigned=names)

    def bind_declared(self, target):
        """loop targets of an unmodelled iterable whose type the contract declares (locals) are arbitrary values of that type"""
        ct = getattr(self.frames[-1], "contract", None) or self.ctx.contract
        decl = getattr(ct, "locals", {}) or {}
        if isinstance(target, ast.Name) and target.id in decl:
            ty = self.ptype(decl[target.id])
            if ty != OPQ:
                v = self.ctx.fresh(ty, target.id)
                self.env[target.id] = v
        elif isinstance(target, (ast.Tuple, ast.List)):
            for e in target.elts:
                self.bind_declared(e)

    def bind_opaque(self, target):
        if isinstance(target, ast.Name):
            self.env[target.id] = Opaque("loopvar")
        elif isinstance(target, (ast.Tuple, ast.List)):
            for e in target.elts:
                self.bind_opaque(e)

    def havoc_names(self, names, decl, opaque_ok=False):
        ctx = self.ctx
        env = self.env
        for name in sorted(names):
            if name in decl:
                ty = self.ptype(decl[name])
            elif name in env:
                cur = env[name]
                ty = ctx.type_of(cur)
                if cur is None or (ty is not None and ty != OPQ and "Opaque" in repr(ty)):
                    ty = None
                if ty is None:
                    if opaque_ok or isinstance(cur, (Closure, ClassRef, Builtin)):
                        if not isinstance(cur, (Closure, ClassRef, Builtin)):
                            if isinstance(cur, Cell):
                                # unknown element type: forget contents but keep identity and freshness
                                cur.conc, cur.sym = None, None
                                cur.unknown = True
                            else:
                                env[name] = Opaque("havoc:" + name, fresh=True)
                        continue
                    raise Unsupported(f"loop-modified variable '{name}' needs a type (contract.locals)")
            else:
                env.pop(name, None)
                continue
            cur = env.get(name)
            if ty == OPQ:
                env[name] = Opaque("havoc:" + name, fresh=getattr(cur, "fresh", True))
                continue
            nv = ctx.fresh(ty, name)
            if isinstance(cur, Cell) and isinstance(nv, Cell):
                cur.conc, cur.sym = None, nv.sym       # identity (aliasing) preserved
                self.write_back(cur)
            else:
                if isinstance(nv, Cell):
                    nv.fresh = True
                env[name] = nv

    def cut_loop(self, s, spec, ordinal, guard, bound, bind, while_guard=None):
        ctx = self.ctx
        invs = spec.get("invariant", [])
        decl = dict(getattr(self.frames[-1].contract, "locals", {}))
        decl.update(spec.get("locals", {}))
        names, mutated, attrs, calls = assigned_names(s.body + ([] if isinstance(s, ast.While) else []))
        if isinstance(s, ast.For):
            tn, _, _, _ = assigned_names([ast.Assign(targets=[s.target], value=ast.Constant(value=0))])
            loop_targets = tn
        else:
            loop_targets = set()
        ghosts = spec.get("ghost", {})
        mode = ctx.choose(2, f"loop{ordinal}")
        nname = f"_n{ordinal}"
        # ---- initiation (checked on the exit-mode run only, to avoid duplicates)
        if mode == 0:
            ctx.ghost[nname] = 0
            ctx.ghost["_n"] = 0
            for g, init in spec.get("ghost_init", {}).items():
                self.ghost_assign(f"{g} = {init}")
            self.check_invariants(invs, "inv-init", ordinal)
        # ---- havoc (the allocation clock moves to an arbitrary later time)
        now_h = z3.Int(ctx.fresh_name("now"))
        ctx.assume(now_h >= ctx.now)
        ctx.now = now_h
        self.havoc_names((names | mutated) - loop_targets, decl)
        for t in loop_targets:
            if t in decl:
                self.havoc_names({t}, decl)
            else:
                self.env.pop(t, None)
        self.havoc_fields(attrs, calls, spec, reassigned=names | loop_targets)
        for g, gty in ghosts.items():
            ctx.ghost[g] = ctx.fresh(self.ptype(gty), g)
        n = z3.Int(ctx.fresh_name(nname))
        ctx.ghost[nname] = SV(INT, n)
        ctx.ghost["_n"] = SV(INT, n)
        ctx.assume(n >= 0)
        if bound is not None:
            ctx.assume(n <= bound)
        self.assume_invariants(invs)
        if mode == 0:
            if while_guard is not None:
                g = while_guard()
                ctx.pc.append(z3.Not(g))
            else:
                ctx.pc.append(z3.Not(guard(n)))
            self.exec_block(s.orelse)
            return
        # ---- arbitrary iteration
        # proof hint: the invariants instantiated at _n + 1 name the recursive-spec-function terms whose
        # defining equations are needed on early exits (return / break inside the body)
        ctx.ghost[nname] = SV(INT, n + 1)
        ctx.ghost["_n"] = SV(INT, n + 1)
        for inv in invs:
            try:
                ctx.hints.append(ctx.zbool(ctx.truth(self.eval_in_spec(inv))))
            except Unsupported:
                pass
        ctx.ghost[nname] = SV(INT, n)
        ctx.ghost["_n"] = SV(INT, n)
        if while_guard is not None:
            ctx.pc.append(while_guard())
            dec0 = None
            if spec.get("decreases"):
                dec0 = ctx.term(self.eval_in_spec(spec["decreases"]), INT)
        else:
            ctx.pc.append(guard(n))
            bind(n)
            dec0 = None
        try:
            self.exec_block(s.body)
        except _Continue:
            pass
        except _Break:
            return          # execution continues after the loop from the state at the break
        ctx.ghost[nname] = SV(INT, n + 1)
        ctx.ghost["_n"] = SV(INT, n + 1)
        self.check_invariants(invs, "inv-keep", ordinal)
        if dec0 is not None:
            dec1 = ctx.term(self.eval_in_spec(spec["decreases"]), INT)
            ctx.oblige("decreases", f"loop{ordinal}", z3.And(dec0 >= 0, dec1 < dec0))
        raise PathEnd()

    def eval_in_spec(self, text):
        ctx = self.ctx
        saved = ctx.spec
        ctx.spec = True
        try:
            return self.eval_spec_text(text)
        finally:
            ctx.spec = saved

    def check_invariants(self, invs, kind, ordinal):
        ctx = self.ctx
        for k, inv in enumerate(invs):
            g = ctx.zbool(ctx.truth(self.eval_in_spec(inv)))
            # each clause is proved separately but all are assumed together afterwards
            ob = ctx.oblige(kind, f"loop{ordinal}#{k}", g, info={"clause": inv})

    def assume_invariants(self, invs):
        ctx = self.ctx
        for inv in invs:
            ctx.assume(ctx.zbool(ctx.truth(self.eval_in_spec(inv))))

    def reachable_classes(self):
        """class models an object of which can be reached from the parameters / declared locals of the function under
        verification (through modelled fields, bases and subclasses); objects of other modelled classes cannot be written by it"""
        ctx = self.ctx
        if getattr(ctx, "_reach", None) is not None:
            return ctx._reach
        import re as _re
        ct = ctx.contract
        texts = list(ct.params.values()) + list((ct.locals or {}).values()) + [ct.returns or ""]
        if ct.class_name:
            texts.append(ct.class_name)
        seen, todo = set(), []
        def names(t):
            return [w for w in _re.findall(r"[A-Za-z_][A-Za-z_0-9]*", t or "") if w in C.CLASSES]
        for t in texts:
            todo.extend(names(t if isinstance(t, str) else ""))
        while todo:
            c = todo.pop()
            if c in seen:
                continue
            seen.add(c)
            if c not in C.CLASSES:          # a base named by a model that has no model of its own (a real class): nothing reachable through it
                continue
            for ft in C.CLASSES[c]["fields"].values():
                todo.extend(names(ft))
            todo.extend(C.CLASSES[c]["bases"])
            todo.extend(k for k, m in C.CLASSES.items() if c in m["bases"])
        ctx._reach = seen
        return seen

    def havoc_fields(self, attrs, calls, spec, reassigned=None):
        ctx = self.ctx
        keys = set()
        reach = self.reachable_classes()
        precise = []
        for a in attrs:
            if isinstance(a, tuple):
                recv = self.env.get(a[0])
                if isinstance(recv, SV) and recv.ty.name == "Ref" and a[0] not in (reassigned or ()) \
                        and self.field_info(recv.ty.args[0].name, a[1]) is not None:
                    precise.append((recv, a[1]))     # obj.f = ... on an object the loop does not rebind: only obj.f changes
                    continue
                a = a[1]
            for cname, model in C.CLASSES.items():
                if a in model["fields"] and cname in reach:
                    keys.add((cname, a))
        for call in calls:
            if isinstance(call.func, ast.Attribute):
                from .access import MODULES
                if isinstance(call.func.value, ast.Name) and call.func.value.id in MODULES:
                    continue        # a function of a library module (shutil.copy ...) is not a method of a modelled class
                for ct in C.CONTRACTS.values():
                    if ct.method_name == call.func.attr:
                        for m in ct.modifies:
                            if m.startswith("heap:"):
                                c, f = m[5:].split(".")
                                keys.add((c, f))
                            elif "." in m:
                                base, f = m.split(".", 1)
                                cls = ct.class_name if base == "self" else None
                                pt = ct.params.get(base)
                                if pt:
                                    ty = self.ptype(pt)
                                    if ty.name == "Opt":
                                        ty = ty.args[0]
                                    if ty.name == "Ref":
                                        cls = ty.args[0].name
                                if cls:
                                    keys.add((cls, f))
        keys = {(c, f) for c, f in keys if c in reach}
        for c, f in spec.get("havoc_fields", []):
            keys.add((c, f))
        for recv, f in precise:
            key, ty = self.field_info(recv.ty.args[0].name, f)
            if ty == OPQ or any(key == self.field_info(c, f2)[0] for c, f2 in keys if self.field_info(c, f2)):
                continue
            arr = self.heap_array(key, ty)
            ctx.heap[key] = z3.Store(arr, recv.t, z3.Const(ctx.fresh_name("hv_" + f), sort_of(ty)))
            ck = (key, recv.t.sexpr())
            if ck in ctx.field_cells:
                cell = ctx.field_cells[ck]
                cell.sym = SV(cell.home[2], z3.Select(ctx.heap[key], recv.t))
                cell.conc = None
                ctx.assume_type_inv(cell, cell.home[2])
        for cname, f in sorted(keys):
            info = self.field_info(cname, f)
            if info is None:
                continue
            key, ty = info
            if ty == OPQ:
                continue
            self.heap_array(key, ty)
            ctx.heap[key] = z3.Const(ctx.fresh_name("H_" + key), z3.ArraySort(z3.IntSort(), sort_of(ty)))
            for k2 in [k for k in ctx.field_cells if k[0] == key]:
                cell = ctx.field_cells[k2]
                _, ref, cty = cell.home
                cell.sym = SV(cty, z3.Select(ctx.heap[key], ref))
                cell.conc = None
                ctx.assume_type_inv(cell, cty)
