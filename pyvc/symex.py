"""The interpreter: one path per run, forks through the oracle, loops cut at invariants."""
import ast
import z3

from .vals import (SV, Char, Opaque, Cell, Closure, ClassRef, BoundMethod, Builtin, ExcValue, Unsupported, INT, BOOL,
                   REAL, STR, ASTR, NONE, OPQ, TOpt, TList, TTuple, TRef, TMap, TSet, sort_of, alen, aat, parse_type)
from .core import Ctx, Infeasible, PathEnd, PyRaise, Oracle
from .strenc import is_str
from . import contract as C


class _Return(Exception):
    def __init__(self, v):
        self.v = v


class _Break(Exception):
    pass


class _Continue(Exception):
    pass


BUILTIN_EXC = {
    "BaseException": None, "Exception": "BaseException", "ArithmeticError": "Exception", "LookupError": "Exception",
    "IndexError": "LookupError", "KeyError": "LookupError", "ValueError": "Exception", "TypeError": "Exception",
    "AttributeError": "Exception", "OSError": "Exception", "IOError": "OSError", "FileNotFoundError": "OSError",
    "PermissionError": "OSError", "FileExistsError": "OSError", "RuntimeError": "Exception", "RecursionError": "RuntimeError",
    "ZeroDivisionError": "ArithmeticError", "NotImplementedError": "RuntimeError", "StopIteration": "Exception",
    "UnicodeDecodeError": "ValueError", "AssertionError": "Exception", "NameError": "Exception",
}

MUTATORS = {"append", "extend", "add", "update", "pop", "remove", "sort", "insert", "clear", "discard", "reverse",
            "setdefault", "popitem"}


def exc_is_subclass(engine, cls, base):
    seen = 0
    while cls is not None and seen < 30:
        if cls == base:
            return True
        cls = engine.exc_parent(cls)
        seen += 1
    return False


class Frame:
    def __init__(self, env, module, cls_node, fn_name):
        self.env = env
        self.module = module
        self.cls_node = cls_node
        self.fn_name = fn_name
        self.loop_ord = [0]


class ExprMixin:
    def __init__(self, ctx, engine):
        self.ctx = ctx
        self.engine = engine
        self.frames = []

    @property
    def env(self):
        return self.frames[-1].env

    # ================================================================ expressions
    def eval(self, node):
        m = getattr(self, "e_" + type(node).__name__, None)
        if m is None:
            raise Unsupported(f"expression {type(node).__name__}")
        return m(node)

    def e_Constant(self, n):
        return n.value

    def e_Name(self, n):
        name = n.id
        env = self.env
        if name in env:
            return env[name]
        ctx = self.ctx
        if ctx.spec:
            if name == "result" and "result" in ctx.ghost:
                return ctx.ghost["result"]
            if name in ctx.ghost:
                return ctx.ghost[name]
            if name in self.engine.spec_funcs:
                return self.engine.spec_funcs[name]
        if name in ("True", "False", "None"):
            return {"True": True, "False": False, "None": None}[name]
        return self.engine.resolve_global(self, name)

    def e_Tuple(self, n):
        return tuple(self.eval(e) for e in n.elts)

    def e_List(self, n):
        items = []
        for e in n.elts:
            if isinstance(e, ast.Starred):
                raise Unsupported("starred list element")
            items.append(self.eval(e))
        return Cell("list", conc=items, fresh=True)

    def e_Set(self, n):
        items = [self.eval(e) for e in n.elts]
        return Cell("set", conc=set(self._hashable(i) for i in items), fresh=True)

    def e_Dict(self, n):
        d = {}
        for k, v in zip(n.keys, n.values):
            if k is None:
                raise Unsupported("dict unpacking")
            d[self._hashable(self.eval(k))] = self.eval(v)
        return Cell("dict", conc=d, fresh=True)

    def _hashable(self, v):
        if isinstance(v, (str, int, bool, float, tuple)) or v is None:
            return v
        raise Unsupported(f"symbolic key {v!r} in a concrete container")

    def e_JoinedStr(self, n):
        parts = []
        for p in n.values:
            if isinstance(p, ast.Constant):
                parts.append(p.value)
            else:
                v = self.eval(p.value)
                plain = not p.format_spec and p.conversion == -1
                if isinstance(v, str) and plain:
                    parts.append(v)
                elif isinstance(v, int) and not isinstance(v, bool) and plain:
                    parts.append(str(v))
                elif isinstance(v, SV) and v.ty == STR and plain:
                    parts.append(v)
                elif self.ctx.enc == "native":
                    # text of an unmodelled value: some string
                    parts.append(SV(STR, z3.Const(self.ctx.fresh_name("fmt"), z3.StringSort())))
                else:
                    return Opaque("fstring")
        if all(isinstance(p, str) for p in parts):
            return "".join(parts)
        res = ""
        for p in parts:
            res = self.ctx.strs.concat(res, p) if not (isinstance(res, str) and res == "") else p
        return res

    def e_Lambda(self, n):
        return Closure(n, self.env)

    def e_IfExp(self, n):
        tv = self.eval(n.test)
        if isinstance(tv, Opaque) or getattr(tv, "unknown", False):
            return self.eval(n.body) if self.ctx.decide_opaque("ifexp") else self.eval(n.orelse)
        t = self.ctx.truth(tv)
        if isinstance(t, bool):
            return self.eval(n.body if t else n.orelse)
        if self.ctx.spec or self.ctx.guards:
            self.ctx.guards.append(t)
            try:
                a = self.eval(n.body)
            finally:
                self.ctx.guards.pop()
            self.ctx.guards.append(z3.Not(t))
            try:
                b = self.eval(n.orelse)
            finally:
                self.ctx.guards.pop()
            return self.merge(t, a, b)
        if self.ctx.decide(t, "ifexp"):
            return self.eval(n.body)
        return self.eval(n.orelse)

    def merge(self, cond, a, b):
        ctx = self.ctx
        if a is b:
            return a
        ta, tb = ctx.type_of(a), ctx.type_of(b)
        if a is None and b is None:
            return None
        if isinstance(a, tuple) and isinstance(b, tuple) and len(a) == len(b):
            return tuple(self.merge(cond, x, y) for x, y in zip(a, b))
        if a is None and tb is not None:
            ty = tb if tb.name == "Opt" else TOpt(tb)
            return SV(ty, z3.If(cond, ctx.term(a, ty), ctx.term(b, ty)))
        if b is None and ta is not None:
            ty = ta if ta.name == "Opt" else TOpt(ta)
            return SV(ty, z3.If(cond, ctx.term(a, ty), ctx.term(b, ty)))
        if isinstance(a, Cell) and isinstance(b, Cell) and a.kind == b.kind and (ta is None) != (tb is None):
            # an empty literal container takes the type of the other branch
            if ta is None and a.sym is None and not a.conc:
                ta = tb
            elif tb is None and b.sym is None and not b.conc:
                tb = ta
        if ta is not None and tb is not None:
            if ta != tb:
                if ta.name == "Opt" and ta.args[0] == tb:
                    tb = ta
                elif tb.name == "Opt" and tb.args[0] == ta:
                    ta = tb
                elif {ta, tb} <= {INT, BOOL}:
                    ta = tb = INT
                elif {ta, tb} <= {INT, REAL}:
                    ta = tb = REAL
                elif {ta, tb} == {STR, ASTR}:
                    ta = tb = ASTR if ctx.enc == "array" else STR
                else:
                    raise Unsupported(f"cannot merge {ta} and {tb}")
            if ta.name in ("List", "Map", "Set"):
                v = ctx.wrap(z3.If(cond, ctx.term(a, ta), ctx.term(b, ta)), ta)
                v.fresh = getattr(a, "fresh", True) and getattr(b, "fresh", True)
                return v
            return ctx.wrap(z3.If(cond, ctx.term(a, ta), ctx.term(b, ta)), ta)
        raise Unsupported(f"cannot merge {a!r} and {b!r}")

    def e_BoolOp(self, n):
        ctx = self.ctx
        is_and = isinstance(n.op, ast.And)
        vals = []
        guards_pushed = 0
        try:
            result = None
            for k, sub in enumerate(n.values):
                v = self.eval(sub)
                if isinstance(v, Opaque) or (isinstance(v, Cell) and getattr(v, "unknown", False)):
                    # unknown operand: evaluate the rest for their effects and obligations, result unknown
                    for rest in n.values[k + 1:]:
                        self.eval_tolerant(rest)
                    return Opaque("boolop", fresh=True)
                last = k == len(n.values) - 1
                if last:
                    vals.append((v, None))
                    break
                t = ctx.truth(v)
                if isinstance(t, bool):
                    if t != is_and:      # short circuit decides here
                        vals.append((v, None))
                        break
                    continue             # operand skipped: and True / or False
                vals.append((v, t))
                ctx.guards.append(t if is_and else z3.Not(t))
                guards_pushed += 1
        finally:
            for _ in range(guards_pushed):
                ctx.guards.pop()
        if all(isinstance(v, bool) or (isinstance(v, SV) and v.ty == BOOL) for v, _ in vals):
            terms = [ctx.term(v, BOOL) for v, _ in vals]
            if len(terms) == 1:
                return vals[0][0]
            return SV(BOOL, z3.And(*terms) if is_and else z3.Or(*terms))
        # fold from the right: a and b == b if truth(a) else a
        res = vals[-1][0]
        for v, t in reversed(vals[:-1]):
            if is_and:
                res = self._merge_bool(t, res, v)
            else:
                res = self._merge_bool(t, v, res)
        return res

    def _merge_bool(self, t, a, b):
        """ite(t, a, b) where a/b may be non-bool operands"""
        ctx = self.ctx
        ta, tb = ctx.type_of(a), ctx.type_of(b)
        if ta == BOOL and tb == BOOL:
            return SV(BOOL, z3.If(t, ctx.term(a, BOOL), ctx.term(b, BOOL)))
        try:
            return self.merge(t, a, b)
        except Unsupported:
            # fall back to the truth value only (correct where the result is only tested)
            x, y = ctx.truth(a), ctx.truth(b)
            return SV(BOOL, z3.If(t, ctx.zbool(x), ctx.zbool(y)))

    def eval_tolerant(self, node):
        try:
            return self.eval(node)
        except Unsupported:
            return Opaque("unsupported", fresh=True)

    def e_UnaryOp(self, n):
        v = self.eval(n.operand)
        ctx = self.ctx
        if isinstance(v, Opaque) or getattr(v, "unknown", False):
            return Opaque("unary", fresh=True)
        if isinstance(n.op, ast.Not):
            t = ctx.truth(v)
            return (not t) if isinstance(t, bool) else SV(BOOL, z3.Not(t))
        if isinstance(n.op, ast.USub):
            if isinstance(v, (int, float)):
                return -v
            ty = ctx.type_of(v)
            if ty == REAL:
                return SV(REAL, -ctx.term(v, REAL))
            return SV(INT, -ctx.term(v, INT))
        if isinstance(n.op, ast.UAdd):
            return v
        raise Unsupported("unary op")

    def e_BinOp(self, n):
        a = self.eval(n.left)
        b = self.eval(n.right)
        return self.binop(n.op, a, b)

    def binop(self, op, a, b):
        ctx = self.ctx
        if isinstance(a, Opaque) or isinstance(b, Opaque):
            return Opaque("binop", fresh=True)
        if isinstance(a, (int, float)) and isinstance(b, (int, float)) and not isinstance(op, (ast.Div, ast.FloorDiv, ast.Mod)):
            import operator
            f = {ast.Add: operator.add, ast.Sub: operator.sub, ast.Mult: operator.mul}.get(type(op))
            if f:
                return f(a, b)
        if isinstance(op, ast.Mult):
            # 'c' * n (or n * 'c') for a one-character literal c: the text of max(n, 0) characters c (native encoding)
            for x, y in ((a, b), (b, a)):
                if isinstance(x, str) and len(x) == 0 and (isinstance(y, int) or (isinstance(y, SV) and y.ty == INT)):
                    return ""
                if isinstance(x, str) and len(x) == 1 and (isinstance(y, int) or (isinstance(y, SV) and y.ty == INT)) \
                        and not isinstance(y, bool):
                    if isinstance(y, int):
                        return x * y
                    n = y.t
                    r = z3.Const(ctx.fresh_name("rep"), z3.StringSort())
                    k = z3.Int(ctx.fresh_name("k"))
                    ctx.assume(z3.Length(r) == z3.If(n > 0, n, 0))
                    ctx.assume(z3.ForAll([k], z3.Implies(z3.And(0 <= k, k < z3.Length(r)), z3.SubString(r, k, 1) == z3.StringVal(x))))
                    return SV(STR, r)
        if isinstance(op, ast.Add):
            for x, y in ((a, b), (b, a)):
                if is_str(y) and isinstance(x, SV) and x.ty.name == "Opt" and x.ty.args[0] in (STR, ASTR):
                    # None + str raises TypeError
                    if x is a:
                        a = ctx.unopt(a, "TypeError", "None + str")
                    else:
                        b = ctx.unopt(b, "TypeError", "str + None")
            if is_str(a) and is_str(b):
                return ctx.strs.concat(a, b)
            if isinstance(a, Cell) and isinstance(b, Cell) and a.kind == b.kind == "list":
                return self.list_concat(a, b)
            if isinstance(a, tuple) and isinstance(b, tuple):
                return a + b
        if isinstance(op, ast.Mod) and isinstance(a, str):
            return Opaque("strformat")
        if isinstance(op, ast.BitOr) and isinstance(a, Cell) and a.kind == "set":
            return self.set_union(a, b)
        if isinstance(op, (ast.Sub, ast.BitAnd)) and isinstance(a, Cell) and a.kind == "set" and isinstance(b, Cell) and b.kind == "set":
            if a.sym is None and b.sym is None:
                return Cell("set", conc=(set(a.conc) - set(b.conc)) if isinstance(op, ast.Sub) else (set(a.conc) & set(b.conc)), fresh=True)
            ty = ctx.type_of(a) or ctx.type_of(b)
            if ty is None:
                raise Unsupported("set difference untyped")
            x, y = ctx.term(a, ty), ctx.term(b, ty)
            k = z3.Const(ctx.fresh_name("k"), sort_of(ty.args[0]))
            r = z3.Const(ctx.fresh_name("sd"), sort_of(ty))
            body = z3.And(z3.Select(x, k), z3.Not(z3.Select(y, k))) if isinstance(op, ast.Sub) else z3.And(z3.Select(x, k), z3.Select(y, k))
            ctx.assume(z3.ForAll([k], z3.Select(r, k) == body))
            return Cell("set", sym=SV(ty, r), fresh=True)
        ta, tb = ctx.type_of(a), ctx.type_of(b)
        for v, t in ((a, ta), (b, tb)):
            if t is not None and t.name == "Opt":
                pass
        real = REAL in (ta, tb) or (ta and ta.name == "Opt" and ta.args[0] == REAL) or (tb and tb.name == "Opt" and tb.args[0] == REAL) \
            or isinstance(op, ast.Div)
        T = REAL if real else INT
        if a is None or b is None or (ta and ta.name == "Opt") or (tb and tb.name == "Opt"):
            a = ctx.unopt(a, "TypeError", "arith-on-None")
            b = ctx.unopt(b, "TypeError", "arith-on-None")
        if is_str(a) or is_str(b) or isinstance(a, (Cell, tuple)) or isinstance(b, (Cell, tuple)):
            raise Unsupported(f"binop {type(op).__name__} on {a!r},{b!r}")
        x, y = ctx.term(a, T), ctx.term(b, T)
        if isinstance(op, ast.Add):
            return SV(T, x + y)
        if isinstance(op, ast.Sub):
            return SV(T, x - y)
        if isinstance(op, ast.Mult):
            return SV(T, x * y)
        if isinstance(op, ast.Div):
            ctx.may_raise(y == 0, "ZeroDivisionError", "div")
            return SV(REAL, x / y)
        if isinstance(op, ast.FloorDiv) and T == INT:
            ctx.may_raise(y == 0, "ZeroDivisionError", "floordiv")
            # python floor division; z3 div is euclidean: floor for y>0, and floor(x/y)=floor(-x/-y)
            return SV(INT, z3.If(y > 0, x / y, (-x) / (-y)))
        if isinstance(op, ast.Mod) and T == INT:
            ctx.may_raise(y == 0, "ZeroDivisionError", "mod")
            q = z3.If(y > 0, x / y, (-x) / (-y))
            return SV(INT, x - y * q)
        raise Unsupported(f"binop {type(op).__name__}")

    def list_concat(self, a, b):
        ctx = self.ctx
        if a.sym is None and b.sym is None:
            return Cell("list", conc=list(a.conc) + list(b.conc), fresh=True, elem=a.elem or b.elem)
        ty = ctx.type_of(a) or ctx.type_of(b)
        if ty is None:
            raise Unsupported("list concat of untyped lists")
        out = Cell("list", sym=SV(ty, ctx.term(a, ty)), fresh=True)
        out.temp = True          # (a new list being built by this expression: extending it is no mutation of anything that existed)
        try:
            self.list_extend(out, b)
        finally:
            out.temp = False
        return out

    def set_union(self, a, b):
        if a.sym is None and isinstance(b, Cell) and b.sym is None:
            return Cell("set", conc=set(a.conc) | set(b.conc), fresh=True)
        ctx = self.ctx
        ty = ctx.type_of(a) or ctx.type_of(b)
        if ty is None:
            raise Unsupported("set union untyped")
        x, y = ctx.term(a, ty), ctx.term(b, ty)
        k = z3.Const(ctx.fresh_name("k"), sort_of(ty.args[0]))
        r = z3.Const(ctx.fresh_name("un"), sort_of(ty))
        ctx.assume(z3.ForAll([k], z3.Select(r, k) == z3.Or(z3.Select(x, k), z3.Select(y, k))))
        return Cell("set", sym=SV(ty, r), fresh=True)

    # ---- comparisons
    def e_Compare(self, n):
        left = self.eval(n.left)
        res = None
        ctx = self.ctx
        pushed = 0
        try:
            for op, rn in zip(n.ops, n.comparators):
                right = self.eval(rn)
                if isinstance(left, Opaque) or isinstance(right, Opaque) or getattr(left, "unknown", False) \
                        or getattr(right, "unknown", False):
                    if (left is None or right is None) and isinstance(op, (ast.Is, ast.IsNot)):
                        pass        # `x is None` on an unknown value: unknown as well
                    return Opaque("compare", fresh=True)
                r = self.compare(op, left, right)
                if res is None:
                    res = r
                else:
                    res = self._and(res, r)
                left = right
                if len(n.ops) > 1 and not isinstance(r, bool):
                    ctx.guards.append(r)
                    pushed += 1
        finally:
            for _ in range(pushed):
                ctx.guards.pop()
        return res if isinstance(res, bool) else SV(BOOL, res)

    def _and(self, a, b):
        if isinstance(a, bool):
            return b if a else False
        if isinstance(b, bool):
            return a if b else False
        return z3.And(a, b)

    def _not(self, a):
        return (not a) if isinstance(a, bool) else z3.Not(a)

    def compare(self, op, a, b):
        ctx = self.ctx
        if isinstance(op, (ast.Eq, ast.NotEq)):
            # object == str: classes whose __eq__ compares str(self) (HedGroup/HedString/HedTag) - via the __str__ view
            for x, y in ((a, b), (b, a)):
                if isinstance(x, SV) and x.ty.name == "Ref" and is_str(y) and self.field_info(x.ty.args[0].name, "__str__"):
                    r = ctx.equal(self.field_read(x, "__str__"), y)
                    return r if isinstance(op, ast.Eq) else self._not(r)
        if isinstance(op, (ast.Eq, ast.NotEq)) and isinstance(a, SV) and isinstance(b, SV) and a.ty.name == "Ref" \
                and b.ty.name == "Ref" and C.CLASSES.get(a.ty.args[0].name, {}).get("structural_eq"):
            # classes with a structural __eq__ (HedGroup): == is an uninterpreted reflexive relation, not identity
            f = z3.Function("struct_eq", z3.IntSort(), z3.IntSort(), z3.BoolSort())
            ctx.assume(z3.Implies(a.t == b.t, f(a.t, b.t)))
            r = f(a.t, b.t)
            return r if isinstance(op, ast.Eq) else z3.Not(r)
        if isinstance(op, ast.Eq):
            return ctx.equal(a, b)
        if isinstance(op, ast.NotEq):
            return self._not(ctx.equal(a, b))
        if isinstance(op, (ast.Is, ast.IsNot)):
            if a is None or b is None:
                r = ctx.is_none(b if a is None else a)
            elif isinstance(a, bool) or isinstance(b, bool):
                r = ctx.equal(a, b)
            elif is_str(a) and is_str(b):
                # 'is' on strings: identity; CPython interns 1-character latin-1 strings, so for a 1-char
                # literal operand identity coincides with equality (assumption recorded by the engine)
                lit = a if isinstance(a, str) else b if isinstance(b, str) else None
                if lit is not None and len(lit) == 1 and ord(lit) < 256:
                    self.engine.note_assumption("`is` between a 1-character latin-1 string and a character obtained by "
                                                "indexing/iteration behaves as `==` (CPython interning)")
                    r = ctx.equal(a, b)
                else:
                    raise Unsupported("`is` on strings")
            elif isinstance(a, SV) and isinstance(b, SV) and a.ty.name == "Ref" and b.ty.name == "Ref":
                r = a.t == b.t
            elif isinstance(a, Cell) and isinstance(b, Cell):
                r = a is b
            elif isinstance(a, SV) and isinstance(b, SV) and {a.ty.name, b.ty.name} == {"Ref", "Opt"} \
                    and (a.ty.args[0] if a.ty.name == "Opt" else b.ty.args[0]).name == "Ref":
                o, x = (a, b) if a.ty.name == "Opt" else (b, a)
                so = sort_of(o.ty)
                r = z3.And(z3.Not(so.is_none(o.t)), so.val(o.t) == x.t)
            elif isinstance(a, SV) and isinstance(b, SV) and a.ty.name == "Opt" and b.ty == a.ty and a.ty.args[0].name == "Ref":
                r = a.t == b.t
            else:
                raise Unsupported(f"`is` on {a!r}, {b!r}")
            return r if isinstance(op, ast.Is) else self._not(r)
        if isinstance(op, (ast.In, ast.NotIn)):
            r = self.contains(b, a)
            return r if isinstance(op, ast.In) else self._not(r)
        # ordering
        if isinstance(a, Opaque) or isinstance(b, Opaque):
            raise Unsupported("ordering on opaque")
        if isinstance(a, (int, float)) and isinstance(b, (int, float)):
            import operator
            return {ast.Lt: operator.lt, ast.LtE: operator.le, ast.Gt: operator.gt, ast.GtE: operator.ge}[type(op)](a, b)
        if is_str(a) or is_str(b):
            if isinstance(a, str) and isinstance(b, str):
                import operator
                return {ast.Lt: operator.lt, ast.LtE: operator.le, ast.Gt: operator.gt, ast.GtE: operator.ge}[type(op)](a, b)
            raise Unsupported("string ordering")
        ta, tb = ctx.type_of(a), ctx.type_of(b)
        if a is None or b is None or (ta and ta.name == "Opt") or (tb and tb.name == "Opt"):
            a = ctx.unopt(a, "TypeError", "order-on-None")
            b = ctx.unopt(b, "TypeError", "order-on-None")
            ta, tb = ctx.type_of(a), ctx.type_of(b)
        T = REAL if REAL in (ta, tb) else INT
        x, y = ctx.term(a, T), ctx.term(b, T)
        if isinstance(op, ast.Lt):
            return x < y
        if isinstance(op, ast.LtE):
            return x <= y
        if isinstance(op, ast.Gt):
            return x > y
        if isinstance(op, ast.GtE):
            return x >= y
        raise Unsupported("compare op")

    def contains(self, container, item):
        """item in container -> python bool or z3 Bool"""
        ctx = self.ctx
        if isinstance(container, Opaque) or isinstance(item, Opaque):
            raise Unsupported("membership on opaque")
        if is_str(container):
            if not is_str(item):
                item = ctx.unopt(item, "TypeError", "in-str")
            return ctx.strs.contains(item, container)
        if isinstance(container, (tuple, list, set, frozenset)):
            parts = [(self.compare(ast.Eq(), item, c) if isinstance(item, SV) and item.ty.name == "Ref" and isinstance(c, SV)
                      and c.ty.name == "Ref" else ctx.equal(item, c)) for c in container]
            if all(isinstance(p, bool) for p in parts):
                return any(parts)
            return z3.Or(*[ctx.zbool(p) for p in parts])
        if isinstance(container, SV) and container.ty.name in ("List", "Set", "Map"):
            container = ctx.wrap(container.t, container.ty)
        if isinstance(container, SV) and container.ty.name == "Ref":
            # an object whose class defines __contains__ under contract (or as a model): `x in obj` is that call
            cls0 = container.ty.args[0].name
            from . import contract as _C
            hit = self.engine.method_contract(self, cls0, "__contains__") or _C.EXTERNS.get(f"{cls0}.__contains__")
            if hit is not None:
                r = self.call_method(container, "__contains__", [item], {}, None)
                return ctx.zbool(ctx.truth(r)) if not isinstance(r, bool) else r
        if isinstance(container, SV) and container.ty.name == "Ref" and isinstance(item, str):
            # dict-like object (an issue): optional keys are modelled by has_<key> fields
            cls = container.ty.args[0].name
            if self.field_info(cls, "has_" + item) is not None:
                return ctx.term(self.field_read(container, "has_" + item), BOOL)
            if self.field_info(cls, item) is not None:
                return True
            raise Unsupported(f"membership of key {item!r} in {cls} not modelled")
        if isinstance(container, Cell):
            if container.sym is None:
                if container.kind == "dict":
                    return self.contains(tuple(container.conc.keys()), item)
                return self.contains(tuple(container.conc), item)
            ty = container.sym.ty
            if container.kind == "list" and ty.args[0].name == "Ref" and isinstance(item, SV) and item.ty.name == "Ref" \
                    and C.CLASSES.get(ty.args[0].args[0].name, {}).get("structural_eq"):
                # python's `x in L` is any(x is e or x == e): for a class whose __eq__ is structural that is NOT identity membership
                s = sort_of(ty)
                k = z3.Int(ctx.fresh_name("k"))
                e = ctx.wrap(z3.Select(s.data(container.sym.t), k), ty.args[0])
                return z3.Exists([k], z3.And(0 <= k, k < s.len(container.sym.t), ctx.zbool(self.compare(ast.Eq(), item, e))))
            if container.kind == "list" and ty.args[0].name in ("Ref", "Int", "Str") \
                    and ctx.type_of(item) is not None and ctx.type_of(item).name != "Opt":
                from .core import mem_fn
                return mem_fn(ty)(container.sym.t, ctx.term(item, ty.args[0]))      # set view of the list
            if container.kind == "list":
                s = sort_of(ty)
                k = z3.Int(ctx.fresh_name("k"))
                e = ctx.wrap(z3.Select(s.data(container.sym.t), k), ty.args[0])
                return z3.Exists([k], z3.And(0 <= k, k < s.len(container.sym.t), ctx.zbool(ctx.equal(e, item))))
            if container.kind == "set":
                return z3.Select(container.sym.t, ctx.term(item, ty.args[0]))
            if container.kind == "dict":
                return z3.Select(sort_of(ty).dom(container.sym.t), ctx.term(item, ty.args[0]))
        raise Unsupported(f"membership in {container!r}")
