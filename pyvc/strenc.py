"""String operations in the two encodings.

array  : uninterpreted sort AStr with alen/aat (code points); every operation introduces a fresh constant
         plus *defining axioms* that are added to the path assumptions (ground or array-property fragment).
native : SMT-LIB strings.
Characters coming from iteration / indexing in array mode are Char(code) values.
"""
import z3
from .vals import SV, Char, Opaque, Unsupported, INT, BOOL, STR, ASTR, alen, aat, ASTR_SORT

WS = [c for c in range(0x110000) if chr(c).isspace()]


def is_str(v):
    return isinstance(v, (str, Char)) or (isinstance(v, SV) and v.ty in (STR, ASTR))


class StrOps:
    def __init__(self, ctx):
        self.ctx = ctx
        self._lits = {}

    # ---- array encoding helpers ---------------------------------------
    def fresh_astr(self, hint="s"):
        u = z3.Const(self.ctx.fresh_name(hint), ASTR_SORT)
        self.ctx.assume(alen(u) >= 0)
        return u

    def alit(self, s):
        if s in self._lits:
            return self._lits[s]
        u = z3.Const(self.ctx.fresh_name("lit"), ASTR_SORT)
        self.ctx.assume(alen(u) == len(s))
        for k, ch in enumerate(s):
            self.ctx.assume(aat(u, k) == ord(ch))
        self._lits[s] = u
        return u

    def to_astr(self, v):
        if isinstance(v, str):
            return self.alit(v)
        if isinstance(v, Char):
            u = self.fresh_astr("ch")
            self.ctx.assume(alen(u) == 1)
            self.ctx.assume(aat(u, 0) == v.c)
            return u
        if isinstance(v, SV) and v.ty == ASTR:
            return v.t
        if isinstance(v, SV) and v.ty.name == "Opt" and v.ty.args[0] == ASTR:
            return self.to_astr(self.ctx.unopt(v, "TypeError", "None-as-str"))
        raise Unsupported(f"cannot view {v!r} as array string")

    def to_native(self, v):
        if isinstance(v, str):
            return z3.StringVal(v)
        if isinstance(v, SV) and v.ty == STR:
            return v.t
        if isinstance(v, Char):
            return z3.StrFromCode(v.c)
        if isinstance(v, SV) and v.ty.name == "Opt" and v.ty.args[0] == STR:
            return self.to_native(self.ctx.unopt(v, "TypeError", "None-as-str"))
        raise Unsupported(f"cannot view {v!r} as native string")

    def mode_of(self, *vs):
        for v in vs:
            if isinstance(v, Char) or (isinstance(v, SV) and v.ty == ASTR):
                return "array"
        for v in vs:
            if isinstance(v, SV) and v.ty == STR:
                return "native"
        return "concrete"

    # ---- generic ops ----------------------------------------------------
    def length(self, v):
        if isinstance(v, str):
            return len(v)
        if isinstance(v, Char):
            return 1
        if v.ty == ASTR:
            return SV(INT, alen(v.t))
        return SV(INT, z3.Length(v.t))

    def code_at(self, v, i):
        """code point (z3 Int) of v[i], i a z3 Int already normalised to 0<=i<len"""
        if isinstance(v, str):
            # concrete string, symbolic index: build ite chain
            t = z3.IntVal(-1)
            for k in reversed(range(len(v))):
                t = z3.If(i == k, z3.IntVal(ord(v[k])), t)
            return t
        if isinstance(v, Char):
            return v.c
        if v.ty == ASTR:
            return aat(v.t, i)
        return z3.StrToCode(z3.SubString(v.t, i, 1))

    def index(self, v, i):
        """v[i] with i a z3 Int normalised; returns a 1-char string value"""
        m = self.mode_of(v)
        if m == "native":
            return SV(STR, z3.SubString(v.t, i, 1))
        if self.ctx.enc == "native" and isinstance(v, str):
            return SV(STR, z3.SubString(z3.StringVal(v), i, 1))
        return Char(self.code_at(v, i))

    def slice(self, v, a, b):
        """v[a:b] with a, b z3 Ints already clamped to 0<=a, b<=len (b may be < a -> empty)."""
        m = self.mode_of(v)
        if m == "native" or (m == "concrete" and self.ctx.enc == "native"):
            t = self.to_native(v)
            ln = z3.If(b > a, b - a, z3.IntVal(0))
            return SV(STR, z3.SubString(t, a, ln))
        s = self.to_astr(v)
        u = self.fresh_astr("sl")
        k = z3.Int(self.ctx.fresh_name("k"))
        ln = z3.If(b > a, b - a, z3.IntVal(0))
        self.ctx.assume(alen(u) == ln)
        self.ctx.assume(z3.ForAll([k], z3.Implies(z3.And(0 <= k, k < ln), aat(u, k) == aat(s, a + k)),
                                  patterns=[aat(u, k)]))
        return SV(ASTR, u)

    def concat(self, a, b):
        if isinstance(a, str) and isinstance(b, str):
            return a + b
        m = self.mode_of(a, b)
        if m == "native" or (m == "concrete"):
            return SV(STR, z3.Concat(self.to_native(a), self.to_native(b)))
        s, t = self.to_astr(a), self.to_astr(b)
        u = self.fresh_astr("cat")
        k = z3.Int(self.ctx.fresh_name("k"))
        self.ctx.assume(alen(u) == alen(s) + alen(t))
        self.ctx.assume(z3.ForAll([k], z3.Implies(z3.And(0 <= k, k < alen(s)), aat(u, k) == aat(s, k)),
                                  patterns=[aat(u, k)]))
        if isinstance(b, Char):
            self.ctx.assume(aat(u, alen(s)) == b.c)
        else:
            k2 = z3.Int(self.ctx.fresh_name("k"))
            self.ctx.assume(z3.ForAll([k2], z3.Implies(z3.And(0 <= k2, k2 < alen(t)), aat(u, alen(s) + k2) == aat(t, k2)),
                                      patterns=[aat(t, k2)]))
        return SV(ASTR, u)

    def eq(self, a, b):
        """z3 Bool (or python bool) for a == b"""
        if isinstance(a, str) and isinstance(b, str):
            return a == b
        if isinstance(a, Char) and isinstance(b, Char):
            return a.c == b.c
        if isinstance(a, Char) and isinstance(b, str):
            return a.c == ord(b) if len(b) == 1 else False
        if isinstance(b, Char) and isinstance(a, str):
            return self.eq(b, a)
        m = self.mode_of(a, b)
        if m == "native":
            return self.to_native(a) == self.to_native(b)
        # array: expand extensionally
        if isinstance(b, Char) or isinstance(a, Char):
            ch, s = (b, a) if isinstance(b, Char) else (a, b)
            s = self.to_astr(s)
            return z3.And(alen(s) == 1, aat(s, 0) == ch.c)
        if isinstance(b, str) or isinstance(a, str):
            lit, s = (b, a) if isinstance(b, str) else (a, b)
            s = self.to_astr(s)
            return z3.And(alen(s) == len(lit), *[aat(s, k) == ord(c) for k, c in enumerate(lit)])
        s, t = self.to_astr(a), self.to_astr(b)
        k = z3.Int(self.ctx.fresh_name("k"))
        return z3.And(alen(s) == alen(t),
                      z3.ForAll([k], z3.Implies(z3.And(0 <= k, k < alen(s)), aat(s, k) == aat(t, k))))

    def contains(self, needle, hay):
        """needle in hay"""
        if isinstance(needle, str) and isinstance(hay, str):
            return needle in hay
        if isinstance(needle, Char):
            if isinstance(hay, str):
                return z3.Or(*[needle.c == ord(c) for c in hay]) if hay else False
            if isinstance(hay, Char):
                return needle.c == hay.c
            if hay.ty == ASTR:
                k = z3.Int(self.ctx.fresh_name("k"))
                return z3.Exists([k], z3.And(0 <= k, k < alen(hay.t), aat(hay.t, k) == needle.c))
        m = self.mode_of(needle, hay)
        if m == "native" or m == "concrete":
            return z3.Contains(self.to_native(hay), self.to_native(needle))
        if isinstance(needle, str) and len(needle) == 1 and isinstance(hay, SV) and hay.ty == ASTR:
            k = z3.Int(self.ctx.fresh_name("k"))
            return z3.Exists([k], z3.And(0 <= k, k < alen(hay.t), aat(hay.t, k) == ord(needle)))
        raise Unsupported("substring test in array encoding")

    def is_space_code(self, c):
        return z3.Or(*[c == w for w in WS])

    def char_pred(self, name, c):
        """character predicate on a code point; exact for isspace, ASCII-exact + uninterpreted elsewhere."""
        if name == "isspace":
            return self.is_space_code(c)
        table = {"isalpha": str.isalpha, "isalnum": str.isalnum, "isdigit": str.isdigit, "isupper": str.isupper,
                 "islower": str.islower, "isprintable": str.isprintable, "isnumeric": str.isnumeric}
        if name not in table:
            raise Unsupported(f"char predicate {name}")
        f = z3.Function("u_" + name, z3.IntSort(), z3.BoolSort())
        ascii_true = [k for k in range(128) if table[name](chr(k))]
        asc = z3.Or(*[c == k for k in ascii_true]) if ascii_true else z3.BoolVal(False)
        return z3.If(z3.And(c >= 0, c < 128), asc, f(c))

    def strip(self, v):
        if isinstance(v, str):
            return v.strip()
        if isinstance(v, Char):
            # '' if whitespace else the char: represent as array string
            u = self.fresh_astr("st")
            ws = self.is_space_code(v.c)
            self.ctx.assume(alen(u) == z3.If(ws, 0, 1))
            self.ctx.assume(z3.Implies(z3.Not(ws), aat(u, 0) == v.c))
            return SV(ASTR, u)
        if v.ty == ASTR:
            s = v.t
            u = self.fresh_astr("st")
            a = z3.Int(self.ctx.fresh_name("sa"))
            b = z3.Int(self.ctx.fresh_name("sb"))
            k = z3.Int(self.ctx.fresh_name("k"))
            A = self.ctx.assume
            A(z3.And(0 <= a, a <= b, b <= alen(s)))
            A(z3.ForAll([k], z3.Implies(z3.And(0 <= k, k < a), self.is_space_code(aat(s, k)))))
            A(z3.ForAll([k], z3.Implies(z3.And(b <= k, k < alen(s)), self.is_space_code(aat(s, k)))))
            A(z3.Implies(a < b, z3.And(z3.Not(self.is_space_code(aat(s, a))), z3.Not(self.is_space_code(aat(s, b - 1))))))
            A(alen(u) == b - a)
            A(z3.ForAll([k], z3.Implies(z3.And(0 <= k, k < b - a), aat(u, k) == aat(s, a + k)), patterns=[aat(u, k)]))
            return SV(ASTR, u)
        raise Unsupported("strip() on native symbolic string")

    def truth(self, v):
        if isinstance(v, str):
            return bool(v)
        if isinstance(v, Char):
            return True
        if v.ty == ASTR:
            return alen(v.t) > 0
        return z3.Length(v.t) > 0
