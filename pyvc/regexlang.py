"""Language of a python `re` pattern as a z3 regular expression (for data obligations: a pattern stored in a data file of the repository
against the grammar a property states).

L(p) = { s | re.match(p, s) is not None }.  Supported subset (anything else raises Unsupported -> the obligation is undecided):
literals, '.', character sets with ranges / negation / the categories \\d \\s \\w, groups (capturing or not - captures do not change the
language), alternation, greedy and lazy repetition (the same language), '^' as the first item, '$' as the last item of the pattern
(python's '$' also matches before one trailing newline: modelled).  A pattern without the final '$' accepts every extension of a match.
Categories follow the running python's unicodedata (\\d = category Nd ...); both sides of an equivalence use the same table.
"""
import re
import sys
import z3
from .vals import Unsupported

try:
    import re._parser as _sp
    import re._constants as _sc
except ImportError:      # python < 3.11
    import sre_parse as _sp
    import sre_constants as _sc

_RS = z3.ReSort(z3.StringSort())
_MAXCH = 0x2FFFF          # z3's character range


def _allchar():
    return z3.AllChar(_RS)


def _ranges(pred):
    out, start = [], None
    for cp in range(_MAXCH + 1):
        ok = pred(chr(cp))
        if ok and start is None:
            start = cp
        elif not ok and start is not None:
            out.append((start, cp - 1))
            start = None
    if start is not None:
        out.append((start, _MAXCH))
    return out


_cat_cache = {}


def _category(cat):
    neg = False
    name = str(cat)
    base = {"CATEGORY_DIGIT": "d", "CATEGORY_NOT_DIGIT": "D", "CATEGORY_SPACE": "s", "CATEGORY_NOT_SPACE": "S",
            "CATEGORY_WORD": "w", "CATEGORY_NOT_WORD": "W"}.get(name)
    if base is None:
        raise Unsupported(f"regex category {name}")
    if base.isupper():
        neg, base = True, base.lower()
    if base not in _cat_cache:
        rx = re.compile("\\" + base)
        rs = _ranges(lambda c: rx.match(c) is not None)
        _cat_cache[base] = z3.Union(*[_rng(a, b) for a, b in rs]) if len(rs) > 1 else _rng(*rs[0])
    r = _cat_cache[base]
    return z3.Diff(_allchar(), r) if neg else r


def _ch(cp):
    if cp > _MAXCH:
        raise Unsupported("character beyond the solver's range")
    return z3.Re(z3.StringVal(chr(cp)))


def _rng(a, b):
    if a == b:
        return _ch(a)
    return z3.Range(z3.StringVal(chr(a)), z3.StringVal(chr(min(b, _MAXCH))))


def _set(items):
    neg = False
    parts = []
    for op, arg in items:
        n = str(op)
        if n == "NEGATE":
            neg = True
        elif n == "LITERAL":
            parts.append(_ch(arg))
        elif n == "RANGE":
            parts.append(_rng(arg[0], arg[1]))
        elif n == "CATEGORY":
            parts.append(_category(arg))
        else:
            raise Unsupported(f"regex set item {n}")
    r = parts[0] if len(parts) == 1 else z3.Union(*parts)
    return z3.Diff(_allchar(), r) if neg else r


def _seq(items, top=False):
    items = list(items)
    parts = []
    anchored_end = False
    for k, (op, arg) in enumerate(items):
        n = str(op)
        if n == "AT":
            a = str(arg)
            if a == "AT_BEGINNING" and top and k == 0:
                continue
            if a == "AT_END" and top and k == len(items) - 1:
                parts.append(z3.Union(z3.Re(z3.StringVal("")), z3.Re(z3.StringVal("\n"))))
                anchored_end = True
                continue
            raise Unsupported(f"regex anchor {a} inside the pattern")
        parts.append(_item(op, arg))
    if top and not anchored_end:
        parts.append(z3.Star(z3.Union(_allchar(), z3.Re(z3.StringVal("\n")))))
    if not parts:
        return z3.Re(z3.StringVal(""))
    return parts[0] if len(parts) == 1 else z3.Concat(*parts)


def _item(op, arg):
    n = str(op)
    if n == "LITERAL":
        return _ch(arg)
    if n == "NOT_LITERAL":
        return z3.Diff(_allchar(), _ch(arg))
    if n == "ANY":
        return z3.Diff(_allchar(), _ch(10))
    if n == "IN":
        return _set(arg)
    if n == "BRANCH":
        alts = [_seq(a) for a in arg[1]]
        return z3.Union(*alts) if len(alts) > 1 else alts[0]
    if n == "SUBPATTERN":
        if arg[1] or arg[2]:
            raise Unsupported("regex inline flags")
        return _seq(arg[3])
    if n in ("MAX_REPEAT", "MIN_REPEAT", "POSSESSIVE_REPEAT"):
        if n == "POSSESSIVE_REPEAT":
            raise Unsupported("possessive repetition")
        lo, hi, p = arg
        r = _seq(p)
        if hi == _sc.MAXREPEAT:
            if lo == 0:
                return z3.Star(r)
            if lo == 1:
                return z3.Plus(r)
            return z3.Concat(z3.Loop(r, lo, lo), z3.Star(r))
        if (lo, hi) == (0, 1):
            return z3.Option(r)
        return z3.Loop(r, lo, hi)
    raise Unsupported(f"regex construct {n}")


def language(pattern):
    try:
        parsed = _sp.parse(pattern)
    except re.error as e:
        raise Unsupported(f"not a regular expression: {e}")
    if parsed.state.flags & ~re.UNICODE:
        raise Unsupported("regex flags")
    return _seq(list(parsed), top=True)


def equivalent(p1, p2, timeout_ms=30000):
    """('unsat', None) when L(p1) == L(p2); ('sat', text) with a text on which they differ; ('unknown', reason)"""
    a, b = language(p1), language(p2)
    s = z3.String("text")
    sol = z3.Solver()
    sol.set("timeout", timeout_ms)
    sol.add(z3.InRe(s, a) != z3.InRe(s, b))
    r = sol.check()
    if r == z3.unsat:
        return "unsat", None
    if r == z3.sat:
        return "sat", sol.model().eval(s, model_completion=True).as_string()
    return "unknown", sol.reason_unknown()


if __name__ == "__main__":
    print(equivalent(sys.argv[1], sys.argv[2]))
