"""Calls: builtins, string/list/dict methods, contracts (modular), inlined closures, spec functions."""
import ast
import z3

from .vals import (SV, Char, Opaque, Cell, Closure, ClassRef, BoundMethod, Builtin, ExcValue, Unsupported, INT, BOOL,
                   REAL, STR, ASTR, OPQ, TOpt, TList, TTuple, TRef, TMap, TSet, sort_of, alen, aat, parse_type)
from .core import Infeasible, PyRaise
from .strenc import is_str
from .access import RangeV, EnumV, ZipV
from . import contract as C

_cf = z3.Function("casefold", z3.StringSort(), z3.StringSort())
_lower = z3.Function("lower", z3.StringSort(), z3.StringSort())
_upper = z3.Function("upper", z3.StringSort(), z3.StringSort())
_str2int_ok = z3.Function("int_parses", z3.StringSort(), z3.BoolSort())
_str2int = z3.Function("int_of", z3.StringSort(), z3.IntSort())
_str2float_ok = z3.Function("float_parses", z3.StringSort(), z3.BoolSort())
_str2float = z3.Function("float_of", z3.StringSort(), z3.RealSort())
_acount = None

PURE_BUILTINS = {"len", "range", "enumerate", "zip", "str", "int", "float", "bool", "isinstance", "list", "set", "dict",
                 "tuple", "sorted", "any", "all", "min", "max", "sum", "abs", "print", "iter", "next", "reversed", "type",
                 "getattr", "hasattr", "id", "repr", "ord", "chr", "frozenset", "callable", "super", "open", "map", "filter"}


class CallMixin:
    def e_Call(self, n):
        ctx = self.ctx
        # spec-only forms that must see the unevaluated argument
        if ctx.spec and isinstance(n.func, ast.Name):
            if n.func.id == "old":
                return self.eval_old(n.args[0])
            if n.func.id == "implies":
                a = ctx.zbool(ctx.truth(self.eval(n.args[0])))
                ctx.guards.append(a)
                try:
                    b = ctx.zbool(ctx.truth(self.eval(n.args[1])))
                finally:
                    ctx.guards.pop()
                return SV(BOOL, z3.Implies(a, b))
            if n.func.id == "iff":
                a = ctx.zbool(ctx.truth(self.eval(n.args[0])))
                b = ctx.zbool(ctx.truth(self.eval(n.args[1])))
                return SV(BOOL, a == b)
        from .symex import MUTATORS
        if not ctx.spec and isinstance(n.func, ast.Attribute) and n.func.attr in MUTATORS and isinstance(n.func.value, ast.Subscript) \
                and not isinstance(n.func.value.slice, ast.Slice):
            # outer[idx].append(x): containers nested in a container are values of the outer one - mutate a copy that is as
            # fresh as the outer container and store it back
            outer = self.eval(n.func.value.value)
            if isinstance(outer, Cell) and outer.sym is not None and outer.kind in ("list", "dict"):
                idx = self.eval(n.func.value.slice)
                inner = self.list_get(outer, idx) if outer.kind == "list" else self.dict_get(outer, idx, raising=True)
                if isinstance(inner, Cell):
                    inner.fresh = outer.fresh
                    inner.origin = outer.origin
                    args = [self.eval(a) for a in n.args]
                    res = self.call_method(inner, n.func.attr, args, {}, n)
                    if outer.kind == "list":
                        self.list_set(outer, idx, inner)
                    else:
                        self.dict_set(outer, idx, inner)
                    return res
        if ctx.spec and isinstance(n.func, ast.Name) and n.func.id in self.engine.spec_funcs \
                and not isinstance(self.env.get(n.func.id), (Closure, C.Contract)):
            f = self.engine.spec_funcs[n.func.id]      # a local variable may shadow a spec function's name
        else:
            f = self.eval(n.func)
        args = []
        for a in n.args:
            if isinstance(a, ast.Starred):
                v = self.eval(a.value)
                items = self.iter_items_concrete(v)
                if items is None:
                    if isinstance(v, Opaque) or getattr(v, "unknown", False):
                        args.append(Opaque("*args", fresh=True))     # unknown number of unknown arguments
                        continue
                    raise Unsupported("star-args of symbolic length")
                args.extend(items)
            else:
                args.append(self.eval(a))
        kwargs = {}
        for kw in n.keywords:
            if kw.arg is None:
                v = self.eval(kw.value)
                if isinstance(v, Cell) and v.kind == "dict" and v.sym is None:
                    kwargs.update(v.conc)
                elif isinstance(v, Opaque):
                    kwargs["**"] = v          # unknown further keyword arguments (only unmodelled callees receive them)
                else:
                    raise Unsupported("**kwargs of symbolic dict")
            else:
                kwargs[kw.arg] = self.eval(kw.value)
        return self.call(f, args, kwargs, n)

    def call(self, f, args, kwargs, node=None):
        ctx = self.ctx
        if isinstance(f, Builtin):
            return self.call_builtin(f.name, args, kwargs, node)
        if isinstance(f, BoundMethod):
            return self.call_method(f.recv, f.name, args, kwargs, node)
        if isinstance(f, Closure):
            return self.call_closure(f, args, kwargs)
        if isinstance(f, ClassRef):
            return self.construct(f, args, kwargs, node)
        if isinstance(f, C.Contract):
            return self.apply_contract(f, None, args, kwargs, node)
        if isinstance(f, Opaque):
            return self.opaque_call(f.desc, args, kwargs)
        if callable(f):     # python-side extern model
            return f(self, args, kwargs)
        raise Unsupported(f"call of {f!r}")

    def opaque_call(self, desc, args, kwargs):
        """A call the encoding knows nothing about.  Containers passed to it may be mutated by it."""
        name = desc.rsplit(".", 1)[-1].rstrip("()")
        top = self.frames[0].contract if self.frames and hasattr(self.frames[0], "contract") else None
        need = (top.ghost.get("call_requires") or {}).get(name) if top is not None else None
        if need and not self.ctx.spec:
            # library calls whose keyword arguments carry meaning the contract relies on (ghost call_requires = {method: {kw: [literals]}})
            for kw, allowed in need.items():
                got = kwargs.get(kw, "<absent>")
                ok = isinstance(got, (str, int, bool)) and got in allowed
                self.ctx.oblige("call-pre", f"{name}.{kw} in {allowed}", z3.BoolVal(bool(ok)), top=True,
                                info={"callee": name, "clause": f"{name}(..., {kw}=...) must be one of {allowed}; found {got!r}"})
            self.ctx.ghost["seen_" + name] = True
        for a in list(args) + list(kwargs.values()):
            if isinstance(a, Cell) and not self.engine.extern_is_readonly(desc):
                self.mutate(a, f"passing to unmodelled {desc}")
                if a.sym is not None or a.conc is not None:
                    a.escaped = True
        return Opaque(desc + "()", fresh=True)

    # ------------------------------------------------------------------ closures / inlining
    def call_rec_spec(self, f, args):
        """self-recursive spec function -> z3 RecFunction (defined once per string encoding)"""
        ctx = self.ctx
        node = f.node
        key = (node.name, ctx.enc)
        eng = self.engine
        eng.rec_funcs = getattr(eng, "rec_funcs", {})
        ptys = [self.ptype(a.annotation.value) for a in node.args.args]
        rty = self.ptype(node.returns.value)
        if key not in eng.rec_funcs:
            # uninterpreted symbol + ground unfolding instances added at solve time (engine.unfold_axioms):
            # z3's define-fun-rec does not honour timeouts reliably
            rf = z3.Function(f"{node.name}_{ctx.enc}", *[sort_of(t) for t in ptys], sort_of(rty))
            eng.rec_funcs[key] = rf
            consts = [z3.Const(f"{node.name}_{a.arg}", sort_of(t)) for a, t in zip(node.args.args, ptys)]
            from .symex import Frame
            env = {a.arg: ctx.wrap(c, t) for a, c, t in zip(node.args.args, consts, ptys)}
            self.frames.append(Frame(env, None, None, node.name))
            saved_spec, n_pc, saved_guards = ctx.spec, len(ctx.pc), ctx.guards
            ctx.spec = True
            ctx.guards = []
            try:
                body = node.body[-1]
                if not isinstance(body, ast.Return):
                    raise Unsupported("recursive spec function must be a single return")
                val = self.eval(body.value)
                if len(ctx.pc) != n_pc:
                    raise Unsupported("recursive spec function body needs auxiliary axioms")
                eng.rec_defs = getattr(eng, "rec_defs", {})
                eng.rec_defs[rf.name()] = (rf, consts, ctx.term(val, rty))
            finally:
                ctx.spec, ctx.guards = saved_spec, saved_guards
                self.frames.pop()
        rf = eng.rec_funcs[key]
        return ctx.wrap(rf(*[ctx.term(a, t) for a, t in zip(args, ptys)]), rty)

    def call_closure(self, f, args, kwargs):
        node = f.node
        if getattr(f, "is_spec", False) and getattr(f, "is_rec", None) is None:
            f.is_rec = any(isinstance(x, ast.Call) and isinstance(x.func, ast.Name) and x.func.id == node.name
                           for x in ast.walk(node))
        if getattr(f, "is_rec", False):
            return self.call_rec_spec(f, args)
        params = node.args
        env = dict(f.env) if isinstance(node, ast.Lambda) else dict(f.env)
        names = [a.arg for a in params.args]
        defaults = params.defaults
        bound = {}
        for k, a in enumerate(args):
            if k < len(names):
                bound[names[k]] = a
            elif params.vararg is None:
                self.ctx.may_raise(True, "TypeError", "too many arguments")
                raise Infeasible()
        if params.vararg is not None:
            bound[params.vararg.arg] = tuple(args[len(names):])
        for k, v in kwargs.items():
            if k in names or k in [a.arg for a in params.kwonlyargs]:
                bound[k] = v
            elif params.kwarg is None:
                raise Unsupported(f"unexpected keyword {k}")
        if params.kwarg is not None:
            extra = {k: v for k, v in kwargs.items() if k not in names and k not in [a.arg for a in params.kwonlyargs]}
            bound[params.kwarg.arg] = Cell("dict", conc=extra, fresh=True)
        off = len(names) - len(defaults)
        from .symex import Frame, _Return
        base_frame = self.frames[-1]
        for k, name in enumerate(names):
            if name not in bound:
                if k >= off:
                    self.frames.append(Frame(env, getattr(f, "module", base_frame.module), None, "<default>"))
                    try:
                        bound[name] = self.eval(defaults[k - off])
                    finally:
                        self.frames.pop()
                else:
                    raise Unsupported(f"missing argument {name}")
        for a, d in zip(params.kwonlyargs, params.kw_defaults):
            if a.arg not in bound:
                if d is None:
                    raise Unsupported(f"missing keyword-only argument {a.arg}")
                self.frames.append(Frame(env, getattr(f, "module", base_frame.module), None, "<default>"))
                try:
                    bound[a.arg] = self.eval(d)
                finally:
                    self.frames.pop()
        env = dict(env)
        env.update(bound)
        fr = Frame(env, getattr(f, "module", base_frame.module), getattr(f, "cls_node", None), f.name or "<lambda>")
        fr.contract = getattr(f, "contract", None)
        self.frames.append(fr)
        if len(self.frames) > 40:
            raise Unsupported("inlining too deep (recursion?)")
        try:
            if isinstance(node, ast.Lambda):
                return self.eval(node.body)
            try:
                self.exec_block(node.body)
            except _Return as r:
                return r.v
            return None
        finally:
            self.frames.pop()

    # ------------------------------------------------------------------ objects
    def construct(self, cref, args, kwargs, node):
        ctx = self.ctx
        name = cref.name
        if self.engine.is_exception_class(name):
            return ExcValue(name, tuple(args), kwargs)
        ct = C.find_method_contract(name, "__init__")
        if ct is not None:
            obj = self.new_object(name)
            self.apply_contract(ct, obj, args, kwargs, node)
            return obj
        if name in C.CLASSES:
            # modelled class without constructor contract: fresh object with unconstrained fields
            return self.new_object(name)
        return self.opaque_call(name, args, kwargs)

    # ------------------------------------------------------------------ contracts
    def bind_params(self, ct, recv, args, kwargs):
        mod, cls, fn = self.engine.find_function(ct)
        names = [a.arg for a in fn.args.args]
        is_static = any(isinstance(d, ast.Name) and d.id == "staticmethod" for d in fn.decorator_list)
        is_classm = any(isinstance(d, ast.Name) and d.id == "classmethod" for d in fn.decorator_list)
        bound = {}
        if cls is not None and not is_static and names:
            first = names[0]
            names = names[1:]
            if not is_classm:
                bound[first] = recv
        pos = list(args)
        for k, a in enumerate(pos):
            if k < len(names):
                bound[names[k]] = a
            elif fn.args.vararg is not None:
                bound.setdefault("*" + fn.args.vararg.arg, []).append(a)
            else:
                self.ctx.may_raise(True, "TypeError", "too many arguments")
                raise Infeasible()
        kwonly = [a.arg for a in fn.args.kwonlyargs]
        extra = {}
        for k, v in kwargs.items():
            if k in names or k in kwonly:
                bound[k] = v
            else:
                extra[k] = v
        if extra:
            if fn.args.kwarg is None:
                self.ctx.may_raise(True, "TypeError", f"unexpected keyword {list(extra)}")
                raise Infeasible()
            bound["**" + fn.args.kwarg.arg] = extra
        defaults = fn.args.defaults
        off = len([a.arg for a in fn.args.args]) - len(defaults)
        allnames = [a.arg for a in fn.args.args]
        for k, nm in enumerate(allnames):
            if nm not in bound and k >= off and nm in names:
                bound[nm] = self.engine.eval_default(self, mod, defaults[k - off])
        for a, d in zip(fn.args.kwonlyargs, fn.args.kw_defaults):
            if a.arg not in bound and d is not None:
                bound[a.arg] = self.engine.eval_default(self, mod, d)
        missing = [nm for nm in names if nm not in bound]
        if missing:
            self.ctx.may_raise(True, "TypeError", f"missing arguments {missing}")
            raise Infeasible()
        return bound

    def coerce_param(self, v, tystr):
        """Give an argument the declared parameter type (so that the callee's contract text types check)."""
        ctx = self.ctx
        ty = self.ptype(tystr)
        if ty == OPQ:
            return v
        if isinstance(v, Cell) and ty.name in ("List", "Map", "Set"):
            if v.sym is None:
                self.symbolise(v, ty)
            return v
        if isinstance(v, Opaque):
            if ty in (STR, INT, REAL, BOOL):
                return ctx.fresh(ty, "opq_arg")      # nothing is known about the value except its declared type
            raise Unsupported(f"opaque argument where {ty} expected")
        if ty.name == "Tuple" and isinstance(v, tuple):
            return v
        return ctx.wrap(ctx.term(v, ty), ty) if not (isinstance(v, SV) and v.ty == ty) else v

    def apply_contract(self, ct, recv, args, kwargs, node=None):
        ctx = self.ctx
        from .symex import Frame
        if ct.inline and not ctx.spec:
            return self.inline_contract(ct, recv, args, kwargs)
        bound = self.bind_params(ct, recv, args, kwargs)
        env = {}
        top = getattr(self.frames[0], "contract", None)
        try:
            for name, v in bound.items():
                if getattr(v, "unknown", False) and not (name in ct.params and ct.params[name] == "Opaque"):
                    raise Unsupported("argument of unknown content")      # (a parameter the contract does not look into may be anything)
                if name in ct.params:
                    env[name] = self.coerce_param(v, ct.params[name])
                else:
                    env[name] = v
        except Unsupported:
            if top is not None and top.unwind == "havoc" and not ctx.spec:
                # frame-only verification: a callee whose arguments are outside the encoding is an unmodelled call
                return self.opaque_call(ct.func, args, kwargs)
            raise
        self.engine.record_call(ctx.contract, ct)
        fr = Frame(env, self.frames[-1].module, None, ct.func)
        self.frames.append(fr)
        saved_spec, saved_ghost = ctx.spec, ctx.ghost
        saved_old = getattr(ctx, "old_snap", None)      # old(...) of the CALLER keeps denoting the caller's entry state after this call
        ctx.ghost = dict(ctx.ghost)
        try:
            was_spec = ctx.spec
            ctx.spec = True
            # --- precondition
            if not was_spec:
                for k, r in enumerate(ct.requires):
                    g = ctx.zbool(ctx.truth(self.eval_spec_text(r)))
                    ctx.oblige("call-pre", f"{ct.cid}#{k}@call{self.engine.call_ordinal(ctx.contract, node)}", g, top=False,
                               info={"callee": ct.cid, "clause": r})
            snap = self.snapshot()
            # --- exceptions the callee may raise
            if not was_spec:
                if ct.raises and ct.lets:
                    ctx.old_snap = snap
                    for lbl, e in ct.lets.items():      # names the raise conditions may use (entry state)
                        try:
                            ctx.ghost[lbl] = self.eval_spec_text(e)
                        except Unsupported:
                            pass
                for exc, cond in ct.raises.items():
                    if cond is True or cond == "True" or (isinstance(cond, str) and cond.startswith("maybe")):
                        b = z3.Bool(ctx.fresh_name("raises_" + exc))
                        extra = []
                        if isinstance(cond, str) and cond.startswith("maybe:"):
                            b = z3.And(b, ctx.zbool(ctx.truth(self.eval_spec_text(cond[6:]))))
                    else:
                        b = ctx.zbool(ctx.truth(self.eval_spec_text(cond)))
                    ctx.spec = False
                    try:
                        if self.engine.exception_expected(ctx, exc) or True:
                            if ctx.decide(b, f"callee raises {exc}"):
                                self.havoc_modifies(ct, env)
                                raise PyRaise(ExcValue(exc))
                    finally:
                        ctx.spec = True
            # --- frame: havoc what the callee may modify
            self.havoc_modifies(ct, env)
            # --- result
            res = None
            ctx.now = ctx.now + 1       # whatever the callee returns or stores was allocated no later than now
            if ct.returns not in (None, "None"):
                rty = self.ptype(ct.returns)
                res = ctx.fresh(rty, "ret_" + ct.method_name)
                if isinstance(res, Cell):
                    res.fresh = bool(ct.fresh_result)
                    res.origin = f"result of {ct.func}"
            ctx.ghost["result"] = res
            for g, init in ct.ghost.get("init", {}).items():
                if g not in ctx.ghost:      # ghost state private to the callee: its final value is only known by the ensures
                    ctx.ghost[g] = ctx.fresh(BOOL if init in ("True", "False") else INT, "cg_" + g)
            ctx.old_snap = snap
            for lbl, e in ct.lets.items():
                ctx.ghost[lbl] = self.eval_spec_text(e)
            for lbl, e in ct.ensures.items():
                if lbl.startswith("bounded:") or lbl.startswith("exc:"):
                    continue            # only what is proved of the callee may be assumed at call sites
                ctx.assume(ctx.zbool(ctx.truth(self.eval_spec_text(e))))
            for g, e in ct.ghost.get("sets", {}).items():
                saved_ghost[g] = self.eval_spec_text(e)      # ghost effect of the callee on the caller's ghost state
            return res
        finally:
            ctx.spec, ctx.ghost = saved_spec, saved_ghost
            ctx.old_snap = saved_old
            self.frames.pop()

    def inline_contract(self, ct, recv, args, kwargs):
        mod, cls, fn = self.engine.find_function(ct)
        clo = Closure(fn, {}, name=ct.func)
        clo.module = mod
        clo.cls_node = cls
        clo.contract = ct
        is_static = any(isinstance(d, ast.Name) and d.id == "staticmethod" for d in fn.decorator_list)
        if cls is not None and not is_static:
            args = [recv] + list(args)
        self.engine.record_call(self.ctx.contract, ct, inline=True)
        return self.call_closure(clo, args, kwargs)

    def havoc_modifies(self, ct, env):
        ctx = self.ctx
        for m in ct.modifies:
            if m.startswith("heap:"):
                key = m[5:]
                cls, field = key.split(".")
                info = self.field_info(cls, field)
                if info is None:
                    raise Unsupported(f"modifies unknown field {key}")
                key, ty = info
                if ty == OPQ:
                    continue
                self.heap_array(key, ty)
                ctx.heap[key] = z3.Const(ctx.fresh_name("H_" + key), z3.ArraySort(z3.IntSort(), sort_of(ty)))
                for k2 in [k for k in ctx.field_cells if k[0] == key]:
                    c = ctx.field_cells.pop(k2)
                continue
            if "." in m:
                base, field = m.split(".", 1)
                obj = env.get(base)
                if obj is None:
                    raise Unsupported(f"modifies clause {m}: no parameter {base}")
                if isinstance(obj, SV) and obj.ty.name == "Opt":
                    obj = ctx.wrap(sort_of(obj.ty).val(obj.t), obj.ty.args[0])
                info = self.field_info(obj.ty.args[0].name, field)
                if info is None:
                    raise Unsupported(f"modifies unknown field {m}")
                key, ty = info
                if ty == OPQ:
                    continue
                arr = self.heap_array(key, ty)
                nv = z3.Const(ctx.fresh_name("hv_" + field), sort_of(ty))
                ctx.heap[key] = z3.Store(arr, obj.t, nv)
                ck = (key, obj.t.sexpr())
                if ck in ctx.field_cells:
                    cell = ctx.field_cells[ck]
                    cell.sym = SV(ty, nv)
                    cell.conc = None
                    ctx.assume_type_inv(cell, ty)
                self.note_field_write(obj, key)
            else:
                v = env.get(m)
                if isinstance(v, Cell):
                    sp, ctx.spec = ctx.spec, False
                    try:
                        self.mutate(v, f"call to {ct.func}")     # frame accounting of the caller
                    finally:
                        ctx.spec = sp
                    ty = v.sym.ty if v.sym is not None else self.symbolise(v)
                    v.sym = SV(ty, z3.Const(ctx.fresh_name("hv_" + m), sort_of(ty)))
                    ctx.assume_type_inv(v, ty)
                    self.write_back(v)
                elif v is not None and not isinstance(v, Opaque):
                    raise Unsupported(f"modifies clause {m} names a non-container")

    # ------------------------------------------------------------------ old()
    def snapshot(self):
        ctx = self.ctx
        cells = {}
        seen = set()

        def visit(v):
            if isinstance(v, Cell) and id(v) not in seen:
                seen.add(id(v))
                cells[id(v)] = (v, list(v.conc) if isinstance(v.conc, list) else (dict(v.conc) if isinstance(v.conc, dict) else (set(v.conc) if v.conc is not None else None)), v.sym)
                if isinstance(v.conc, list):
                    for e in v.conc:
                        visit(e)
            elif isinstance(v, tuple):
                for e in v:
                    visit(e)
        for fr in self.frames:
            for v in fr.env.values():
                visit(v)
        for v in ctx.field_cells.values():
            visit(v)
        return {"heap": dict(ctx.heap), "cells": cells, "field_cells": dict(ctx.field_cells),
                "effects": getattr(ctx, "effects_len", None)}

    def eval_old(self, node):
        ctx = self.ctx
        snap = getattr(ctx, "old_snap", None)
        if snap is None:
            return self.eval(node)
        cur_heap, cur_fc = ctx.heap, ctx.field_cells
        cur_cells = {}
        for cid, (cell, conc, sym) in snap["cells"].items():
            cur_cells[cid] = (cell, cell.conc, cell.sym)
            cell.conc, cell.sym = conc, sym
        ctx.heap = dict(snap["heap"])
        ctx.field_cells = dict(snap["field_cells"])
        saved = ctx.old_snap
        try:
            v = self.eval(node)
            # freeze container values so that later mutations do not leak into the old() value
            if isinstance(v, Cell):
                v = Cell(v.kind, conc=(list(v.conc) if isinstance(v.conc, list) else v.conc), sym=v.sym, fresh=True)
            return v
        finally:
            ctx.heap, ctx.field_cells = cur_heap, cur_fc
            for cid, (cell, conc, sym) in cur_cells.items():
                cell.conc, cell.sym = conc, sym
            ctx.old_snap = saved

    def eval_spec_text(self, text):
        node = self.engine.parse_spec(text)
        return self.eval(node)

    # ------------------------------------------------------------------ quantifiers over generator expressions
    def quantify(self, gen, is_all):
        ctx = self.ctx
        _, node, env = gen
        from .symex import Frame
        fr = Frame(dict(env), self.frames[-1].module, self.frames[-1].cls_node, "<genexp>")
        self.frames.append(fr)
        saved = ctx.spec
        ctx.spec = True
        try:
            return self._quant(node, 0, is_all)
        finally:
            ctx.spec = saved
            self.frames.pop()

    def _quant(self, node, gi, is_all, bound=None):
        """bound: list of (var, range-condition) of enclosing symbolic generators (flattened into ONE quantifier
        so that E-matching sees multi-patterns over all bound variables)"""
        ctx = self.ctx
        bound = bound or []
        if gi == len(node.generators):
            body = ctx.zbool(ctx.truth(self.eval(node.elt)))
            if not bound:
                return body
            vs = [v for v, _ in bound]
            conds = [c for _, cs in bound for c in cs]
            if is_all:
                return z3.ForAll(vs, z3.Implies(z3.And(*conds), body))
            return z3.Exists(vs, z3.And(*conds, body))
        g = node.generators[gi]
        it = self.eval(g.iter)
        items = self.iter_items_concrete(it)
        if items is not None:
            if bound:
                raise Unsupported("concrete generator nested inside a symbolic one")
            parts = []
            for x in items:
                self.push_scope()
                try:
                    self.bind(g.target, x)
                    conds = []
                    pushed = 0
                    try:
                        for c in g.ifs:
                            t = ctx.zbool(ctx.truth(self.eval(c)))
                            conds.append(t)
                            ctx.guards.append(t)
                            pushed += 1
                        body = self._quant(node, gi + 1, is_all)
                    finally:
                        for _ in range(pushed):
                            ctx.guards.pop()
                    if is_all:
                        parts.append(z3.Implies(z3.And(*conds), body) if conds else body)
                    else:
                        parts.append(z3.And(*conds, body))
                finally:
                    self.pop_scope()
            if is_all:
                return z3.And(*parts) if parts else z3.BoolVal(True)
            return z3.Or(*parts) if parts else z3.BoolVal(False)
        k = z3.Int(ctx.fresh_name("q"))
        if isinstance(it, RangeV) and it.step == 1:
            # bind the variable to the value itself (not offset + index): patterns then match s[k] directly
            rng = z3.And(ctx.term(it.a, INT) <= k, k < ctx.term(it.b, INT))
            at = lambda kk: SV(INT, kk)
        else:
            ln, at = self.iter_model(it)
            rng = z3.And(0 <= k, k < ctx.term(ln, INT))
        self.push_scope()
        ctx.guards.append(rng)
        pushed = 1
        try:
            self.bind(g.target, at(k))
            conds = [rng]
            for c in g.ifs:
                t = ctx.zbool(ctx.truth(self.eval(c)))
                conds.append(t)
                ctx.guards.append(t)
                pushed += 1
            # guards only matter for obligations, which spec mode does not emit; keep them for merge()
            return self._quant(node, gi + 1, is_all, bound + [(k, conds)])
        finally:
            for _ in range(pushed):
                ctx.guards.pop()
            self.pop_scope()

    # ------------------------------------------------------------------ builtins
    def call_builtin(self, name, args, kwargs, node):
        ctx = self.ctx
        ext = self.engine.extern(name)
        if ext is not None:
            return ext(self, args, kwargs)
        if name in ("set", "list", "tuple", "sorted", "frozenset", "dict", "sum", "min", "max") and args \
                and isinstance(args[0], tuple) and args[0] and args[0][0] == "genexp" and not ctx.spec:
            return self.unknown_cell("set" if name in ("set", "frozenset") else "list") if name in ("set", "list", "frozenset", "sorted") \
                else Opaque(f"{name}(genexp)", fresh=True)
        if name in ("isinstance", "min", "max", "abs", "int", "float", "sum", "sorted", "round", "bool", "ord", "tuple", "dict", "zip",
                    "enumerate", "any", "all", "next", "iter", "reversed", "str") \
                and any(isinstance(a, Opaque) or getattr(a, "unknown", False) for a in args):
            if name in ("int", "float"):
                ctx.may_raise(z3.Bool(ctx.fresh_name("conv_fails")), "ValueError", f"{name}(opaque)") \
                    if self.engine.exception_expected(ctx, "ValueError") else None
            return Opaque(f"{name}()", fresh=True)
        if name == "len":
            return self.seq_len(args[0])
        if name == "range":
            if any(isinstance(a, Opaque) for a in args):
                return Opaque("range()", fresh=True)
            if len(args) == 1:
                return RangeV(0, args[0])
            if len(args) == 2:
                return RangeV(args[0], args[1])
            return RangeV(args[0], args[1], args[2])
        if name == "enumerate":
            return EnumV(args[0], kwargs.get("start", args[1] if len(args) > 1 else 0))
        if name == "zip":
            return ZipV(list(args))
        if name in ("all", "any"):
            a = args[0]
            if isinstance(a, tuple) and a and a[0] == "genexp":
                return SV(BOOL, self.quantify(a, name == "all"))
            items = self.iter_items_concrete(a)
            if items is not None:
                ts = [ctx.zbool(ctx.truth(x)) for x in items]
                return SV(BOOL, (z3.And if name == "all" else z3.Or)(*ts)) if ts else (name == "all")
            raise Unsupported(f"{name}() over symbolic non-generator")
        if name == "isinstance":
            return self.isinstance_(args[0], args[1])
        if name == "str":
            return self.to_str(args[0]) if args else ""
        if name == "bool":
            t = ctx.truth(args[0])
            return t if isinstance(t, bool) else SV(BOOL, t)
        if name == "int":
            return self.to_int(args[0])
        if name == "float":
            return self.to_float(args[0])
        if name == "abs":
            v = args[0]
            ty = ctx.type_of(v)
            T = REAL if ty == REAL else INT
            x = ctx.term(v, T)
            return SV(T, z3.If(x < 0, -x, x))
        if name in ("min", "max") and len(args) == 2:
            a, b = args
            T = REAL if REAL in (ctx.type_of(a), ctx.type_of(b)) else INT
            x, y = ctx.term(a, T), ctx.term(b, T)
            return SV(T, z3.If((x < y) if name == "min" else (x > y), x, y))
        if name == "list":
            if not args:
                return Cell("list", conc=[], fresh=True)
            items = self.iter_items_concrete(args[0])
            if items is not None:
                return Cell("list", conc=list(items), fresh=True)
            a = args[0]
            if isinstance(a, Cell) and a.kind == "list":
                return Cell("list", sym=a.sym, fresh=True)
            if isinstance(a, Opaque):
                return Opaque("list()", fresh=True)
            if isinstance(a, Cell) and a.kind == "set" and a.sym is not None:
                # list(S): some ordering of the members of S - exactly the members, each once
                from .core import mem_fn
                ety = a.sym.ty.args[0]
                lty = TList(ety)
                so = sort_of(lty)
                r = z3.Const(ctx.fresh_name("lst_of_set"), so)
                e = z3.Const(ctx.fresh_name("e"), sort_of(ety))
                k, j = z3.Int(ctx.fresh_name("k")), z3.Int(ctx.fresh_name("j"))
                ctx.assume(so.len(r) >= 0)
                ctx.assume(z3.ForAll([e], mem_fn(lty)(r, e) == z3.Select(a.sym.t, e)))
                ctx.assume(z3.ForAll([k], z3.Implies(z3.And(0 <= k, k < so.len(r)), z3.Select(a.sym.t, z3.Select(so.data(r), k)))))
                ctx.assume(z3.ForAll([k, j], z3.Implies(z3.And(0 <= k, k < j, j < so.len(r)),
                                                        z3.Select(so.data(r), k) != z3.Select(so.data(r), j))))
                return Cell("list", sym=SV(lty, r), fresh=True)
            raise Unsupported("list() of symbolic iterable")
        if name == "tuple":
            items = self.iter_items_concrete(args[0]) if args else []
            if items is not None:
                return tuple(items)
            raise Unsupported("tuple() of symbolic iterable")
        if name in ("set", "frozenset"):
            if not args:
                return Cell("set", conc=set(), fresh=True)
            a = args[0]
            if a is None or (isinstance(a, SV) and a.ty.name == "Opt"):
                a = ctx.unopt(a, "TypeError", "set(None)")
            items = self.iter_items_concrete(a)
            if items is not None:
                return Cell("set", conc=set(self._hashable(i) for i in items), fresh=True)
            if isinstance(a, Opaque):
                return Opaque("set()", fresh=True)
            if isinstance(a, Cell) and (getattr(a, "unknown", False) or a.sym is None):
                return self.unknown_cell("set")
            if isinstance(a, Cell) and a.kind == "list":
                ty = a.sym.ty
                s = sort_of(ty)
                sty = TSet(ty.args[0])
                r = z3.Const(ctx.fresh_name("set"), sort_of(sty))
                e = z3.Const(ctx.fresh_name("e"), sort_of(ty.args[0]))
                k = z3.Int(ctx.fresh_name("k"))
                ctx.assume(z3.ForAll([e], z3.Select(r, e) == z3.Exists([k], z3.And(0 <= k, k < s.len(a.sym.t), z3.Select(s.data(a.sym.t), k) == e))))
                c = Cell("set", sym=SV(sty, r), fresh=True)
                c.from_list = (a.sym, r)        # len() of this set (while unchanged) is the number of distinct members of the list
                return c
            raise Unsupported("set() of symbolic iterable")
        if name == "dict":
            if not args:
                return Cell("dict", conc=dict(kwargs), fresh=True)
            a = args[0]
            if isinstance(a, Cell) and a.kind == "dict":
                return Cell("dict", conc=dict(a.conc) if a.conc is not None else None, sym=a.sym, fresh=True)
            raise Unsupported("dict() of non-dict")
        if name == "sorted":
            a = args[0]
            items = self.iter_items_concrete(a)
            if items is not None and all(isinstance(x, (int, str)) for x in items) and not kwargs:
                return Cell("list", conc=sorted(items), fresh=True)
            if isinstance(a, Opaque) or kwargs:
                return Opaque("sorted()", fresh=True)
            raise Unsupported("sorted() of symbolic list")
        if name == "print":
            return None
        if name == "ord":
            v = args[0]
            if isinstance(v, str):
                return ord(v)
            if isinstance(v, Char):
                return SV(INT, v.c)
            return SV(INT, ctx.strs.code_at(v, z3.IntVal(0)))
        if name in ("getattr",) and len(args) >= 2 and isinstance(args[1], str):
            try:
                return self.getattr(args[0], args[1])
            except Unsupported:
                if len(args) > 2:
                    return args[2]
                raise
        if name == "type":
            return Opaque("type()")
        if name == "id" and len(args) == 1 and isinstance(args[0], SV) and args[0].ty.name in ("Ref", "Opt"):
            v = args[0] if args[0].ty.name == "Ref" else ctx.unopt(args[0], "TypeError", "id(None) is not modelled")
            return SV(INT, v.t)       # identity of a modelled object == its reference
        if name in ("repr", "id", "hasattr", "callable", "iter", "next", "reversed", "super", "open", "map", "filter", "sum"):
            return self.opaque_call(name, args, kwargs)
        # unknown dotted extern (module function): opaque result; containers passed may be mutated
        if "." in name or name in ("deepcopy",):
            return self.opaque_call(name, args, kwargs)
        raise Unsupported(f"builtin {name}")

    def isinstance_(self, v, t):
        ctx = self.ctx
        names = []
        for x in (t if isinstance(t, tuple) else (t,)):
            if isinstance(x, Builtin):
                names.append(x.name)
            elif isinstance(x, ClassRef):
                names.append(x.name)
            else:
                raise Unsupported("isinstance with non-class")
        if isinstance(v, Opaque):
            raise Unsupported("isinstance of opaque")
        if isinstance(v, SV) and v.ty.name == "Opt":
            inner = self.isinstance_(ctx.wrap(sort_of(v.ty).val(v.t), v.ty.args[0]), t)
            return SV(BOOL, z3.And(z3.Not(sort_of(v.ty).is_none(v.t)), ctx.zbool(inner if isinstance(inner, bool) else inner.t)))
        jt = self.engine.json_isinstance(self, v, names)
        if jt is not None:
            return jt
        res = False
        for nm in names:
            if nm == "str":
                res = res or is_str(v)
            elif nm == "bool":
                res = res or isinstance(v, bool) or (isinstance(v, SV) and v.ty == BOOL)
            elif nm == "int":
                res = res or (isinstance(v, int)) or (isinstance(v, SV) and v.ty in (INT, BOOL))
            elif nm == "float":
                res = res or isinstance(v, float) or (isinstance(v, SV) and v.ty == REAL)
            elif nm == "list":
                res = res or (isinstance(v, Cell) and v.kind == "list")
            elif nm == "dict":
                res = res or (isinstance(v, Cell) and v.kind == "dict")
            elif nm in ("set", "frozenset"):
                res = res or (isinstance(v, Cell) and v.kind == "set")
            elif nm == "tuple":
                res = res or isinstance(v, tuple)
            elif isinstance(v, SV) and v.ty.name == "Ref":
                cls = v.ty.args[0].name
                if self.engine.model_subclass(cls, nm):
                    res = True
                elif nm in C.CLASSES and self.engine.model_subclass(nm, cls) and self.field_info(cls, "__is_" + nm) is not None:
                    # the static type is a base of nm: the dynamic type is the boolean view __is_<nm> of the base model
                    dyn = ctx.term(self.field_read(v, "__is_" + nm), BOOL)
                    res = dyn if res is False else z3.Or(ctx.zbool(res), dyn)
        return res if isinstance(res, bool) else SV(BOOL, res)

    def to_str(self, v):
        ctx = self.ctx
        if isinstance(v, str):
            return v
        if isinstance(v, bool):
            return str(v)
        if isinstance(v, int):
            return str(v)
        if is_str(v):
            return v
        if isinstance(v, SV) and v.ty.name == "Ref":
            r = self.field_read(v, "__str__")
            if r is not None:
                return r
        if isinstance(v, SV) and v.ty == INT and ctx.enc == "native":
            return SV(STR, z3.If(v.t >= 0, z3.IntToStr(v.t), z3.Concat(z3.StringVal("-"), z3.IntToStr(-v.t))))
        return Opaque("str()")

    def to_int(self, v):
        ctx = self.ctx
        if isinstance(v, (int, bool)):
            return int(v)
        if isinstance(v, str):
            try:
                return int(v)
            except ValueError:
                ctx.may_raise(True, "ValueError", "int()")
                raise Infeasible()
        if isinstance(v, SV) and v.ty in (INT, BOOL):
            return SV(INT, ctx.term(v, INT))
        if isinstance(v, SV) and v.ty == STR:
            ctx.may_raise(z3.Not(_str2int_ok(v.t)), "ValueError", "int(str)")
            return SV(INT, _str2int(v.t))
        if isinstance(v, SV) and v.ty == REAL:
            return SV(INT, z3.If(v.t >= 0, z3.ToInt(v.t), -z3.ToInt(-v.t)))
        if v is None or (isinstance(v, SV) and v.ty.name == "Opt"):
            return self.to_int(ctx.unopt(v, "TypeError", "int(None)"))
        if isinstance(v, Opaque):
            return Opaque("int()")
        raise Unsupported(f"int() of {v!r}")

    def to_float(self, v):
        ctx = self.ctx
        if isinstance(v, (int, float)):
            return float(v)
        if isinstance(v, SV) and v.ty in (INT, REAL):
            return SV(REAL, ctx.term(v, REAL))
        if isinstance(v, SV) and v.ty == STR:
            ctx.may_raise(z3.Not(_str2float_ok(v.t)), "ValueError", "float(str)")
            return SV(REAL, _str2float(v.t))
        if isinstance(v, str):
            try:
                return float(v)
            except ValueError:
                ctx.may_raise(True, "ValueError", "float()")
                raise Infeasible()
        if v is None or (isinstance(v, SV) and v.ty.name == "Opt"):
            return self.to_float(ctx.unopt(v, "TypeError", "float(None)"))
        if isinstance(v, Opaque):
            ctx.may_raise(z3.Bool(ctx.fresh_name("float_fails")), "ValueError", "float(opaque)")
            return ctx.fresh(REAL, "float")
        raise Unsupported(f"float() of {v!r}")
