"""Subscripts, attributes, heap fields, container operations, comprehensions."""
import ast
import z3

from .vals import (SV, Char, Opaque, Cell, Closure, ClassRef, BoundMethod, Builtin, ExcValue, Unsupported, INT, BOOL,
                   REAL, STR, ASTR, OPQ, TOpt, TList, TTuple, TRef, TMap, TSet, sort_of, alen, aat, parse_type)
from .core import Infeasible, mem_fn
from .strenc import is_str
from . import contract as C

MODULES = {"os", "re", "json", "shutil", "time", "portalocker", "pd", "pandas", "np", "numpy", "copy", "itertools",
           "math", "bisect", "io", "sys", "urllib", "zipfile", "tempfile", "hashlib", "functools", "datetime", "inflect",
           "openpyxl", "jsonschema", "Version", "semantic_version", "errno", "warnings", "traceback", "ET", "html",
           "defusedxml", "argparse", "logging", "random", "string"}


def _index_consts(idx):
    """the uninterpreted constants of an index term (k, or k inside f(k)): the bound variables of the comprehension body"""
    out, todo, seen = [], [idx], set()
    while todo:
        t = todo.pop()
        if t.get_id() in seen:
            continue
        seen.add(t.get_id())
        if z3.is_const(t) and t.decl().kind() == z3.Z3_OP_UNINTERPRETED:
            out.append(t)
        elif z3.is_app(t):
            todo.extend(t.children())
    return out


def _has_ite(t):
    """an if-then-else inside a term makes it inadmissible as a quantifier pattern"""
    todo, seen = [t], set()
    while todo:
        x = todo.pop()
        if x.get_id() in seen:
            continue
        seen.add(x.get_id())
        if z3.is_app(x):
            if x.decl().kind() == z3.Z3_OP_ITE:
                return True
            todo.extend(x.children())
        if len(seen) > 2000:
            return True
    return False


class AccessMixin:
    # ------------------------------------------------------------------ types
    def str_ty(self):
        return ASTR if self.ctx.enc == "array" else STR

    def ptype(self, text):
        return parse_type(text, self.str_ty())

    # ------------------------------------------------------------------ heap
    def field_info(self, cls, field):
        hit = C.class_field(cls, field)
        if hit is None:
            return None
        owner, tystr = hit
        return f"{owner}.{field}", self.ptype(tystr)

    def heap_array(self, key, ty):
        ctx = self.ctx
        if key not in ctx.heap:
            arr = z3.Const("H0_" + key, z3.ArraySort(z3.IntSort(), sort_of(ty)))
            ctx.heap[key] = arr
            ctx.heap0[key] = (arr, ty)
        return ctx.heap[key]

    def field_read(self, obj, field):
        ctx = self.ctx
        cls = obj.ty.args[0].name
        info = self.field_info(cls, field)
        if info is None:
            return None
        key, ty = info
        if ty == OPQ:
            return Opaque(f"{self.describe(obj)}.{field}", fresh=obj.t.sexpr() in getattr(ctx, "fresh_refs", set()))
        arr = self.heap_array(key, ty)
        ck = (key, obj.t.sexpr())
        if ty.name in ("List", "Map", "Set"):
            if ck in ctx.field_cells:
                return ctx.field_cells[ck]
            cell = ctx.wrap(z3.Select(arr, obj.t), ty)
            cell.fresh = obj.t.sexpr() in ctx.fresh_refs if hasattr(ctx, "fresh_refs") else False
            cell.home = (key, obj.t, ty)
            cell.origin = f"{self.describe(obj)}.{field}"
            ctx.assume_type_inv(cell, ty)
            ctx.field_cells[ck] = cell
            return cell
        v = ctx.wrap(z3.Select(arr, obj.t), ty)
        if ty == ASTR:
            ctx.assume(alen(v.t) >= 0)
        return v

    def describe(self, v):
        for name, val in self.frames[0].env.items():
            if val is v or (isinstance(v, SV) and isinstance(val, SV) and val.t.eq(v.t)):
                return name
        return "obj"

    def field_write(self, obj, field, value):
        ctx = self.ctx
        cls = obj.ty.args[0].name
        info = self.field_info(cls, field)
        if info is None:
            fresh = obj.t.sexpr() in getattr(ctx, "fresh_refs", set())
            if fresh:
                return          # an attribute of an object allocated by this call that no clause can see
            # an attribute outside the class model written on an entry object: no clause can read it, but it IS state kept on the object
            ctx.unmodelled_writes = getattr(ctx, "unmodelled_writes", []) + [(f"{cls}.{field}", field, obj.t)]
            if ctx.contract.ghost.get("no_frame"):
                raise Unsupported(f"write to unmodelled field {cls}.{field}")
            return              # judged by the frame obligation at exit (it is outside `modifies` unless listed there)
        key, ty = info
        if ty == OPQ:
            self.note_field_write(obj, key)
            return
        arr = self.heap_array(key, ty)
        if ty.name in ("List", "Map", "Set") and isinstance(value, Cell):
            if value.sym is None:
                self.symbolise(value, ty)
            ck = (key, obj.t.sexpr())
            ctx.field_cells[ck] = value
            value.home = (key, obj.t, ty)
        ctx.heap[key] = z3.Store(arr, obj.t, ctx.term(value, ty))
        # other cached cells of this field may alias semantically: drop them
        for k2 in [k for k in ctx.field_cells if k[0] == key and k[1] != obj.t.sexpr()]:
            del ctx.field_cells[k2]
        self.note_field_write(obj, key)

    def note_field_write(self, obj, key):
        ctx = self.ctx
        ctx.writes = getattr(ctx, "writes", [])
        ctx.writes.append((key, obj.t))

    def new_object(self, cls):
        ctx = self.ctx
        from .core import BIRTH
        ctx.alloc += 1
        ref = z3.Int(ctx.fresh_name(f"new_{cls}"))
        ctx.assume(BIRTH(ref) == ctx.now)       # a fresh reference: differs from every object that existed before
        ctx.now = ctx.now + 1
        if not hasattr(ctx, "fresh_refs"):
            ctx.fresh_refs = set()
        ctx.fresh_refs.add(ref.sexpr())
        return SV(TRef(cls), ref)

    # ------------------------------------------------------------------ containers
    def symbolise(self, cell, ty=None):
        """turn a concrete container cell into a symbolic one of type ty (identity preserved)"""
        ctx = self.ctx
        if cell.sym is not None:
            return cell.sym.ty
        if ty is None:
            ty = ctx.type_of(cell)
        if ty is None:
            raise Unsupported(f"element type of {cell!r} unknown (declare it in the contract's locals)")
        items = list(cell.conc) if cell.kind == "list" else None
        cell.sym = SV(ty, ctx.term(cell, ty))
        cell.conc = None
        if items is not None and ty.name == "List" and ty.args[0].name in ("Ref", "Int", "Str"):
            # set view of a list with known elements: exactly those elements are members
            m = mem_fn(ty)
            e = z3.Const(ctx.fresh_name("e"), sort_of(ty.args[0]))
            ets = [ctx.term(x, ty.args[0]) for x in items]
            ctx.assume(z3.ForAll([e], m(cell.sym.t, e) == (z3.Or(*[e == t for t in ets]) if ets else z3.BoolVal(False)),
                                 patterns=[m(cell.sym.t, e)]))
            for t in ets:
                ctx.assume(m(cell.sym.t, t))
        return ty

    def unknown_cell(self, kind="list"):
        c = Cell(kind, conc=None, sym=None, fresh=True)
        c.unknown = True
        return c

    def mutate(self, cell, what="mutation"):
        """called before every in-place change of a container: frame accounting"""
        ctx = self.ctx
        if ctx.spec and not getattr(cell, "temp", False):
            raise Unsupported("mutation inside a specification expression")
        if not cell.fresh:
            origin = cell.origin or "non-fresh container"
            if not self.engine.modifies_allows(ctx, origin):
                ctx.oblige("frame", f"{what} of {origin}", z3.BoolVal(False), top=True,
                           info={"frame": origin, "what": what})

    def write_back_unknown(self, cell):
        ctx = self.ctx
        if cell.home is not None:
            key, ref, ty = cell.home
            arr = self.heap_array(key, ty)
            ctx.heap[key] = z3.Store(arr, ref, z3.Const(ctx.fresh_name("unk"), sort_of(ty)))
            self.note_field_write(SV(TRef("?"), ref), key)

    def write_back(self, cell):
        ctx = self.ctx
        if getattr(cell, "unknown", False):
            return self.write_back_unknown(cell)
        if cell.home is not None:
            key, ref, ty = cell.home
            arr = self.heap_array(key, ty)
            ctx.heap[key] = z3.Store(arr, ref, ctx.term(cell, ty))
            self.note_field_write(SV(TRef("?"), ref), key)

    def distinct_count(self, lst, st):
        """len(set(L)) for a symbolic list L: an uninterpreted cardinality with the facts that decide the usual comparisons -
        0 <= n <= len(L); n == len(L) iff the members are pairwise distinct; n == 0 iff L is empty; n == 1 iff L is non-empty and all
        members are equal (all true of the cardinality of the set of members; nothing else is assumed)"""
        ctx = self.ctx
        so = sort_of(lst.ty)
        card = z3.Function("card_" + st.ty.key, sort_of(st.ty), z3.IntSort())
        n = card(st.t)
        ln, data = so.len(lst.t), so.data(lst.t)
        i, j = z3.Int(ctx.fresh_name("i")), z3.Int(ctx.fresh_name("j"))
        distinct = z3.ForAll([i, j], z3.Implies(z3.And(0 <= i, i < j, j < ln), z3.Select(data, i) != z3.Select(data, j)))
        same = z3.ForAll([i], z3.Implies(z3.And(0 <= i, i < ln), z3.Select(data, i) == z3.Select(data, 0)))
        ctx.assume(z3.And(0 <= n, n <= ln, (n == ln) == distinct, (n == 0) == (ln == 0), (n == 1) == z3.And(ln > 0, same)))
        return SV(INT, n)

    def seq_len(self, v):
        ctx = self.ctx
        if getattr(v, "unknown", False):
            return Opaque("len")
        if is_str(v):
            return ctx.strs.length(v)
        if isinstance(v, tuple):
            return len(v)
        if isinstance(v, SV) and v.ty.name == "List":
            return SV(INT, sort_of(v.ty).len(v.t))
        if isinstance(v, Cell):
            if v.sym is None:
                return len(v.conc)
            if v.kind == "list":
                return SV(INT, sort_of(v.sym.ty).len(v.sym.t))
            src = getattr(v, "from_list", None)
            if v.kind == "set" and src is not None and src[1] is v.sym.t:
                return self.distinct_count(src[0], v.sym)
            raise Unsupported("len of symbolic dict/set")
        if isinstance(v, Opaque):
            return Opaque("len")
        if v is None or (isinstance(v, SV) and v.ty.name == "Opt"):
            v2 = ctx.unopt(v, "TypeError", "len(None)")
            return self.seq_len(v2)
        raise Unsupported(f"len of {v!r}")

    def norm_index(self, i, ln, exc="IndexError", label="index"):
        """python index -> z3 Int in [0,len) with the IndexError condition handled"""
        ctx = self.ctx
        it = ctx.term(i, INT)
        lt = ctx.term(ln, INT)
        if ctx.spec and z3.is_const(it) and it.decl().kind() == z3.Z3_OP_UNINTERPRETED:
            return it       # a specification variable used as index denotes a position, never a negative offset
        j = z3.If(it < 0, it + lt, it)
        ctx.may_raise(z3.Or(j < 0, j >= lt), exc, label)
        return z3.simplify(j)

    def list_get(self, cell, i):
        ctx = self.ctx
        if getattr(cell, "unknown", False):
            return Opaque("elem", fresh=cell.fresh)
        if cell.sym is None:
            if isinstance(i, int):
                if -len(cell.conc) <= i < len(cell.conc):
                    return cell.conc[i]
                ctx.may_raise(True, "IndexError", "list-index")
                raise Infeasible()
            self.symbolise(cell)
        ty = cell.sym.ty
        s = sort_of(ty)
        j = self.norm_index(i, SV(INT, s.len(cell.sym.t)), label="list-index")
        return ctx.wrap(z3.Select(s.data(cell.sym.t), j), ty.args[0])

    def list_set(self, cell, i, v):
        ctx = self.ctx
        self.mutate(cell, "item assignment")
        if cell.sym is None and isinstance(i, int) and -len(cell.conc) <= i < len(cell.conc):
            cell.conc[i] = v
        else:
            if cell.sym is None:
                self.symbolise(cell)
            ty = cell.sym.ty
            s = sort_of(ty)
            j = self.norm_index(i, SV(INT, s.len(cell.sym.t)), label="list-assign")
            cell.sym = SV(ty, s.mk(z3.Store(s.data(cell.sym.t), j, ctx.term(v, ty.args[0])), s.len(cell.sym.t)))
        self.write_back(cell)

    def list_append(self, cell, v):
        ctx = self.ctx
        self.mutate(cell, "append")
        if getattr(cell, "unknown", False):
            return
        if cell.sym is None:
            cell.conc.append(v)
        else:
            ty = cell.sym.ty
            s = sort_of(ty)
            t = cell.sym.t
            et = ctx.term(v, ty.args[0])
            cell.sym = SV(ty, s.mk(z3.Store(s.data(t), s.len(t), et), s.len(t) + 1))
            ctx.assume(z3.Select(s.data(cell.sym.t), s.len(t)) == et)      # names the new element (E-matching trigger)
            self.mem_append(ty, t, cell.sym.t, et)
        self.write_back(cell)

    def list_extend(self, cell, other):
        ctx = self.ctx
        self.mutate(cell, "extend")
        if getattr(cell, "unknown", False):
            return
        if isinstance(other, Opaque) or getattr(other, "unknown", False):
            # content no longer known; identity, freshness and origin are kept
            cell.conc, cell.sym = None, None
            cell.unknown = True
            self.write_back_unknown(cell)
            return
        if isinstance(other, tuple):
            other = Cell("list", conc=list(other))
        if not isinstance(other, Cell) or other.kind != "list":
            if isinstance(other, SV) and other.ty.name == "List":
                other = ctx.wrap(other.t, other.ty)
            else:
                other = ctx.unopt(other, "TypeError", "extend-by-None")
                if not isinstance(other, Cell):
                    raise Unsupported(f"extend by {other!r}")
        if cell.sym is None and other.sym is None:
            cell.conc.extend(other.conc)
        elif other.sym is None:
            for e in list(other.conc):
                ty = cell.sym.ty
                s = sort_of(ty)
                t = cell.sym.t
                et = ctx.term(e, ty.args[0])
                cell.sym = SV(ty, s.mk(z3.Store(s.data(t), s.len(t), et), s.len(t) + 1))
                ctx.assume(z3.Select(s.data(cell.sym.t), s.len(t)) == et)  # names the new element (E-matching trigger)
                self.mem_append(ty, t, cell.sym.t, et)
        else:
            ty = other.sym.ty
            if cell.sym is None:
                self.symbolise(cell, ty)
            if cell.sym.ty != ty:
                raise Unsupported("extend with different element type")
            s = sort_of(ty)
            a, b = cell.sym.t, other.sym.t
            r = z3.Const(ctx.fresh_name("ext"), s)
            k = z3.Int(ctx.fresh_name("k"))
            ctx.assume(s.len(r) == s.len(a) + s.len(b))
            ctx.assume(z3.ForAll([k], z3.Implies(z3.And(0 <= k, k < s.len(a)), z3.Select(s.data(r), k) == z3.Select(s.data(a), k)),
                                 patterns=[z3.Select(s.data(r), k)]))
            k2 = z3.Int(ctx.fresh_name("k"))
            ctx.assume(z3.ForAll([k2], z3.Implies(z3.And(0 <= k2, k2 < s.len(b)),
                                                  z3.Select(s.data(r), s.len(a) + k2) == z3.Select(s.data(b), k2)),
                                 patterns=[z3.Select(s.data(b), k2)]))
            cell.sym = SV(ty, r)
            if ty.args[0].name in ("Ref", "Int", "Str"):
                m = mem_fn(ty)
                e = z3.Const(ctx.fresh_name("e"), sort_of(ty.args[0]))
                ctx.assume(z3.ForAll([e], m(r, e) == z3.Or(m(a, e), m(b, e)), patterns=[m(r, e)]))
                ctx.assume(z3.ForAll([e], z3.Implies(z3.Or(m(a, e), m(b, e)), m(r, e)), patterns=[m(a, e)]))
                ctx.assume(z3.ForAll([e], z3.Implies(m(b, e), m(r, e)), patterns=[m(b, e)]))
        self.write_back(cell)

    def mem_append(self, ty, old, new, et):
        if ty.args[0].name not in ("Ref", "Int", "Str"):
            return
        ctx = self.ctx
        m = mem_fn(ty)
        e = z3.Const(ctx.fresh_name("e"), sort_of(ty.args[0]))
        ctx.assume(z3.ForAll([e], m(new, e) == z3.Or(m(old, e), e == et), patterns=[m(new, e)]))
        ctx.assume(z3.ForAll([e], z3.Implies(m(old, e), m(new, e)), patterns=[m(old, e)]))
        ctx.assume(m(new, et))

    def slice_bounds(self, sl, ln):
        """clamped (a, b) as z3 Ints for a python slice without step"""
        ctx = self.ctx
        if sl.step is not None:
            st = self.eval(sl.step)
            if st != 1:
                raise Unsupported("slice step")
        lt = ctx.term(ln, INT)

        def clamp(node, default):
            if node is None:
                return default
            v = self.eval(node)
            if v is None:
                return default
            if isinstance(v, SV) and v.ty.name == "Opt":
                s = sort_of(v.ty)
                x = s.val(v.t)
                inner = z3.If(x < 0, z3.If(x + lt < 0, 0, x + lt), z3.If(x > lt, lt, x))
                return z3.If(s.is_none(v.t), default, inner)
            x = ctx.term(v, INT)
            return z3.If(x < 0, z3.If(x + lt < 0, 0, x + lt), z3.If(x > lt, lt, x))
        a = clamp(sl.lower, z3.IntVal(0))
        b = clamp(sl.upper, lt)
        return z3.simplify(a), z3.simplify(b)

    def e_Subscript(self, n):
        ctx = self.ctx
        v = self.eval(n.value)
        if isinstance(v, Opaque):
            if not isinstance(n.slice, ast.Slice):
                self.eval_tolerant(n.slice)
            return Opaque(v.desc + "[]", fresh=v.fresh)      # an element / view of v: as fresh as v itself
        if v is None or (isinstance(v, SV) and v.ty.name == "Opt"):
            v = ctx.unopt(v, "TypeError", "subscript-on-None")
        if isinstance(n.slice, ast.Slice):
            if isinstance(v, str):
                lo = self.eval(n.slice.lower) if n.slice.lower is not None else None
                hi = self.eval(n.slice.upper) if n.slice.upper is not None else None
                if all(x is None or isinstance(x, int) for x in (lo, hi)) and n.slice.step is None:
                    return v[lo:hi]
            if is_str(v):
                a, b = self.slice_bounds(n.slice, ctx.strs.length(v))
                return ctx.strs.slice(v, a, b)
            if isinstance(v, tuple):
                lo = self.eval(n.slice.lower) if n.slice.lower is not None else None
                hi = self.eval(n.slice.upper) if n.slice.upper is not None else None
                if all(x is None or isinstance(x, int) for x in (lo, hi)):
                    return v[lo:hi]
            if isinstance(v, SV) and v.ty.name == "List":
                v = ctx.wrap(v.t, v.ty)
            if isinstance(v, Cell) and v.kind == "list":
                if v.sym is None:
                    lo = self.eval(n.slice.lower) if n.slice.lower is not None else None
                    hi = self.eval(n.slice.upper) if n.slice.upper is not None else None
                    if all(x is None or isinstance(x, int) for x in (lo, hi)):
                        return Cell("list", conc=v.conc[lo:hi], fresh=True, elem=v.elem)
                    self.symbolise(v)
                ty = v.sym.ty
                s = sort_of(ty)
                a, b = self.slice_bounds(n.slice, SV(INT, s.len(v.sym.t)))
                r = z3.Const(ctx.fresh_name("lsl"), s)
                k = z3.Int(ctx.fresh_name("k"))
                ln = z3.If(b > a, b - a, 0)
                ctx.assume(s.len(r) == ln)
                ctx.assume(z3.ForAll([k], z3.Implies(z3.And(0 <= k, k < ln),
                                                     z3.Select(s.data(r), k) == z3.Select(s.data(v.sym.t), a + k)),
                                     patterns=[z3.Select(s.data(r), k)]))
                return Cell("list", sym=SV(ty, r), fresh=True)
            raise Unsupported(f"slice of {v!r}")
        idx = self.eval(n.slice)
        return self.subscript(v, idx)

    def subscript(self, v, idx):
        ctx = self.ctx
        if isinstance(idx, Opaque):
            return Opaque("subscript")
        if is_str(v):
            if isinstance(v, str) and isinstance(idx, int):
                if -len(v) <= idx < len(v):
                    return v[idx]
                ctx.may_raise(True, "IndexError", "str-index")
                raise Infeasible()
            j = self.norm_index(idx, ctx.strs.length(v), label="str-index")
            return ctx.strs.index(v, j)
        if isinstance(v, tuple):
            if isinstance(idx, int):
                if -len(v) <= idx < len(v):
                    return v[idx]
                ctx.may_raise(True, "IndexError", "tuple-index")
                raise Infeasible()
            raise Unsupported("symbolic index into tuple")
        if isinstance(v, SV) and v.ty.name in ("List", "Map"):
            v = ctx.wrap(v.t, v.ty)
        if isinstance(v, Cell):
            if v.kind == "list":
                return self.list_get(v, idx)
            if v.kind == "dict":
                return self.dict_get(v, idx, raising=True)
        if isinstance(v, SV) and v.ty.name == "Ref":
            if isinstance(idx, str):
                r = self.field_read(v, idx)
                if r is not None:
                    # dict-like object (e.g. an issue): a key that the model declares optional may be absent
                    has = self.field_info(v.ty.args[0].name, "has_" + idx)
                    if has is not None:
                        present = self.field_read(v, "has_" + idx)
                        ctx.may_raise(z3.Not(ctx.term(present, BOOL)), "KeyError", f"['{idx}']")
                    return r
            raise Unsupported(f"subscript on object of {v.ty}")
        raise Unsupported(f"subscript on {v!r}")

    # ---- dicts
    def dict_get(self, cell, key, raising=False, default=None):
        ctx = self.ctx
        if getattr(cell, "unknown", False):
            return Opaque("dict-item", fresh=cell.fresh)
        if cell.sym is None:
            try:
                hk = self._hashable(key)
            except Unsupported:
                hk = None
                if not cell.conc:
                    if raising:
                        ctx.may_raise(True, "KeyError", "dict-key")
                        raise Infeasible()
                    return default
                # symbolic key against concrete keys: chain of ite over equal keys
                res = default
                anyhit = False
                items = list(cell.conc.items())
                conds = [ctx.zbool(ctx.equal(key, k)) for k, _ in items]
                if raising:
                    ctx.may_raise(z3.Not(z3.Or(*conds)), "KeyError", "dict-key")
                    res = items[-1][1]
                    rng = list(zip(conds[:-1], items[:-1]))
                else:
                    rng = list(zip(conds, items))
                for c, (k, val) in reversed(rng):
                    res = self.merge(c, val, res)
                return res
            if hk in cell.conc:
                return cell.conc[hk]
            if raising:
                if ctx.spec:
                    raise Unsupported(f"a specification subscripts a table with the key {hk!r} that is not there: KeyError "
                                      "(fault of the clause, not a dead path)")
                ctx.may_raise(True, "KeyError", f"dict-key {hk!r}")
                raise Infeasible()
            return default
        ty = cell.sym.ty
        s = sort_of(ty)
        if isinstance(key, SV) and key.ty.name == "Opt" and key.ty.args[0] == ty.args[0] and not raising:
            # None is never a key of a map whose keys are of the declared type
            ks = sort_of(key.ty)
            inner = self.dict_get(cell, ctx.wrap(ks.val(key.t), ty.args[0]), raising=False, default=default)
            return self.merge(ks.is_none(key.t), default, inner)
        if key is None and not raising:
            return default
        kt = ctx.term(key, ty.args[0])
        present = z3.Select(s.dom(cell.sym.t), kt)
        val = ctx.wrap(z3.Select(s.val(cell.sym.t), kt), ty.args[1])
        if raising:
            ctx.may_raise(z3.Not(present), "KeyError", "dict-key")
            return val
        return self.merge(present, val, default)

    def dict_set(self, cell, key, v):
        ctx = self.ctx
        self.mutate(cell, "dict item assignment")
        if getattr(cell, "unknown", False):
            return
        if cell.sym is None:
            try:
                cell.conc[self._hashable(key)] = v
                self.write_back(cell)
                return
            except Unsupported:
                try:
                    self.symbolise(cell, self.dict_type_guess(cell, key, v))
                except Unsupported:
                    cell.conc, cell.sym, cell.unknown = None, None, True      # content no longer tracked
                    self.write_back_unknown(cell)
                    return
        if getattr(cell, "unknown", False):
            return
        ty = cell.sym.ty
        s = sort_of(ty)
        kt = ctx.term(key, ty.args[0])
        t = cell.sym.t
        cell.sym = SV(ty, s.mk(z3.Store(s.dom(t), kt, z3.BoolVal(True)), z3.Store(s.val(t), kt, ctx.term(v, ty.args[1]))))
        self.write_back(cell)

    def dict_type_guess(self, cell, key, v):
        kt, vt = self.ctx.type_of(key), self.ctx.type_of(v)
        if kt is None or vt is None:
            raise Unsupported("dict type unknown")
        return TMap(kt, vt)

    def dict_del(self, cell, key):
        ctx = self.ctx
        self.mutate(cell, "del item")
        if cell.sym is None:
            hk = self._hashable(key)
            if hk not in cell.conc:
                ctx.may_raise(True, "KeyError", "del")
                raise Infeasible()
            del cell.conc[hk]
        else:
            ty = cell.sym.ty
            s = sort_of(ty)
            kt = ctx.term(key, ty.args[0])
            t = cell.sym.t
            ctx.may_raise(z3.Not(z3.Select(s.dom(t), kt)), "KeyError", "del")
            cell.sym = SV(ty, s.mk(z3.Store(s.dom(t), kt, z3.BoolVal(False)), s.val(t)))
        self.write_back(cell)

    def set_add(self, cell, v):
        ctx = self.ctx
        self.mutate(cell, "set add")
        if cell.sym is None:
            try:
                cell.conc.add(self._hashable(v))
                self.write_back(cell)
                return
            except Unsupported:
                ty = cell.elem and TSet(cell.elem) or TSet(ctx.type_of(v))
                self.symbolise(cell, ty)
        ty = cell.sym.ty
        cell.sym = SV(ty, z3.Store(cell.sym.t, ctx.term(v, ty.args[0]), z3.BoolVal(True)))
        self.write_back(cell)

    # ------------------------------------------------------------------ attributes
    def e_Attribute(self, n):
        ctx = self.ctx
        v = self.eval(n.value)
        return self.getattr(v, n.attr)

    def getattr(self, v, attr):
        ctx = self.ctx
        if isinstance(v, Opaque):
            return Opaque(f"{v.desc}.{attr}", fresh=v.fresh)
        if isinstance(v, Builtin):
            if v.name.split(".")[0] not in MODULES or v.name.startswith("hed"):
                # attribute of a repository module: a class or a function under contract
                if self.engine.is_exception_class(attr) or self.engine.index.find_class(attr):
                    return ClassRef(attr)
                ct = C.find_function_contract(attr)
                if ct is not None:
                    return ct
            return Builtin(v.name + "." + attr)
        if isinstance(v, ClassRef) and attr == "__new__":
            return lambda interp, args, kwargs: interp.new_object(args[0].name if isinstance(args[0], ClassRef) else v.name)
        if isinstance(v, ClassRef):
            return self.engine.class_attr(self, v, attr)
        if v is None or (isinstance(v, SV) and v.ty.name == "Opt"):
            v = ctx.unopt(v, "AttributeError", f"None.{attr}")
        if isinstance(v, SV) and v.ty.name == "Ref" and attr == "__class__":
            return ClassRef(v.ty.args[0].name)
        if isinstance(v, SV) and v.ty.name == "Ref" and attr == "__dict__":
            from .vals import DictView
            return DictView(v)
        if isinstance(v, SV) and v.ty.name == "Ref":
            r = self.field_read(v, attr)
            if r is not None:
                return r
            if self.engine.is_exception_class(attr):
                return ClassRef(attr)
            cc = self.engine.index.class_constants(v.ty.args[0].name)
            if cc and attr in cc:
                return self.engine.pyvalue(cc[attr])      # class-level constant read through the instance
            kind = self.real_member_kind(v, attr)
            if kind in ("property", "data"):
                # a data attribute / property of the real class that the class model does not list: its value is UNKNOWN to the encoding
                # (treating it as a bound method would make `not obj.attr` silently False); tests on it fork both ways
                self.engine.note_assumption(f"{v.ty.args[0].name}.{attr} is outside the class model: read as an unknown value")
                return Opaque(f"{v.ty.args[0].name}.{attr}")
            return BoundMethod(v, attr)
        if is_str(v) or isinstance(v, (Cell, tuple)) or type(v).__name__ == "DictView":
            return BoundMethod(v, attr)
        if isinstance(v, SV) and v.ty.name in ("List", "Map", "Set"):
            return BoundMethod(ctx.wrap(v.t, v.ty), attr)
        if isinstance(v, ExcValue):
            if attr == "args":
                return tuple(v.args)
            return Opaque("exc." + attr)
        if isinstance(v, (int, float)):
            return BoundMethod(v, attr)
        raise Unsupported(f"attribute {attr} of {v!r}")

    def real_member_kind(self, v, attr):
        """'method' / 'property' / 'data' for an attribute of the real class behind a modelled object, None when the real class is unknown"""
        ctx = self.ctx
        model = v.ty.args[0].name
        real = None
        ct = ctx.contract
        me = ctx.entry_env.get("self") if hasattr(ctx, "entry_env") else None
        if isinstance(me, SV) and me.t.eq(v.t) and "." in ct.func:
            real = ct.func.split(".")[0]
        elif self.engine.index.find_class(model):
            real = model
        if real is None:
            return None
        seen, todo = set(), [real]
        while todo:
            c = todo.pop()
            if c in seen:
                continue
            seen.add(c)
            hit = self.engine.index.find_class(c)
            if not hit:
                if c in ("object", "ABC", "Enum", "Exception", "ValueError", "dict", "list"):
                    continue         # standard bases define none of the repository's attributes
                return None          # a base class outside the repository: unknown
            rel, node = hit
            for st in node.body:
                if isinstance(st, ast.FunctionDef) and st.name == attr:
                    decs = [d.id if isinstance(d, ast.Name) else getattr(d, "attr", "") for d in st.decorator_list]
                    return "property" if ("property" in decs or "setter" in decs) else "method"
            for b in node.bases:
                if isinstance(b, ast.Name):
                    todo.append(b.id)
                elif isinstance(b, ast.Attribute):
                    return None
        return "data"

    # ------------------------------------------------------------------ comprehensions
    def e_GeneratorExp(self, n):
        return ("genexp", n, self.env)

    def e_ListComp(self, n):
        return self.comprehension(n, "list")

    def e_SetComp(self, n):
        return self.comprehension(n, "set")

    def e_DictComp(self, n):
        if self.ctx.spec:
            raise Unsupported("dict comprehension in a specification")
        try:
            return self.symbolic_dict_comprehension(n)
        except Unsupported:
            pass
        for g in n.generators:
            self.eval_tolerant(g.iter)
        return self.unknown_cell("dict")

    def symbolic_dict_comprehension(self, n):
        """{key(x): val(x) for x in L} over a symbolic list, one generator, no filter - the exact meaning: the keys are the key(x) of the
        members; a key maps to val of the LAST member carrying it"""
        ctx = self.ctx
        if len(n.generators) != 1 or n.generators[0].ifs:
            raise Unsupported("dict comprehension shape")
        g = n.generators[0]
        it = self.eval(g.iter)
        if self.iter_items_concrete(it) is not None or isinstance(it, Opaque) or getattr(it, "unknown", False):
            raise Unsupported("dict comprehension over a concrete / unknown iterable")
        src_len, elem_at = self.iter_model(it)
        n_src = ctx.term(src_len, INT)

        def at(idx):
            self.push_scope()
            bound = [c for c in _index_consts(idx)]
            ctx.bound_vars = getattr(ctx, "bound_vars", []) + bound
            try:
                self.bind(g.target, elem_at(idx))
                saved = ctx.spec
                ctx.spec = True
                try:
                    return self.eval(n.key), self.eval(n.value)
                finally:
                    ctx.spec = saved
            finally:
                ctx.bound_vars = ctx.bound_vars[:len(ctx.bound_vars) - len(bound)]
                self.pop_scope()
        k, j = z3.Int(ctx.fresh_name("k")), z3.Int(ctx.fresh_name("j"))
        key_k, val_k = at(k)
        key_j, _ = at(j)
        kty, vty = ctx.type_of(key_k), ctx.type_of(val_k)
        if kty is None or vty is None:
            raise Unsupported("dict comprehension element types")
        mty = TMap(kty, vty)
        so = sort_of(mty)
        m = z3.Const(ctx.fresh_name("dcomp"), so)
        kk = z3.Const(ctx.fresh_name("key"), sort_of(kty))
        tk, tj, tv = ctx.term(key_k, kty), ctx.term(key_j, kty), ctx.term(val_k, vty)
        ctx.assume(z3.ForAll([kk], z3.Select(so.dom(m), kk) == z3.Exists([k], z3.And(0 <= k, k < n_src, tk == kk))))
        ctx.assume(z3.ForAll([k], z3.Implies(z3.And(0 <= k, k < n_src), z3.Select(so.dom(m), tk))))
        ctx.assume(z3.ForAll([k], z3.Implies(z3.And(0 <= k, k < n_src,
                                                    z3.ForAll([j], z3.Implies(z3.And(k < j, j < n_src), tj != tk))),
                                             z3.Select(so.val(m), tk) == tv)))
        return Cell("dict", sym=SV(mty, m), fresh=True)

    def iter_items_concrete(self, it):
        """python list of items if the iterable is concrete, else None"""
        if getattr(it, "unknown", False):
            return None
        if isinstance(it, (tuple, list)):
            return list(it)
        if isinstance(it, str):
            return list(it)
        if isinstance(it, (set, frozenset)):
            return sorted(it, key=repr)
        if isinstance(it, Cell) and it.sym is None:
            if it.kind == "dict":
                return list(it.conc.keys())
            if it.kind == "set":
                return sorted(it.conc, key=repr)
            return list(it.conc)
        if isinstance(it, tuple) and it and it[0] == "range":
            return None
        if isinstance(it, RangeV) and all(isinstance(x, int) for x in (it.a, it.b, it.step)):
            return list(range(it.a, it.b, it.step))
        return None

    def comprehension(self, n, kind):
        try:
            return self.comprehension_(n, kind)
        except Unsupported:
            if self.ctx.spec:
                raise
            # the comprehension's value is outside the encoding: a fresh container of unknown content
            return self.unknown_cell("set" if kind == "set" else "list")

    def comprehension_(self, n, kind):
        ctx = self.ctx
        if len(n.generators) != 1:
            return self.comprehension_nested(n, kind)
        g = n.generators[0]
        it = self.eval(g.iter)
        items = self.iter_items_concrete(it)
        if items is not None:
            out = []
            for x in items:
                self.push_scope()
                try:
                    self.bind(g.target, x)
                    ok = True
                    for cond in g.ifs:
                        t = ctx.truth(self.eval(cond))
                        if isinstance(t, bool):
                            if not t:
                                ok = False
                                break
                        else:
                            if not ctx.decide(t, "comp-if"):
                                ok = False
                                break
                    if ok:
                        out.append(self.eval(n.elt))
                finally:
                    self.pop_scope()
            if kind == "set":
                return Cell("set", conc=set(self._hashable(o) for o in out), fresh=True)
            return Cell("list", conc=out, fresh=True)
        if isinstance(it, Opaque) or getattr(it, "unknown", False):
            return self.unknown_cell("set" if kind == "set" else "list")
        # a pure map `[elt(x) for x in L]` (no filter) evaluated twice over the same list in the same heap state is the same value:
        # code and contract may both write it, and list-valued functions (join ...) need to see one term
        key = None
        if kind == "list" and not g.ifs and isinstance(g.target, ast.Name) and isinstance(it, (Cell, SV)):
            src = it.sym if isinstance(it, Cell) else it
            if src is not None and getattr(src, "ty", None) is not None and src.ty.name == "List":
                class _Ren(ast.NodeTransformer):
                    def visit_Name(self_, node):
                        return ast.copy_location(ast.Name(id="_x" if node.id == g.target.id else node.id, ctx=node.ctx), node)
                import copy as _copy
                norm = ast.dump(_Ren().visit(_copy.deepcopy(n.elt)))
                free = sorted({m.id for m in ast.walk(n.elt) if isinstance(m, ast.Name) and m.id != g.target.id})
                if not free:      # depends on the element (and the heap) only
                    attrs = {m.attr for m in ast.walk(n.elt) if isinstance(m, ast.Attribute)}
                    heap_fp = []
                    for cname, model in C.CLASSES.items():
                        for fld in model["fields"]:
                            if fld in attrs:
                                hk = f"{cname}.{fld}"
                                cur = ctx.heap.get(hk)
                                init = ctx.heap0.get(hk, (None,))[0]
                                heap_fp.append((hk, "H0" if cur is None or (init is not None and cur.eq(init)) else cur.sexpr()))
                    heap_fp = tuple(sorted(heap_fp))     # the state of exactly the fields the element expression reads
                    key = (norm, src.t.get_id(), heap_fp)
                    cache = ctx.__dict__.setdefault("_map_cache", {})
                    if key in cache:
                        hit = cache[key]
                        return Cell("list", sym=hit, fresh=True, elem=None)
        res = self.symbolic_comprehension(n, g, it, kind)
        if key is not None and isinstance(res, Cell) and res.sym is not None:
            ctx.__dict__.setdefault("_map_cache", {})[key] = res.sym
        return res

    def comprehension_nested(self, n, kind):
        raise Unsupported("nested comprehension over symbolic iterables")

    def symbolic_comprehension(self, n, g, it, kind):
        """[elt(x) for x in xs if cond(x)] over a symbolic list/range: the filter/map axiomatisation
        (strictly increasing index map f, its inverse g on the selected indices)."""
        ctx = self.ctx
        if kind != "list":
            raise Unsupported("symbolic set comprehension")
        src_len, elem_at = self.iter_model(it)
        k = z3.Int(ctx.fresh_name("j"))
        i = z3.Int(ctx.fresh_name("i"))
        f = z3.Function(ctx.fresh_name("cf"), z3.IntSort(), z3.IntSort())
        ginv = z3.Function(ctx.fresh_name("cg"), z3.IntSort(), z3.IntSort())

        def body_at(idx):
            self.push_scope()
            bound = [c for c in _index_consts(idx)]
            ctx.bound_vars = getattr(ctx, "bound_vars", []) + bound
            try:
                self.bind(g.target, elem_at(idx))
                saved = ctx.spec
                ctx.spec = True      # element expressions are evaluated totally inside the quantifier
                try:
                    conds = [ctx.zbool(ctx.truth(self.eval(c))) for c in g.ifs]
                    val = self.eval(n.elt)
                finally:
                    ctx.spec = saved
                return (z3.And(*conds) if conds else z3.BoolVal(True)), val
            finally:
                ctx.bound_vars = ctx.bound_vars[:len(ctx.bound_vars) - len(bound)]
                self.pop_scope()
        c_j, v_j = body_at(f(k))
        ety = ctx.type_of(v_j)
        exp = getattr(self, "_expected_ty", None)
        if ety is None and exp is not None and exp.name == "List" and isinstance(v_j, Cell) and v_j.sym is None and not v_j.conc:
            ety = exp.args[0]          # `[[] for _ in ...]`: the element is an empty container of the declared type
        if ety is None and exp is not None and exp.name == "List" and v_j is None and exp.args[0].name == "Opt":
            ety = exp.args[0]          # `[None for _ in ...]` with a declared Optional element type
        if ety is None:
            raise Unsupported("comprehension element type")
        lty = TList(ety)
        s = sort_of(lty)
        r = z3.Const(ctx.fresh_name("comp"), s)
        n_src = ctx.term(src_len, INT)
        ctx.assume(s.len(r) >= 0)
        ctx.assume(s.len(r) <= n_src)
        if not g.ifs:
            ctx.assume(s.len(r) == n_src)
            c_k, v_k = body_at(k)
            pats = [z3.Select(s.data(r), k)]
            src0 = it.sym if isinstance(it, Cell) else it
            if isinstance(src0, SV) and src0.ty.name == "List" and not _has_ite(src0.t):
                # also instantiate from the source side: a fact about member k of the source says something about member k of the map
                pats.append(z3.Select(sort_of(src0.ty).data(src0.t), k))
            ctx.assume(z3.ForAll([k], z3.Implies(z3.And(0 <= k, k < n_src), z3.Select(s.data(r), k) == ctx.term(v_k, ety)),
                                 patterns=pats))
        else:
            ctx.assume(z3.ForAll([k], z3.Implies(z3.And(0 <= k, k < s.len(r)),
                                                 z3.And(0 <= f(k), f(k) < n_src, c_j,
                                                        z3.Select(s.data(r), k) == ctx.term(v_j, ety))),
                                 patterns=[z3.Select(s.data(r), k)]))
            k2 = z3.Int(ctx.fresh_name("j"))
            ctx.assume(z3.ForAll([k, k2], z3.Implies(z3.And(0 <= k, k < k2, k2 < s.len(r)), f(k) < f(k2)),
                                 patterns=[z3.MultiPattern(f(k), f(k2))]))
            c_i, _ = body_at(i)
            ctx.assume(z3.ForAll([i], z3.Implies(z3.And(0 <= i, i < n_src, c_i),
                                                 z3.And(0 <= ginv(i), ginv(i) < s.len(r), f(ginv(i)) == i)),
                                 patterns=[ginv(i)]))
            ctx.comp_inverse = getattr(ctx, "comp_inverse", [])
            ctx.comp_inverse.append(ginv)
        # set view: for [x for x in xs if cond(x)] the members are exactly the members of xs that satisfy cond
        if isinstance(n.elt, ast.Name) and isinstance(g.target, ast.Name) and n.elt.id == g.target.id \
                and isinstance(it, Cell) and it.sym is not None and it.sym.ty == lty and ety.name in ("Ref", "Int", "Str"):
            m = mem_fn(lty)
            e = z3.Const(ctx.fresh_name("e"), sort_of(ety))
            self.push_scope()
            try:
                self.bind(g.target, ctx.wrap(e, ety))
                saved = ctx.spec
                ctx.spec = True
                try:
                    conds = [ctx.zbool(ctx.truth(self.eval(c))) for c in g.ifs]
                finally:
                    ctx.spec = saved
            finally:
                self.pop_scope()
            cond = z3.And(*conds) if conds else z3.BoolVal(True)
            ctx.assume(z3.ForAll([e], m(r, e) == z3.And(m(it.sym.t, e), cond), patterns=[m(r, e)]))
            ctx.assume(z3.ForAll([e], z3.Implies(z3.And(m(it.sym.t, e), cond), m(r, e)), patterns=[m(it.sym.t, e)]))
        return Cell("list", sym=SV(lty, r), fresh=True)

    def iter_model(self, it):
        """(length value, elem_at(z3 Int)->value) of a symbolic iterable"""
        ctx = self.ctx
        if isinstance(it, SV) and it.ty.name == "List":
            it = ctx.wrap(it.t, it.ty)
        if isinstance(it, Cell) and it.kind == "list":
            if it.sym is None:
                self.symbolise(it)
            ty = it.sym.ty
            s = sort_of(ty)
            t = it.sym.t
            return SV(INT, s.len(t)), (lambda idx: ctx.wrap(z3.Select(s.data(t), idx), ty.args[0]))
        if isinstance(it, RangeV):
            if it.step != 1:
                raise Unsupported("range step")
            a, b = ctx.term(it.a, INT), ctx.term(it.b, INT)
            return SV(INT, z3.If(b > a, b - a, 0)), (lambda idx: SV(INT, a + idx))
        if is_str(it):
            return ctx.strs.length(it), (lambda idx: ctx.strs.index(it, idx))
        if isinstance(it, ProjV):
            ln, at = self.iter_model(it.inner)
            return ln, (lambda idx: at(idx)[it.index])
        if isinstance(it, Cell) and it.kind == "dict" and it.sym is not None:
            return self.iter_model(self.engine.dict_view(self, it, "keys"))
        if isinstance(it, EnumV):
            ln, at = self.iter_model(it.inner)
            st = ctx.term(it.start, INT)
            return ln, (lambda idx: (SV(INT, st + idx), at(idx)))
        if isinstance(it, ZipV):
            models = [self.iter_model(x) for x in it.parts]
            lens = [ctx.term(m[0], INT) for m in models]
            mn = lens[0]
            for l in lens[1:]:
                mn = z3.If(l < mn, l, mn)
            return SV(INT, mn), (lambda idx: tuple(m[1](idx) for m in models))
        raise Unsupported(f"iteration over {it!r}")


class RangeV:
    def __init__(self, a, b, step=1):
        self.a, self.b, self.step = a, b, step


class EnumV:
    def __init__(self, inner, start=0):
        self.inner, self.start = inner, start


class ZipV:
    def __init__(self, parts):
        self.parts = parts


class ProjV:
    """component `index` of every tuple of an iterable (dict.keys()/values() views)"""
    def __init__(self, inner, index):
        self.inner, self.index = inner, index
