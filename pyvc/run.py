"""Run contracts: symbolic execution + solving, one process per contract."""
import glob
import importlib
import importlib.util
import json
import os
import sys
import time
import traceback
from concurrent.futures import ProcessPoolExecutor, as_completed

from . import VERIF, REPO
from . import contract as C


def load_all():
    sys.path.insert(0, VERIF)
    for path in sorted(glob.glob(os.path.join(VERIF, "contracts", "*.py"))):
        name = os.path.basename(path)[:-3]
        if name != "__init__":
            importlib.import_module("contracts." + name)
    # contract files under development outside /verif/contracts (PYVC_EXTRA=<file>[:<file>...]) - so that an unfinished file never breaks
    # the loading of the registered ones; registered contracts are only those in /verif/contracts
    for path in filter(None, os.environ.get("PYVC_EXTRA", "").split(os.pathsep)):
        name = "contracts." + os.path.basename(path)[:-3]
        if name not in sys.modules:
            spec = importlib.util.spec_from_file_location(name, path)
            mod = importlib.util.module_from_spec(spec)
            sys.modules[name] = mod
            spec.loader.exec_module(mod)
    from . import contract as _C
    _C.apply_bounded_registry()
    _C.apply_discharges()


def make_engine(timeout_ms=10000):
    from .engine import Engine
    eng = Engine(timeout_ms=timeout_ms)
    for path in sorted(glob.glob(os.path.join(VERIF, "spec", "*.py"))):
        if not path.endswith("__init__.py"):
            eng.load_spec_source(open(path).read(), path)
    return eng


def model_inputs(eng, ct, ob):
    """extract parameter values from a z3 model (best effort)"""
    import z3
    from .vals import alen, aat, ASTR_SORT
    m = ob.model
    out = {}
    if m is None:
        return out
    for d in m.decls():
        name = d.name()
        if not name.startswith("p_"):
            continue
        try:
            v = m[d]
            if d.range() == ASTR_SORT:
                c = d()
                n = m.eval(alen(c), model_completion=True).as_long()
                chars = []
                for k in range(min(n, 200)):
                    code = m.eval(aat(c, k), model_completion=True).as_long()
                    chars.append(chr(code) if 0 <= code < 0x110000 else "?")
                out[name[2:]] = "".join(chars)
            elif z3.is_int_value(v):
                out[name[2:]] = v.as_long()
            elif z3.is_string_value(v):
                out[name[2:]] = v.as_string()
            elif z3.is_true(v) or z3.is_false(v):
                out[name[2:]] = z3.is_true(v)
            else:
                out[name[2:]] = str(v)[:300]
        except Exception as e:   # model printing must never break a run
            out[name[2:]] = f"<{type(e).__name__}>"
    return out


def verify_one(cid, timeout_ms=10000):
    t0 = time.time()
    try:
        load_all()
        eng = make_engine(timeout_ms)
        ct = C.CONTRACTS[cid]
        if ct.func == "<error-table>":
            return verify_table(eng, ct, t0)
        if ct.func == "<regex-data>":
            return verify_regex(eng, ct, t0)
        res = eng.verify(ct)
        obs = []
        for ob in res["obligations"]:
            eng.solve(ob)
            d = {"id": ob.oid, "kind": ob.kind, "label": ob.label, "path": ob.path, "verdict": ob.verdict,
                 "backend": ob.backend, "ms": ob.ms, "top": ob.top, "detail": ob.detail, "info": ob.info}
            if ob.verdict == "sat" and ob.kind != "canary":
                d["model"] = model_inputs(eng, ct, ob)
            obs.append(d)
        mod, cls, fn = eng.find_function(ct)
        sha = eng.index.source_hash(mod, fn)
        for callee, how in sorted(eng.calls.get(cid, ())):       # inlined callees are part of the verified text
            if how == "inline":
                m2, c2, f2 = eng.find_function(C.CONTRACTS[callee])
                sha += "+" + eng.index.source_hash(m2, f2)
        return {"cid": cid, "ok": True, "obligations": obs, "paths": res["paths"], "dead": res["dead"],
                "symex_s": round(res["symex_s"], 3), "wall_s": round(time.time() - t0, 3),
                "sha": sha, "assumptions": sorted(eng.assumptions),
                "bounded": sorted(eng.bounded_notes),
                "calls": {k: sorted(v) for k, v in eng.calls.items()}}
    except Exception as e:
        return {"cid": cid, "ok": False, "error": f"{type(e).__name__}: {e}", "trace": traceback.format_exc(),
                "wall_s": round(time.time() - t0, 3)}


def verify_table(eng, ct, t0):
    """finite lemma decided by evaluation: the mechanically extracted decorator table (internal kind -> published code,
    severity) against the expected table written from the property / HED specification"""
    import hashlib
    tab = eng.errtab
    CODE = {k: v["code"] for k, v in tab.items()}
    SEV = {k: v["severity"] for k, v in tab.items()}
    K = {}
    for cname in ("ValidationErrors", "SchemaErrors", "SchemaWarnings", "SchemaAttributeErrors", "SidecarErrors", "ColumnErrors",
                  "DefinitionErrors", "TemporalErrors"):
        K.update({k: v for k, v in (eng.index.class_constants(cname) or {}).items() if isinstance(v, str)})
    obs = []
    for lbl, e in ct.ensures.items():
        try:
            ok = bool(eval(e, {"CODE": CODE, "SEV": SEV, "ERROR": 1, "WARNING": 10, "K": K}))
            detail = ""
        except Exception as ex:
            ok, detail = False, f"{type(ex).__name__}: {ex}"
        obs.append({"id": f"{ct.cid}:lemma:{lbl}", "kind": "lemma", "label": lbl, "path": "-", "verdict": "unsat" if ok else "sat",
                    "backend": "evaluation of the extracted table", "ms": 0, "top": True, "detail": detail, "info": {"clause": e},
                    "model": {} if ok else {"table": {k: CODE.get(k) for k in sorted(CODE) if k in e}}})
    sha = hashlib.sha256(json.dumps([CODE, SEV], sort_keys=True).encode()).hexdigest()[:16]
    return {"cid": ct.cid, "ok": True, "obligations": obs, "paths": 1, "dead": 0, "symex_s": 0.0,
            "wall_s": round(time.time() - t0, 3), "sha": sha, "assumptions": [], "bounded": [], "calls": {}}


def verify_regex(eng, ct, t0):
    """data obligation: the language of a pattern stored in a JSON file of the repository (read on every run) equals the language of the
    grammar the contract states - decided by z3's regular-expression theory; a counterexample is a text on which the two differ and is
    replayed with python's own `re` on the pattern as read from the file"""
    import hashlib, re as _re
    from .regexlang import equivalent
    from .vals import Unsupported
    path = os.path.join(os.environ.get("HED_REPO", "/repo"), ct.file)
    raw = open(path, encoding="utf-8").read()
    node = json.loads(raw)
    for k in ct.ghost["json_path"]:
        node = node[k]
    pattern = node
    obs = []
    for lbl, spec in ct.ensures.items():
        t1 = time.time()
        model, detail = None, ""
        try:
            verdict, text = equivalent(pattern, spec)
            if verdict == "sat":
                text = _re.sub(r"\\u\{([0-9a-fA-F]+)\}", lambda m: chr(int(m.group(1), 16)), text)
                in_file, in_spec = _re.match(pattern, text) is not None, _re.match(spec, text) is not None
                model = {"text": text, "pattern_in_file": pattern, "file_pattern_accepts": in_file, "stated_grammar_accepts": in_spec,
                         "replayed": in_file != in_spec}
                detail = f"re.match differs on {text!r}: file pattern {in_file}, stated grammar {in_spec}"
            elif verdict == "unknown":
                detail = str(text)
        except Unsupported as u:
            verdict, detail = "undecided", str(u)
        obs.append({"id": f"{ct.cid}:ensures:{lbl}", "kind": "ensures", "label": lbl, "path": "-", "verdict": verdict,
                    "backend": "z3-regex", "ms": int((time.time() - t1) * 1000), "top": True, "detail": detail,
                    "info": {"clause": f"L({'.'.join(ct.ghost['json_path'])} in {ct.file}) == L({spec})"}, "model": model})
    sha = hashlib.sha256(pattern.encode()).hexdigest()[:16]
    return {"cid": ct.cid, "ok": True, "obligations": obs, "paths": 1, "dead": 0, "symex_s": 0.0,
            "wall_s": round(time.time() - t0, 3), "sha": sha,
            "assumptions": ["python's re and z3's regular expressions agree on the supported constructs; categories (\\d ...) follow the "
                            "running python's unicodedata on both sides of the equivalence"], "bounded": [], "calls": {}}


def _resource_verdict(cid, why, wall):
    """a contract whose verification ran out of its time / memory budget is *undecided* (exit 2), never a verdict on the code"""
    ob = {"id": f"{cid}:unsupported:resource-budget", "kind": "unsupported", "label": "resource-budget", "path": "-", "verdict": "undecided",
          "backend": None, "ms": int(wall * 1000), "top": False, "detail": why, "info": {"why": why}}
    sha = None
    try:
        from .engine import Engine
        eng = Engine(timeout_ms=1000)
        mod, cls, fn = eng.find_function(C.CONTRACTS[cid])
        sha = eng.index.source_hash(mod, fn)
    except Exception:
        pass
    return {"cid": cid, "ok": True, "obligations": [ob], "paths": 0, "dead": 0, "symex_s": 0.0, "wall_s": round(wall, 3), "sha": sha,
            "assumptions": [], "bounded": [], "calls": {}}


def _child(cid, timeout_ms, conn, mem_bytes):
    try:
        import resource
        resource.setrlimit(resource.RLIMIT_AS, (mem_bytes, mem_bytes))
    except Exception:
        pass
    try:
        res = verify_one(cid, timeout_ms)
    except MemoryError:
        res = _resource_verdict(cid, "memory budget exhausted", 0.0)
    except BaseException as e:       # never let a worker die silently
        res = {"cid": cid, "ok": False, "error": f"worker: {type(e).__name__}: {e}"}
    try:
        conn.send(res)
    except Exception as e:
        conn.send({"cid": cid, "ok": False, "error": f"worker result not transferable: {type(e).__name__}: {e}"})
    conn.close()


def verify_many(cids, timeout_ms=10000, workers=None, wall_budget_s=None, mem_gb=6):
    """one forked process per contract (at most `workers` at a time), each with its own wall-clock and address-space budget:
    a contract that hangs, explodes or crashes on changed code is reported as undecided and cannot take the others down"""
    import multiprocessing as mp
    ctxm = mp.get_context("fork")
    workers = workers or min(16, max(1, len(cids)))
    wall_budget_s = wall_budget_s or max(300, 30 * timeout_ms / 1000)
    pending = list(cids)
    running = {}
    out = {}
    while pending or running:
        while pending and len(running) < workers:
            cid = pending.pop(0)
            parent, child = ctxm.Pipe(duplex=False)
            p = ctxm.Process(target=_child, args=(cid, timeout_ms, child, int(mem_gb * 2 ** 30)), daemon=True)
            p.start()
            child.close()
            running[cid] = (p, parent, time.time())
        done = []
        for cid, (p, conn, t0) in running.items():
            if conn.poll(0.02):
                try:
                    out[cid] = conn.recv()
                except EOFError:
                    out[cid] = _resource_verdict(cid, "worker ended without a result (crash or memory budget)", time.time() - t0)
                done.append(cid)
            elif not p.is_alive():
                out[cid] = _resource_verdict(cid, f"worker ended without a result (exit code {p.exitcode}: crash or memory budget)",
                                             time.time() - t0)
                done.append(cid)
            elif time.time() - t0 > wall_budget_s:
                p.terminate()
                out[cid] = _resource_verdict(cid, f"wall-clock budget of {int(wall_budget_s)} s exhausted", time.time() - t0)
                done.append(cid)
        for cid in done:
            p, conn, _ = running.pop(cid)
            p.join(timeout=2)
            if p.is_alive():
                p.kill()
            conn.close()
        if not done:
            time.sleep(0.05)
    return out


def summarize(res):
    lines = []
    if not res.get("ok"):
        return [f"{res['cid']}: ENGINE ERROR {res.get('error')}", res.get("trace", "")]
    by = {}
    for ob in res["obligations"]:
        by.setdefault((ob["id"]), []).append(ob)
    lines.append(f"{res['cid']}: paths={res['paths']} dead={res['dead']} symex={res['symex_s']}s wall={res['wall_s']}s")
    for oid, obs in by.items():
        vs = [o["verdict"] for o in obs]
        kind = obs[0]["kind"]
        if kind == "canary":
            n_sat = vs.count("sat")
            lines.append(f"   canary: {n_sat}/{len(vs)} paths reachable")
            continue
        ok = all(v == "unsat" for v in vs)
        ms = sum(o["ms"] for o in obs)
        lines.append(f"   {'OK ' if ok else 'FAIL'} {oid}  [{len(obs)} path(s), {ms} ms] {'' if ok else vs}")
        if not ok:
            for o in [o for o in obs if o["verdict"] != "unsat"][:3]:
                if o["verdict"] != "unsat":
                    lines.append(f"        path {o['path']}: {o['verdict']} {o.get('detail','')} model={o.get('model')}")
    return lines


if __name__ == "__main__":
    load_all()
    cids = sys.argv[1:] or sorted(C.CONTRACTS)
    sel = [c for c in sorted(C.CONTRACTS) if any(c.startswith(a) for a in cids)]
    if len(sel) == 1:
        results = {sel[0]: verify_one(sel[0])}
    else:
        results = verify_many(sel)
    for cid in sel:
        print("\n".join(summarize(results[cid])))
