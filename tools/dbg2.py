import sys, time, z3
sys.path.insert(0, "/verif")
from pyvc.run import *
load_all(); cid, sub, path = sys.argv[1], sys.argv[2], sys.argv[3]
eng = make_engine(10000)
res = eng.verify(C.CONTRACTS[cid])
for ob in res["obligations"]:
    if sub in ob.oid and ob.path == path:
        for opts in ({}, {"smt.mbqi": False, "auto_config": False}, {"smt.mbqi": False, "auto_config": False, "smt.ematching": True, "smt.qi.eager_threshold": 100}):
            s = z3.Solver(); s.set("timeout", 10000)
            for k, v in opts.items(): s.set(k, v)
            s.add(*ob.assumptions); s.add(z3.Not(ob.goal)); s.add(*eng.unfold_axioms(list(ob.assumptions)+[ob.goal]))
            t = time.time(); r = s.check(); print(opts, r, round(time.time()-t, 2), flush=True)
        open("/tmp/q.smt2", "w").write(s.to_smt2())
        print("goal:", ob.goal)
        print("n assumptions", len(ob.assumptions))
        break
