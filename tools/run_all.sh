#!/bin/bash
# run every registered quick check in sequence; print one line per property
cd /verif
tier=${1:-quick}
for n in 01 02 03 04 05 06 07 08 09 10 11 12 13 14 15 16 17 18 19 20; do
  s=$(date +%s)
  out=$(python3-vt checks/check.py C$n --tier $tier 2>&1); rc=$?; out=$(echo "$out" | grep -v WARNING)
  echo "C$n exit=$rc $(( $(date +%s) - s ))s :: $(echo "$out" | tail -1 | cut -c1-150)"
  echo "$out" | grep -E "^(VIOLATION|UNDECIDED|CHECKER-FAULT)" | head -5
done
