#!/usr/bin/env python3-vt
"""Record, for the pinned tree, which obligations are discharged and the source hash of every function under contract."""
import json, os, sys
sys.path.insert(0, os.path.dirname(os.path.dirname(os.path.abspath(__file__))))
from pyvc import contract as C
from pyvc.run import load_all, verify_many
load_all()
DRY = "--dry" in sys.argv          # --dry: verify and print, do not rewrite the baseline file
props = [a for a in sys.argv[1:] if a != "--dry"]
path = os.path.join(os.path.dirname(os.path.dirname(os.path.abspath(__file__))), "baseline", "obligations.json")
base = json.load(open(path)) if os.path.exists(path) else {}
cids = sorted(c for c, ct in C.CONTRACTS.items() if not ct.trusted and (not props or ct.prop in props or set(props) & set(ct.also)))
res = verify_many(cids, timeout_ms=30000)
allprops = sorted({C.CONTRACTS[c].prop for c in cids} | {p for c in cids for p in C.CONTRACTS[c].also})
for prop in allprops:
    if props and prop not in props:
        continue
    clauses, sha = {}, {}
    for cid in cids:
        if C.CONTRACTS[cid].prop != prop and prop not in C.CONTRACTS[cid].also:
            continue
        r = res[cid]
        if not r.get("ok"):
            print("ENGINE ERROR", cid, r.get("error")); continue
        sha[cid] = r["sha"]
        for o in r["obligations"]:
            if o["kind"] == "canary":
                continue
            clauses.setdefault(o["id"], []).append(o["verdict"])
    good = sorted(k for k, v in clauses.items() if all(x == "unsat" for x in v))
    bad = sorted(k for k, v in clauses.items() if not all(x == "unsat" for x in v))
    base[prop] = {"clauses": good, "sha": sha}
    print(prop, len(good), "discharged", len(bad), "NOT discharged", bad[:5])
if not DRY:
    os.makedirs(os.path.dirname(path), exist_ok=True)
    json.dump(base, open(path, "w"), indent=1)
