import sys, time, z3
sys.path.insert(0, "/verif")
from pyvc.run import *
load_all(); cid, sub, path = sys.argv[1], sys.argv[2], sys.argv[3]
eng = make_engine(10000)
res = eng.verify(C.CONTRACTS[cid])
def conj(g):
    if z3.is_and(g): 
        out=[]
        for c in g.children(): out+=conj(c)
        return out
    if z3.is_implies(g):
        return [z3.Implies(g.arg(0), c) for c in conj(g.arg(1))]
    return [g]
for ob in res["obligations"]:
    if sub in ob.oid and ob.path == path:
        for c in conj(ob.goal):
            s = z3.Solver(); s.set("timeout", 5000)
            s.add(*ob.assumptions); s.add(z3.Not(c)); s.add(*eng.unfold_axioms(list(ob.assumptions)+[ob.goal]))
            t = time.time(); r = s.check(); print(r, round(time.time()-t, 2), str(c)[:400].replace("\n"," "), flush=True)
        break
