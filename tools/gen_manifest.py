#!/usr/bin/env python3
"""Regenerates /verif/MANIFEST.json from the table below (run after adding a property's check)."""
import json
import os
import subprocess

VERIF = os.path.dirname(os.path.dirname(os.path.abspath(__file__)))

TECH = ("contract-based deductive verification: sidecar pre/postconditions, loop invariants and lemmas on the real "
        "functions of /repo, VCs generated from their AST by /verif/pyvc and discharged by z3/cvc5 (iteration-independence clauses by a "
        "def-before-use analysis of the real loop bodies); "
        "bounded runtime-contract workload as labelled stand-in for the parts outside the verifier's reach")

# property -> (category, text, note)
BND = " Bounded parts are labelled bounded in the evidence and never counted as proved."
READY = {
 "C01": ("proof", 'Rule layer under contract: per-tag rules (exists/extension incl. every extension term, requireChild, deprecated, placeholder, forbidden characters, value text always judged by the unit / value-class / character rule) proved as iff-clauses over an abstract view of the resolved node (so for every schema); orchestration of validate() and run_basic_checks() proved (order, early exits, nothing dropped, errors-only filter); delimiter scan proved iff well-formed; parenthesis balance proved against balanced(); definition scope by identity; tags and temporal groups judged independently of their siblings (dataflow obligations); kind->published-code table proved by evaluation of the extracted decorator table. Whole-string verdicts over the real schemas (valid => no error, one fault => its code): bounded workload.' + BND,
         'abstract HedTag model (has_attr/base_has_attr uninterpreted; cross-checked on real tags by the bounded contract searches), trusted callee contracts named in evidence.trusted_base, regex engine, format_error dispatch modelled from the decorator table (the tag-error wrappers themselves are under contract)'),
 "C02": ("proof", "Tokenizer HedString.split_hed_string proved for all strings (tiling, span characters, maximal trimmed runs) with an "
         "inductive invariant; parenthesis-mismatch reporting proved against balanced(). Tree construction (split_into_groups) and the "
         "print/re-parse round trip: bounded, exhaustive over all strings up to length 6/8 over the delimiter alphabet." + BND,
         "array encoding of strings (code points); `is` on 1-char strings as ==; HedGroup.__init__ under contract (adopts its contents, y_w11); HedTag constructor not verified (bounded only)"),
 "C03": ("proof", "Left-to-right resolution (_find_tag_entry/_find_tag_subfunction/_validate_remaining_terms) and suffix-form registration (_get_tag_forms) proved against the abstract view tag_view: deepest known boundary prefix, remainder verbatim, '#' child switch, every extension term checked; prefix extraction; a tag is identified with the schema handed in. Canonical-form round trips over every tag of every bundled schema, conversion history across schemas: bounded (exhaustive in thorough tier)." + BND,
         'casefold uninterpreted and assumed length-preserving on the resolved text; tag section trusted to hold exactly the registered forms (loaders not verified); str.split modelled by its exact field characterisation'),
 "C04": ("proof", "Relational property. Proved: tag equality HedTag.__eq__ is exactly 'same object, or canonical short forms equal ignoring case, or "
         "texts as written equal ignoring case' (so every spelling/case of one tag compares equal); the delimiter scan accepts exactly the "
         "well-formed delimiter structures and its verdict is insensitive to blanks around delimiters (shared with C01); the C01 rule contracts speak "
         "about a tag only through its resolved node and extension (spelling-invariance of each rule); the loops judging top-level temporal groups "
         "and tags treat every sibling independently (no value carried between iterations, no break: dataflow obligations). Duplicate detection and "
         "whole-string verdict equality: bounded workload (all trees <= 3-4 leaves, all orderings/spellings/blank rewrites)." + BND,
         "casefold uninterpreted; HedTag model (short_tag/org_tag as fields); canonical sort (HedGroup.sorted) bounded only"),
 "C05": ("proof", 'Deductive kernel: the refusal to save a multi-library merge (raises before anything is written, ghost output counter), the selection table deciding which entries/attributes are written (_should_skip, _attribute_disallowed, flags set by process_schema) and the independence of the writer loops over unit classes / section entries (dataflow obligations) are proved. The file round trips themselves run through ElementTree/pandas and are decided by the bounded workload (every bundled schema x 3 formats x merged/unmerged, generated edits, independent XML walk).' + BND,
         'writers/readers (schema2xml/wiki/df, *2schema) under contract only in their plain-Python parts (line/attribute parsing, per-entry loops, header output, inLibrary refusal, rooted-tag re-creation: x_w5, x_w9, y_w14); their ElementTree / pandas parts are bounded only; output methods modelled as ghost effects'),
 "C06": ("proof", 'Cell handlers (_category_handler, _value_handler) proved from the property text (n/a and empty cells are absent, listed keys select their entry, template filled); reset_column_mapper keeps the sidecar used for references and for transformers the same object. Splicing (re.sub), pandas transforms and the frame of assemble(): bounded workload against an oracle written from the property.' + BND,
         'str.replace uninterpreted with three sound facts; pandas, re not modelled; the ColumnMapper constructor is summarised for callers (its real body is proved separately: y_w12)'),
 "C07": ("proof", 'Span remapping for joined row strings proved against joined_offset (induction); error-context stack balanced on every path of validate/_run_checks/_run_onset_checks/_validate_column_structure and, at every site that stamps context onto issues, the ROW context equals the index of the row being processed + row_adj, row_adj = 1 + header, column/string contexts as the property says (ghost context stack); rows judged independently (dataflow); every phase called. Equality with string-level validation, shuffle invariance, totality: bounded workload.' + BND,
         'loops of the pandas-facing functions explored as one arbitrary iteration (sound for the per-iteration ghost clauses); table values opaque'),
 "C08": ("proof", 'Brace scanner proved against braces_ok() for all strings (iff, indices in range); error-context stack balanced and the contexts in force at every stamping site of the five sidecar-validation functions as the property says; placeholder count taken after removing definitions and shrinking expansions; the definition placeholder rule (shared with C09). Totality over all JSON documents to depth 3 and single-fault codes: bounded workload.' + BND,
         'array encoding of strings; opaque values in the context contracts; tree surgery (remove_definitions/shrink_defs) seen through the text view'),
 "C09": ("proof", "Name rule, duplicate rule (first entry kept, reported once), placeholder rule (rejection directions; '#' tags of the whole content at any depth), Def-expand comparison up to sibling order, and copy ownership (HedTag.__deepcopy__ / HedGroup.copy share no expansion state with the original) proved. Expand/shrink typestate over operation sequences incl. copies: bounded workload (all op sequences <= 3-4)." + BND,
         'trusted: DefinitionEntry.get_definition as a deterministic function, HedGroup.sorted as canon_of, get_all_tags as all_tags_of; copy.deepcopy modelled as allocation/memo lookup; two acceptance directions of the placeholder rule undecided on two paths and not claimed'),
 "C10": ("proof", 'Open-scope dictionary under contract: _handle_onset_or_offset proved against the abstract view open(self)=keys(_onsets) with whole-view postconditions; the fold over the markers of one time point (same name twice); a fresh scope table per validated file; temporal groups judged independently. Time-point construction (Delay, sorting, equal onsets): bounded workload over all histories <= 3-4 markers.' + BND,
         'casefold uninterpreted; HedTag model; find_top_level_tags / find_def_tags trusted'),
 "C11": ("proof", "Lookup rule (symbol exact, name any case), conversion factor (defined whenever accepted; unit x prefix with '^' as power of ten), value/unit split (prefix units), totality of value_as_default_unit, the unit rule (extra text before a unit is invalid, missing-unit note) and the dispatch of validate_units proved. Derived-unit table construction (inflect) and every bundled unit x prefix x spelling: bounded workload (exhaustive in thorough tier)." + BND,
         'casefold uninterpreted; floats as reals (no NaN); inflect/plural not modelled; get_stripped_unit_value / _check_value_class trusted'),
 "C12": ("proof", 'Offset translation proved (inside tag span, selects the sub-fragment, suffix appended only on first decoration), filter = exactly the allowed-severity subset, decoration keeps every error and invents nothing, sub-tag span preconditions discharged at call sites, and the REAL @hed_tag_error wrappers proved (fragment quoted = fragment the indices select, indices and tag stored, published code). Sorting, JSON export, end-to-end fragments: bounded workload.' + BND,
         'Issue model with ghost span fields; _create_error_object, _get_tag_span_to_error_object and _add_context_to_errors trusted; the message function is an unknown callable'),
 "C13": ("proof", 'Prefix extraction, prefix syntax (set_schema_prefix), dispatch of HedSchemaGroup.find_tag_entry and of a single HedSchema (answers only for its own prefix, also the empty one), and identification with the schema handed in proved. Prefixed-vs-alone verdict equality, partnered-library content, refusal cases, parse-with-S1/validate-with-S2 histories: bounded workload over all offline pairings.' + BND,
         'tag_view abstract view shared with C03; isalpha exact on ASCII, uninterpreted elsewhere; loaders not verified'),
 "C14": ("proof", "Attribute validators conversion_factor, unit_exists, tag_is_placeholder_check and in_library_check (whole comma-separated field, not substring) "
         "proved as iff/implication clauses with the published code. "
         "Acceptance of all bundled schemas and seeded faults at sampled positions: bounded workload." + BND,
         "float parsing uninterpreted; derivative_unit lookup trusted; str.split(',') modelled by its exact field characterisation; hedId validator (dynamic typing) bounded only"),
 "C15": ("proof", "Result merging (identity-union of tags, same group, ValueError iff groups differ) and has_same_tags proved. Term matching, Or/And laws, "
         "sibling-order invariance, frame and parser totality: bounded workload (5.7M evaluations quick)." + BND,
         "structural == of HedGroup uninterpreted reflexive relation; sort modelled as a permutation"),
 "C16": ("proof", "Applicability test is_sidecar_for proved iff the property's condition; the per-directory choice (first applicable sidecar, None iff none applies) proved. Discovery, root-to-leaf merge order, dataset/CLI agreement: bounded workload on generated trees." + BND,
         'os.path.commonpath/dirname uninterpreted; dict iteration as an order-free enumeration'),
 "C17": ("proof", 'Purity as frame obligations: every in-place update in do_op of the eight operations targets an object allocated in the call (pandas effect table); None-safety of optional parameters through __init__ class invariants; run_operations typestate (each operation runs on the prepared table); remap_columns validation (entry lengths). Table meaning per operation, chained operations: bounded workload.' + BND,
         'pandas effect table (methods return new objects unless inplace/known mutators); loops explored as one arbitrary iteration'),
 "C18": ("proof", 'create_backup proved: never overwrites, copies precede the record, record written last and lists every file (ghost file-system trace, loop invariant); restore writes only recorded originals; task filter rule; the dispatcher reads the backup copy only. Crash injection, byte identity, CLI order: bounded workload.' + BND,
         'file-system extern models (copy completes before returning, json.dump prefix invalid), uninterpreted path functions'),
 "C19": ("proof", 'Sequential disciplines proved: lock held on return from __enter__ and released on exit, the lock file is never unlinked, population only under the lock; no non-atomic copy to a served name (publication by os.replace); bookkeeping total (torn timestamp reads as 0). Interleavings/crash points themselves are reduced to these disciplines plus OS assumptions; fault injection and two-process schedules: bounded workload.' + BND,
         'portalocker/flock exclusivity, rename atomicity, extern file-system models; multi-process schedules not explored symbolically'),
 "C20": ("proof", "_extract_context under contract (three nested loops, inductive invariants): every process that covers a time point is listed in that point's context, every process at its start point, no index leaves the table; the end of a Duration process is its start plus THAT tag's value (_split_group). The converse (nothing else is listed), the scan that opens/closes processes, Duration bisection, Delay shifting: bounded workload over all valid histories <= 4-5 rows against contexts_spec." + BND,
         'data-structure invariant of the event list is a precondition exercised by the workload; floats as reals; compress_strings trusted'),
}

# what the contract-writing pass (contracts/x_w1.py ... x_w5.py, each contract mutation-tested before it was registered) and the later
# wrapper / data obligations added per property; appended to the level text
ADDED = {
 "C01": "Also proved: the multi-tag rules see every tag at any depth and both run; the validators are assembled for the schema handed in; tag characters: prefix and base tag both judged; extension characters located after the base tag.",
 "C02": "Also proved: the printed forms of a tag against its stored fields (namespace + node name + suffix; the source slice at its span when unidentified), org_tag / org_base_tag / extension, span of a node inside an assembled annotation.",
 "C03": "Also proved: section look-ups are case-folded unless the section is case sensitive; a finalized node knows its parent and its value child; the table wrappers convert with the complete short_tag / long_tag form.",
 "C04": "Also proved: rules read attributes only through the resolved node (has_attribute / base_tag_has_attribute / takes_value); re-identification when a tag's text is set; the repetition scan runs on the canonical order and the canonical text brackets every group level; membership by identity.",
 "C05": "Also proved in the readers and writers: pure string functions in full (wiki tag level, line blocks, section order, prologue/epilogue elements, attribute kinds, one <node> per tag with name/description/attributes), library-call keyword facts (read_csv / to_csv: dtype=str, na_filter, QUOTE_NONE ...), a partnered library is built on a COPY of the cached standard schema, loops over entries independent (dataflow), schema/section/entry equality compares every part.",
 "C06": "Also proved: transforms work on a copy; every column gets the transformer of its kind with its own annotation; references that name a column are spliced and not listed; the row text joins exactly the cells that are neither empty nor n/a; the table's references are those of its sidecar.",
 "C07": "Also proved: needs_sorting iff the numeric onsets step down (to_numeric with errors='coerce'); temporal tags without usable time are each reported by canonical short name; blank column names and mapping checks each run; the entry points hand back the sorted list (final-value obligation).",
 "C08": "Also proved: each column-structure fault has its code; an annotated column hands its annotation (also an empty one) to the per-string rules; reference screening per column and entry independent; definition extraction keeps the context stack balanced.",
 "C09": "Also proved: definitions judged one by one and only good ones stored under the case-folded name (check_for_definitions with its helpers: group shape, content holds no Def tags, placeholders without content, sorted copy kept), expand_defs / shrink_defs (queue complete, each Def replaced by its own expansion and back), the Def <-> Def-expand switch keeps the tag's namespace, the value of a Def is judged by the placeholder tag's rules, gathered Def-expand groups compared in sorted order.",
 "C10": "Also proved: the Def of a temporal marker is looked up case-folded with the value-use rule.",
 "C11": "Also proved: SI prefixes only for SI units (symbols and names apart); unit section look-up (symbols exact, names any case); problem characters re-indexed into the tag; data obligations: the numericClass and dateTimeClass patterns and eleven character-class patterns of class_regex.json equal the stated grammars as regular languages (z3-regex).",
 "C12": "Also proved: an issue for a handler is filtered and decorated exactly once (also from a stored context); sort_issues rearranges by the documented key, drops nothing and leaves the caller's list alone; the printed report shows exactly the issues of the severity asked; the sidecar / table / schema-compliance entry points hand back the sorted list.",
 "C13": "Also proved: a group refuses a prefix used twice (also the same object twice); load_schema sets the prefix asked for in every format branch; an added section entry drops finished attribute lists; look-up by name only under the schema's own prefix; group answers come from the owner / from every member; a single version text is handed on unchanged; the version is looked up in the folder asked and refreshed at most once.",
 "C14": "Also proved: compliance runs every part check and drops nothing; every value of a comma-separated allowedCharacter attribute is judged; numeric attribute values must parse; deprecatedFrom rules; duplicate names recorded with first holder and newcomer; undeclared attributes remembered; name rules for library names and tags; the script sums the issues of every file; validator loops independent (dataflow).",
 "C15": "Also proved: the '&&' node asks both operands with the same exact flag and combines one match of each via distinct tags; '||' matches iff either operand does (nothing invented, duplicates dropped from the left); exact-group filter; token stream (next token, look-ahead) with the documented parse error; term search finds exactly the tags with the case-folded term on their path, each with its own group.",
 "C16": "Also proved: the sidecar chain is collected root-down with one answer per directory; a data file is loaded with its MERGED sidecar; a sidecar object is built from the chain it is given; filename entity splitting; CLI hands back the dataset's issues and exits non-zero iff there are any; directory walks independent per file (dataflow).",
 "C17": "Also proved: a key seen again is counted, not overwritten (KeyMap); operation attributes are the parameters of that name; n/a becomes NaN in a NEW table (prep_data); factor_column input validation.",
 "C18": "Also proved: the consistency check reports exactly the recorded copies that are missing and the files the record does not name; only consistent backups are listed; the manager refuses a missing data root; the backup / restore / remodel commands call the manager once with the named backup and tasks and never overwrite.",
 "C19": "Also proved: the installed-copy fallback is taken exactly when the folder is the cache folder in any spelling (realpath) and no prerelease is asked; nothing is served that does not exist; a download is published by the atomic move and the temp file removed; an unchanged cached copy is not downloaded again; the lock file is the entry of the locked folder.",
 "C20": "Also proved: an Onset opens and an Offset or new Onset closes the process of its (case-folded) name; a Duration process ends at the first row not before its end (with the onset tolerance); the start a process remembers is exactly the row onset; every entry of a time point's context is kept verbatim (compress_strings); a row's context is filtered from its own context.",
}

PENDING_REASON = "not claimed"


def main():
    props = [json.loads(l) for l in open(os.path.join(VERIF, "properties.jsonl"))]
    fixes = subprocess.run(["git", "-C", "/repo", "log", "--format=%H %s", "95668a4..HEAD"], capture_output=True, text=True).stdout.strip().splitlines()
    checks = []
    na = []
    for p in props:
        pid = p["id"]
        if pid in READY:
            cat, text, note = READY[pid]
            if pid in ADDED:
                text = text.replace(BND, "") + " " + ADDED[pid] + BND
            checks.append({
                "property_id": pid,
                "quick_cmd": f"python3-vt checks/check.py {pid} --tier quick",
                "thorough_cmd": f"python3-vt checks/check.py {pid} --tier thorough",
                "evidence_file": f"evidence/{pid}.json",
                "replay_cmd_template": f"python3-vt checks/check.py {pid} --replay {{path}}",
                "engine": "pyvc",
                "level_claimed": {"category": cat, "text": text, "design_ref": f"DESIGN.md section 3 / {pid}"},
                "level_note": note,
                "technique": TECH,
            })
        else:
            na.append({"property_id": pid, "reason": PENDING_REASON})
    m = {
        "version": 1,
        "setup_cmd": "python3-vt -m compileall -q pyvc contracts spec rt checks && python3-vt -m pyvc.selftest",
        "hooks": {"guard": "HED_PYTHON_VERIF",
                  "enable": "no hooks: sidecar contracts, AST extraction and outside-in monitors need no source change",
                  "baseline_off_cmd": "cd /repo && /venv/bin/python -m pytest -ra -q -p no:cacheprovider --timeout=900 --continue-on-collection-errors",
                  "source_commits": [f.split()[0] for f in fixes],
                  "add_only": True},
        "engines": [{"name": "pyvc", "path": "pyvc/", "serves_properties": sorted(READY),
                     "kind_free_text": "ast->SMT verification-condition generator for a Python subset (loop invariants, modular contracts, "
                                       "ghost state, lemmas); z3 5.1 + cvc5 1.0.3; concrete replay/bounded harness under /venv/bin/python"}],
        "checks": checks,
        "notes": "source_commits are unguarded 'fix:' commits (genuine defects repaired, see known_findings.json); no hook commits exist.",
        "not_applicable": na,
    }
    with open(os.path.join(VERIF, "MANIFEST.json"), "w") as f:
        json.dump(m, f, indent=1)
    print(f"{len(checks)} checks, {len(na)} pending")


if __name__ == "__main__":
    main()
