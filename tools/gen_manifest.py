#!/usr/bin/env python3
"""Regenerates /verif/MANIFEST.json from the table below (run after adding a property's check)."""
import json
import os
import subprocess

VERIF = os.path.dirname(os.path.dirname(os.path.abspath(__file__)))

TECH = ("contract-based deductive verification: sidecar pre/postconditions, loop invariants and lemmas on the real "
        "functions of /repo, VCs generated from their AST by /verif/pyvc and discharged by z3/cvc5 (iteration-independence clauses by a "
        "def-before-use analysis of the real loop bodies); "
        "bounded runtime-contract workload as labelled stand-in for the parts outside the verifier's reach")

# property -> (category, text, note)
BND = " Bounded parts are labelled bounded in the evidence and never counted as proved."
READY = {
 "C01": ("proof", "Rule layer under contract: per-tag rules (exists/extension, requireChild, deprecated, placeholder) proved as iff-clauses over an "
         "abstract view of the resolved node (so for every schema); orchestration of validate() and run_basic_checks() proved (order, early exits, "
         "nothing dropped, errors-only filter); parenthesis balance proved against balanced(); kind->published-code table proved by evaluation of "
         "the extracted decorator table. Whole-string verdicts over the real schemas (valid => no error, one fault => its code): bounded workload." + BND,
         "abstract HedTag model (has_attr/base_has_attr uninterpreted), trusted callee contracts named in evidence.trusted_base, regex engine, "
         "format_error modelled from the decorator table"),
 "C02": ("proof", "Tokenizer HedString.split_hed_string proved for all strings (tiling, span characters, maximal trimmed runs) with an "
         "inductive invariant; parenthesis-mismatch reporting proved against balanced(). Tree construction (split_into_groups) and the "
         "print/re-parse round trip: bounded, exhaustive over all strings up to length 6/8 over the delimiter alphabet." + BND,
         "array encoding of strings (code points); `is` on 1-char strings as ==; HedTag/HedGroup constructors not verified (bounded only)"),
 "C03": ("proof", "Left-to-right resolution (_find_tag_entry/_find_tag_subfunction) and suffix-form registration (_get_tag_forms) proved "
         "against the abstract view tag_view: deepest known boundary prefix, remainder verbatim, '#' child switch; sub-tag error spans in range. "
         "Canonical-form round trips over every tag of every bundled schema: bounded (exhaustive in thorough tier)." + BND,
         "casefold uninterpreted and assumed length-preserving on the resolved text; tag section trusted to hold exactly the registered forms "
         "(loaders not verified); _validate_remaining_terms trusted"),
 "C04": ("proof", "Relational property. Proved: tag equality HedTag.__eq__ is exactly 'same object, or canonical short forms equal ignoring case, or "
         "texts as written equal ignoring case' (so every spelling/case of one tag compares equal); the delimiter scan accepts exactly the "
         "well-formed delimiter structures and its verdict is insensitive to blanks around delimiters (shared with C01); the C01 rule contracts speak "
         "about a tag only through its resolved node and extension (spelling-invariance of each rule); the loops judging top-level temporal groups "
         "and tags treat every sibling independently (no value carried between iterations, no break: dataflow obligations). Duplicate detection and "
         "whole-string verdict equality: bounded workload (all trees <= 3-4 leaves, all orderings/spellings/blank rewrites)." + BND,
         "casefold uninterpreted; HedTag model (short_tag/org_tag as fields); canonical sort (HedGroup.sorted) bounded only"),
 "C05": ("other", "Deductive kernel: the refusal to save a multi-library merge (raises before anything is written, ghost output counter) and the "
         "selection table deciding which entries/attributes are written (_should_skip, _attribute_disallowed, flags set by process_schema for standard / "
         "partnered merged / partnered unmerged) are proved. The file round trips themselves run through ElementTree/pandas and are decided by the "
         "bounded workload (every bundled schema x 3 formats x merged/unmerged, generated edits, independent XML walk)." + BND,
         "writers/readers (schema2xml/wiki/df, *2schema) not under contract; output methods modelled as ghost effects"),
 "C06": ("other", "Cell handlers (_category_handler, _value_handler) proved from the property text (n/a and empty cells are absent, listed keys select "
         "their entry, template filled). Splicing (re.sub), pandas transforms and the frame of assemble(): bounded workload against an oracle written "
         "from the property." + BND, "str.replace uninterpreted with three sound facts; pandas, re not modelled"),
 "C07": ("proof", "Span remapping for joined row strings proved against joined_offset (induction); error-context stack proved balanced on every path of "
         "_run_checks/_run_onset_checks/_validate_column_structure (ghost depth). Equality with string-level validation, labels, shuffle invariance: "
         "bounded workload." + BND, "loops of the pandas-facing functions explored as one arbitrary iteration (sound for the ghost balance); values opaque"),
 "C08": ("proof", "Brace scanner proved against braces_ok() for all strings (iff, indices in range); error-context stack proved balanced on every path of "
         "the five sidecar-validation functions. Totality over all JSON documents to depth 3 and single-fault codes: bounded workload." + BND,
         "array encoding of strings; opaque values in the context-balance contracts"),
 "C09": ("proof", "Name rule (_strip_value_placeholder) proved; DefValidator._validate_def_contents proved from the property text: a Def-expand group is "
         "accepted exactly when its canonical form equals the canonical form of the declared expansion (DEF_EXPAND_INVALID otherwise), an undeclared "
         "name is reported with the Def/Def-expand code. Declaration acceptance rules, expand/shrink typestate and copies: bounded workload "
         "(all op sequences <= 3-4 over expand/shrink/copy/validate/str)." + BND,
         "trusted: DefinitionEntry.get_definition as a deterministic function expansion_of, HedGroup.sorted as canon_of, structural == as an "
         "uninterpreted relation; the filtered-list counting invariant of _validate_placeholders was not decided within budget and is not claimed"),
 "C10": ("proof", "Open-scope dictionary under contract: _handle_onset_or_offset proved against the abstract view open(self)=keys(_onsets) with whole-view "
         "postconditions (Onset opens, Offset closes iff open else reports, Inset reports iff not open; case-insensitive name). Time-point construction "
         "(Delay, sorting, equal onsets) and same-name-twice: bounded workload over all histories <= 3-4 markers." + BND,
         "casefold uninterpreted; HedTag model; validate_temporal_relations' fold over markers bounded only"),
 "C11": ("proof", "Lookup rule (symbol exact, name any case), conversion factor (defined whenever accepted and declared; absent not exception), value/unit "
         "split (prefix units) and totality of value_as_default_unit proved. Derived-unit table construction (inflect) and every bundled unit x prefix x "
         "spelling: bounded workload (exhaustive in thorough tier)." + BND, "casefold uninterpreted; floats as reals; inflect/plural not modelled"),
 "C12": ("proof", "Offset translation proved (inside tag span, selects the sub-fragment, suffix appended only on first decoration - ghost counter), filter = "
         "exactly the allowed-severity subset, decoration keeps every error and invents nothing, sub-tag span preconditions discharged at call sites "
         "(C01/C03 contracts). Sorting, JSON export, end-to-end fragments: bounded workload." + BND,
         "Issue model with ghost span fields; _get_tag_span_to_error_object and _add_context_to_errors trusted"),
 "C13": ("proof", "Prefix extraction (_get_schema_namespace), prefix syntax (set_schema_prefix: alphabetic, ':' appended, HedFileError otherwise) and the "
         "dispatch of HedSchemaGroup.find_tag_entry (resolved by the schema owning the prefix and no other; unloaded prefix is an error) proved. "
         "Prefixed-vs-alone verdict equality, partnered-library content and refusal cases: bounded workload over all offline pairings." + BND,
         "tag_view abstract view shared with C03; isalpha exact on ASCII, uninterpreted elsewhere; loaders not verified"),
 "C14": ("proof", "Attribute validators conversion_factor, unit_exists, tag_is_placeholder_check and in_library_check (whole comma-separated field, not substring) "
         "proved as iff/implication clauses with the published code. "
         "Acceptance of all bundled schemas and seeded faults at sampled positions: bounded workload." + BND,
         "float parsing uninterpreted; derivative_unit lookup trusted; str.split(',') modelled by its exact field characterisation; hedId validator (dynamic typing) bounded only"),
 "C15": ("proof", "Result merging (identity-union of tags, same group, ValueError iff groups differ) and has_same_tags proved. Term matching, Or/And laws, "
         "sibling-order invariance, frame and parser totality: bounded workload (5.7M evaluations quick)." + BND,
         "structural == of HedGroup uninterpreted reflexive relation; sort modelled as a permutation"),
 "C16": ("proof", "Applicability test is_sidecar_for proved iff the property's condition (same file, or same suffix, ancestor directory, every entity "
         "matched) with an invariant over the entity dictionary. Discovery, merge order, dataset/CLI agreement: bounded workload on generated trees." + BND,
         "os.path.commonpath/dirname uninterpreted; dict iteration as an order-free enumeration"),
 "C17": ("proof", "Purity as frame obligations: every in-place update in do_op of the eight operations targets an object allocated in the call (pandas "
         "effect table); None-safety of optional parameters proved through __init__ class invariants. Table meaning per operation: bounded workload." + BND,
         "pandas effect table (methods return new objects unless inplace/known mutators); loops explored as one arbitrary iteration"),
 "C18": ("proof", "create_backup proved: never overwrites, copies precede the record, record written last and lists every file (ghost file-system trace, loop "
         "invariant); restore writes only recorded originals; task filter rule. Crash injection and byte identity: bounded workload." + BND,
         "file-system extern models (copy completes before returning, json.dump prefix invalid), uninterpreted path functions"),
 "C19": ("proof", "Three sequential disciplines proved: lock held on return from __enter__ and released on exit, population only under the lock; no non-atomic "
         "copy to a served name (publication by os.replace); bookkeeping total (torn timestamp reads as 0). Interleavings/crash points themselves are "
         "reduced to these disciplines plus OS assumptions; fault injection: bounded workload." + BND,
         "portalocker/flock exclusivity, rename atomicity, extern file-system models; multi-process schedules not explored"),
 "C20": ("proof", "_extract_context under contract (three nested loops, inductive invariants over the nested context lists): every process that "
         "covers a time point - started at a strictly earlier time point and not ended - is listed in that point's context, every process is listed "
         "at its start point, and no index leaves the table. The converse (nothing else is listed), the scan that opens/closes processes, Duration "
         "bisection, Delay shifting: bounded workload over all valid histories <= 4-5 rows against contexts_spec." + BND,
         "data-structure invariant of the event list (indices in range) is a precondition exercised by the workload; floats as reals; "
         "compress_strings trusted"),
}

PENDING_REASON = "not claimed"


def main():
    props = [json.loads(l) for l in open(os.path.join(VERIF, "properties.jsonl"))]
    fixes = subprocess.run(["git", "-C", "/repo", "log", "--format=%H %s", "95668a4..HEAD"], capture_output=True, text=True).stdout.strip().splitlines()
    checks = []
    na = []
    for p in props:
        pid = p["id"]
        if pid in READY:
            cat, text, note = READY[pid]
            checks.append({
                "property_id": pid,
                "quick_cmd": f"python3-vt checks/check.py {pid} --tier quick",
                "thorough_cmd": f"python3-vt checks/check.py {pid} --tier thorough",
                "evidence_file": f"evidence/{pid}.json",
                "replay_cmd_template": f"python3-vt checks/check.py {pid} --replay {{path}}",
                "engine": "pyvc",
                "level_claimed": {"category": cat, "text": text, "design_ref": f"DESIGN.md section 3 / {pid}"},
                "level_note": note,
                "technique": TECH,
            })
        else:
            na.append({"property_id": pid, "reason": PENDING_REASON})
    m = {
        "version": 1,
        "setup_cmd": "python3-vt -m compileall -q pyvc contracts spec rt checks && python3-vt -m pyvc.selftest",
        "hooks": {"guard": "HED_PYTHON_VERIF",
                  "enable": "no hooks: sidecar contracts, AST extraction and outside-in monitors need no source change",
                  "baseline_off_cmd": "cd /repo && /venv/bin/python -m pytest -ra -q -p no:cacheprovider --timeout=900 --continue-on-collection-errors",
                  "source_commits": [f.split()[0] for f in fixes],
                  "add_only": True},
        "engines": [{"name": "pyvc", "path": "pyvc/", "serves_properties": sorted(READY),
                     "kind_free_text": "ast->SMT verification-condition generator for a Python subset (loop invariants, modular contracts, "
                                       "ghost state, lemmas); z3 5.1 + cvc5 1.0.3; concrete replay/bounded harness under /venv/bin/python"}],
        "checks": checks,
        "notes": "source_commits are unguarded 'fix:' commits (genuine defects repaired, see known_findings.json); no hook commits exist.",
        "not_applicable": na,
    }
    with open(os.path.join(VERIF, "MANIFEST.json"), "w") as f:
        json.dump(m, f, indent=1)
    print(f"{len(checks)} checks, {len(na)} pending")


if __name__ == "__main__":
    main()
