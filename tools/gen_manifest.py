#!/usr/bin/env python3
"""Regenerates /verif/MANIFEST.json from the table below (run after adding a property's check)."""
import json
import os
import subprocess

VERIF = os.path.dirname(os.path.dirname(os.path.abspath(__file__)))

TECH = ("contract-based deductive verification: sidecar pre/postconditions, loop invariants and lemmas on the real "
        "functions of /repo, VCs generated from their AST by /verif/pyvc and discharged by z3/cvc5; "
        "bounded runtime-contract workload as labelled stand-in for the parts outside the verifier's reach")

# property -> (category, text, note)
READY = {
    "C02": ("proof", "Tokenizer HedString.split_hed_string proved for all strings (tiling, span characters, maximal trimmed runs) with an "
                     "inductive invariant; parenthesis-mismatch reporting proved against the spec function balanced(). Tree construction, "
                     "print/re-parse round trip: bounded (exhaustive over all strings up to length 6/8 over the delimiter alphabet).",
            "array encoding of strings (code points), `is` on 1-char strings as ==; HedTag/HedGroup constructors not verified (bounded only)"),
    "C03": ("proof", "Left-to-right resolution (_find_tag_entry/_find_tag_subfunction) and suffix-form registration (_get_tag_forms) proved "
                     "against the abstract view tag_view: deepest known boundary prefix, remainder verbatim, '#' child switch; sub-tag error "
                     "spans in range. Canonical-form round trips over every tag of every bundled schema: bounded (exhaustive in thorough tier).",
            "casefold uninterpreted and assumed length-preserving on the resolved text; the tag section is trusted to hold exactly the "
            "registered forms (loaders not verified); _validate_remaining_terms trusted"),
}

PENDING_REASON = "check under construction in this round (contracts not yet written); see DESIGN.md section 3"


def main():
    props = [json.loads(l) for l in open(os.path.join(VERIF, "properties.jsonl"))]
    fixes = subprocess.run(["git", "-C", "/repo", "log", "--format=%H %s", "95668a4..HEAD"], capture_output=True, text=True).stdout.strip().splitlines()
    checks = []
    na = []
    for p in props:
        pid = p["id"]
        if pid in READY:
            cat, text, note = READY[pid]
            checks.append({
                "property_id": pid,
                "quick_cmd": f"python3-vt checks/check.py {pid} --tier quick",
                "thorough_cmd": f"python3-vt checks/check.py {pid} --tier thorough",
                "evidence_file": f"evidence/{pid}.json",
                "replay_cmd_template": f"python3-vt checks/check.py {pid} --replay {{path}}",
                "engine": "pyvc",
                "level_claimed": {"category": cat, "text": text, "design_ref": f"DESIGN.md section 3 / {pid}"},
                "level_note": note,
                "technique": TECH,
            })
        else:
            na.append({"property_id": pid, "reason": PENDING_REASON})
    m = {
        "version": 1,
        "setup_cmd": "python3-vt -m compileall -q pyvc contracts spec rt checks && python3-vt -m pyvc.selftest",
        "hooks": {"guard": "HED_PYTHON_VERIF",
                  "enable": "no hooks: sidecar contracts, AST extraction and outside-in monitors need no source change",
                  "baseline_off_cmd": "cd /repo && /venv/bin/python -m pytest -ra -q -p no:cacheprovider --timeout=900 --continue-on-collection-errors",
                  "source_commits": [f.split()[0] for f in fixes],
                  "add_only": True},
        "engines": [{"name": "pyvc", "path": "pyvc/", "serves_properties": sorted(READY),
                     "kind_free_text": "ast->SMT verification-condition generator for a Python subset (loop invariants, modular contracts, "
                                       "ghost state, lemmas); z3 5.1 + cvc5 1.0.3; concrete replay/bounded harness under /venv/bin/python"}],
        "checks": checks,
        "notes": "source_commits are unguarded 'fix:' commits (genuine defects repaired, see known_findings.json); no hook commits exist.",
        "not_applicable": na,
    }
    with open(os.path.join(VERIF, "MANIFEST.json"), "w") as f:
        json.dump(m, f, indent=1)
    print(f"{len(checks)} checks, {len(na)} pending")


if __name__ == "__main__":
    main()
