#!/usr/bin/env python3
"""Evaluate a seeded regression: tools/seed_eval.py <seed-dir> [--props C01,C04] [--tier quick]

1. /repo must be clean.  2. demo.py must exit 0 on the unchanged tree.  3. apply patch.diff to /repo; demo.py must exit 1.
4. run the registered quick check of the seed's property (and any extra --props) against the patched /repo; record exit code
and VIOLATION lines.  5. ALWAYS revert /repo (git checkout -- .).  Prints one JSON line with the outcome."""
import argparse
import json
import os
import subprocess
import sys
import time

VERIF = os.path.dirname(os.path.dirname(os.path.abspath(__file__)))


def sh(cmd, **kw):
    return subprocess.run(cmd, shell=True, capture_output=True, text=True, **kw)


def main():
    ap = argparse.ArgumentParser()
    ap.add_argument("seed")
    ap.add_argument("--props")
    ap.add_argument("--tier", default="quick")
    ap.add_argument("--tests", action="store_true", help="also run the baseline test suite on the patched tree")
    a = ap.parse_args()
    seed = os.path.abspath(a.seed)
    meta = json.load(open(os.path.join(seed, "meta.json")))
    props = a.props.split(",") if a.props else [meta["property"]]
    out = {"seed": os.path.basename(seed), "property": meta["property"], "checks": {}}
    if sh("git -C /repo status --porcelain").stdout.strip():
        print(json.dumps({"error": "/repo is not clean"}))
        return 2
    env = dict(os.environ, PYTHONPATH="/repo")
    d0 = subprocess.run(["/venv/bin/python", os.path.join(seed, "demo.py")], capture_output=True, text=True, env=env, timeout=900)
    out["demo_unchanged"] = d0.returncode
    ap_ = sh(f"git -C /repo apply {seed}/patch.diff")
    if ap_.returncode != 0:
        out["error"] = "patch does not apply: " + ap_.stderr[:200]
        print(json.dumps(out))
        return 2
    try:
        d1 = subprocess.run(["/venv/bin/python", os.path.join(seed, "demo.py")], capture_output=True, text=True, env=env, timeout=900)
        out["demo_patched"] = d1.returncode
        out["demo_msg"] = (d1.stdout + d1.stderr).strip()[-300:]
        if a.tests:
            t = sh(f"{VERIF}/tools/baseline.sh")
            out["tests"] = t.stdout.strip().splitlines()[0] if t.stdout.strip() else t.stderr[-200:]
        for p in props:
            t0 = time.time()
            r = sh(f"cd {VERIF} && python3-vt checks/check.py {p} --tier {a.tier}", timeout=3600)
            lines = [l for l in r.stdout.splitlines() if l.startswith(("VIOLATION", "UNDECIDED", "CHECKER-FAULT", "KNOWN-FINDING"))]
            out["checks"][p] = {"exit": r.returncode, "wall_s": round(time.time() - t0, 1),
                                "violations": [l for l in lines if l.startswith("VIOLATION")][:6],
                                "other": [l[:160] for l in lines if not l.startswith("VIOLATION")][:4],
                                "summary": r.stdout.strip().splitlines()[-1][:200] if r.stdout.strip() else r.stderr[-200:]}
    finally:
        sh("git -C /repo checkout -- .")
        left = sh("git -C /repo status --porcelain").stdout.strip()
        if left:
            out["revert_problem"] = left
    out["caught"] = any(c["exit"] == 1 for c in out["checks"].values())
    print(json.dumps(out))
    return 0


if __name__ == "__main__":
    sys.exit(main())
