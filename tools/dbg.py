"""dev: solve the obligations of one contract matching a substring, with timing; usage dbg.py CID SUBSTR [timeout_ms]"""
import sys, time, z3
sys.path.insert(0, "/verif")
from pyvc.run import *
load_all(); cid, sub = sys.argv[1], sys.argv[2]
to = int(sys.argv[3]) if len(sys.argv) > 3 else 10000
eng = make_engine(to)
res = eng.verify(C.CONTRACTS[cid])
print("paths", res["paths"], "symex", round(res["symex_s"], 2))
for ob in res["obligations"]:
    if sub in ob.oid and ob.kind != "canary":
        t = time.time(); eng.solve(ob); print(ob.oid, ob.path, ob.verdict, round(time.time() - t, 2), ob.detail[:80], flush=True)
