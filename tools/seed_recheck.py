#!/usr/bin/env python3
"""tools/seed_recheck.py <id> [--props C01,C04] ... : re-run the registered quick check(s) against an already confirmed seeded change
(/verif/seeded/<id>) with the current machinery and refresh meta.json's verif_result (the confirmation itself is not repeated)."""
import json, os, subprocess, sys
VERIF = os.path.dirname(os.path.dirname(os.path.abspath(__file__)))
args = sys.argv[1:]
props = None
if "--props" in args:
    k = args.index("--props")
    props = args[k + 1]
    del args[k:k + 2]
for name in args:
    seed = os.path.join(VERIF, "seeded", name)
    cmd = [sys.executable, os.path.join(VERIF, "tools", "seed_eval.py"), seed]
    meta = json.load(open(os.path.join(seed, "meta.json")))
    p = props or ",".join(meta.get("verif_result", {}).get("checks", {}).keys()) or meta["property"]
    r = subprocess.run(cmd + ["--props", p], capture_output=True, text=True)
    try:
        res = json.loads(r.stdout.strip().splitlines()[-1])
    except Exception:
        print(name, "eval failed:", r.stdout[-300:], r.stderr[-300:]); continue
    old = meta.get("verif_result", {})
    res["confirmed"] = old.get("confirmed", True)
    res["tests"] = old.get("tests")
    meta["verif_result"] = res
    json.dump(meta, open(os.path.join(seed, "meta.json"), "w"), indent=1)
    print(name, "caught" if res.get("caught") else "MISSED", {q: (c["exit"], c["violations"][:2]) for q, c in res.get("checks", {}).items()}, flush=True)
