#!/usr/bin/env python3
"""tools/seed_import.py <dir under /tmp/seed/out> ... : confirm a seeded change (demo exit 0 unchanged / 1 patched, baseline tests
still pass with the patch), run the property's quick check against it, and keep it under /verif/seeded/<id>/ with the outcome."""
import json, os, shutil, subprocess, sys
VERIF = os.path.dirname(os.path.dirname(os.path.abspath(__file__)))
for seed in sys.argv[1:]:
    seed = os.path.abspath(seed)
    name = os.path.basename(seed)
    need = [f for f in ("patch.diff", "demo.py", "meta.json") if not os.path.exists(os.path.join(seed, f))]
    if need:
        print(name, "incomplete:", need); continue
    r = subprocess.run([sys.executable, os.path.join(VERIF, "tools", "seed_eval.py"), seed, "--tests"], capture_output=True, text=True)
    try:
        res = json.loads(r.stdout.strip().splitlines()[-1])
    except Exception:
        print(name, "eval failed:", r.stdout[-300:], r.stderr[-300:]); continue
    ok = res.get("demo_unchanged") == 0 and res.get("demo_patched") == 1 and "MISSING: 0" in res.get("tests", "")
    res["confirmed"] = ok
    print(name, "confirmed" if ok else "NOT CONFIRMED", "| caught" if res.get("caught") else "| MISSED",
          {p: (c["exit"], c["violations"][:1]) for p, c in res.get("checks", {}).items()}, res.get("tests"), res.get("error", ""))
    if ok:
        dst = os.path.join(VERIF, "seeded", name)
        os.makedirs(dst, exist_ok=True)
        for f in ("patch.diff", "demo.py"):
            shutil.copy(os.path.join(seed, f), os.path.join(dst, f))
        meta = json.load(open(os.path.join(seed, "meta.json")))
        meta["verif_result"] = res
        meta["what_i_ran"] = ["tools/seed_eval.py --tests (demo on unchanged /repo: exit 0; git apply patch; demo: exit 1; "
                              "tools/baseline.sh: 690/690; checks/check.py <property> --tier quick; git checkout -- .)"]
        json.dump(meta, open(os.path.join(dst, "meta.json"), "w"), indent=1)
