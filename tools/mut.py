"""dev tool: run contracts against a scratch copy of /repo/hed with one textual edit applied.
usage: python3-vt tools/mut.py <file rel> <old> <new> <cid-prefix>..."""
import os, shutil, subprocess, sys, tempfile
rel, old, new = sys.argv[1:4]
cids = sys.argv[4:]
d = tempfile.mkdtemp(prefix="mut_", dir="/tmp")
try:
    shutil.copytree("/repo/hed", os.path.join(d, "hed"))
    p = os.path.join(d, rel)
    s = open(p).read()
    assert s.count(old) >= 1, "pattern not found"
    open(p, "w").write(s.replace(old, new, 1))
    env = dict(os.environ, HED_REPO=d)
    r = subprocess.run(["python3-vt", "-m", "pyvc.run"] + cids, env=env, cwd="/verif", capture_output=True, text=True)
    out = r.stdout + r.stderr
    print("\n".join(l for l in out.splitlines() if "FAIL" in l or "path " in l or "ERROR" in l or "Error" in l) or "NO FAILURE (mutant survived)")
finally:
    shutil.rmtree(d)
