#!/usr/bin/env python3
"""one line per seeded change under /verif/seeded: confirmed? caught by which check / clause"""
import glob, json, os, sys
V = os.path.dirname(os.path.dirname(os.path.abspath(__file__)))
pat = sys.argv[1] if len(sys.argv) > 1 else "*"
for d in sorted(glob.glob(os.path.join(V, "seeded", pat))):
    mp = os.path.join(d, "meta.json")
    if not os.path.exists(mp):
        continue
    m = json.load(open(mp)).get("verif_result", {})
    print(os.path.basename(d), "confirmed" if m.get("confirmed") else "NOT-CONFIRMED", "caught" if m.get("caught") else "MISSED",
          {p: (c["exit"], [v.split("replay=")[-1].split("/")[-1][:90] for v in c["violations"][:1]]) for p, c in m.get("checks", {}).items()}, m.get("tests", "")[-12:])
