#!/bin/bash
# run the pinned baseline suite and compare with BASELINE.json's stable_pass list
cd /repo && /venv/bin/python -m pytest -ra -q -p no:cacheprovider --timeout=900 --continue-on-collection-errors --junitxml=/tmp/baseline_run.xml > /tmp/baseline_run.log 2>&1
python3 - <<'PY'
import json, xml.etree.ElementTree as ET
base = set(json.load(open('/root/.vp/BASELINE.json'))['stable_pass'])
t = ET.parse('/tmp/baseline_run.xml')
passed = set()
for tc in t.iter('testcase'):
    if not any(c.tag in ('failure', 'error', 'skipped') for c in tc):
        passed.add(f"{tc.get('classname')}::{tc.get('name')}")
missing = sorted(base - passed)
print("baseline stable_pass:", len(base), "passed now:", len(passed & base), "MISSING:", len(missing))
for m in missing[:20]: print("  ", m)
PY
