import sys
def edit(path, old, new):
    s = open(path, newline='').read()
    crlf = '\r\n' in s
    if crlf:
        old = old.replace('\n', '\r\n'); new = new.replace('\n', '\r\n')
    assert s.count(old) == 1, (path, s.count(old))
    open(path, 'w', newline='').write(s.replace(old, new))
