#!/usr/bin/env python3
"""Evaluate a seeded regression on its own scratch git worktree (never touches /repo's working tree, safe to run in parallel):
   tools/seed_eval_wt.py <seed-dir> [--props C01,C04] [--tier quick] [--tests] [--import]

1. git worktree of /repo's HEAD under /tmp/sev/<name>; demo.py must exit 0 there.  2. git apply patch.diff; demo.py must exit 1.
3. with --tests: the pinned test suite must still pass (all baseline tests).  4. the registered check(s) run with HED_REPO=<worktree>
(the extractor reads it, the concrete harness and workloads import hed from it) and VERIF_OUT=<scratch> (evidence/replays of the
patched tree are not mixed into /verif).  5. the worktree is removed.  --import copies a confirmed seed to /verif/seeded/<name>/."""
import argparse, json, os, shutil, subprocess, sys, time
import xml.etree.ElementTree as ET

VERIF = os.path.dirname(os.path.dirname(os.path.abspath(__file__)))


def sh(cmd, **kw):
    return subprocess.run(cmd, shell=True, capture_output=True, text=True, **kw)


def run_tests(wt):
    junit = os.path.join(wt, ".junit.xml")
    sh(f"cd {wt} && PYTHONPATH={wt} /venv/bin/python -m pytest -ra -q -p no:cacheprovider --timeout=900 "
       f"--continue-on-collection-errors --junitxml={junit} > {wt}/.pytest.log 2>&1")
    base = set(json.load(open("/root/.vp/BASELINE.json"))["stable_pass"])
    passed = set()
    try:
        for tc in ET.parse(junit).iter("testcase"):
            if not any(c.tag in ("failure", "error", "skipped") for c in tc):
                passed.add(f"{tc.get('classname')}::{tc.get('name')}")
    except Exception as e:
        return f"no junit: {e}"
    return f"baseline stable_pass: {len(base)} passed now: {len(passed & base)} MISSING: {len(base - passed)}"


def main():
    ap = argparse.ArgumentParser()
    ap.add_argument("seed")
    ap.add_argument("--props")
    ap.add_argument("--tier", default="quick")
    ap.add_argument("--tests", action="store_true")
    ap.add_argument("--import", dest="imp", action="store_true")
    ap.add_argument("--update", action="store_true", help="refresh verif_result of an already imported seed (confirmation is not repeated)")
    a = ap.parse_args()
    seed = os.path.abspath(a.seed)
    name = os.path.basename(seed)
    meta = json.load(open(os.path.join(seed, "meta.json")))
    props = a.props.split(",") if a.props else [meta["property"]]
    root = "/tmp/sev"
    os.makedirs(root, exist_ok=True)
    wt = os.path.join(root, name)
    outdir = os.path.join(root, name + ".out")
    sh(f"git -C /repo worktree remove --force {wt}")
    shutil.rmtree(wt, ignore_errors=True)
    shutil.rmtree(outdir, ignore_errors=True)
    base = meta.get("base_commit") or "HEAD"
    r = sh(f"git -C /repo worktree add --detach {wt} HEAD")
    if r.returncode == 0 and base != "HEAD" and (meta.get("pin_base") or sh(f"git -C {wt} apply --check {seed}/patch.diff").returncode != 0):
        # (pin_base: a later fix made this change harmless on HEAD - it breaks the property only on the commit it was written against)
        # the change was written against an earlier commit and no longer applies to HEAD (a later fix touched the same lines)
        sh(f"git -C /repo worktree remove --force {wt}")
        r = sh(f"git -C /repo worktree add --detach {wt} {base}")
        res_base = base
    else:
        res_base = sh("git -C /repo rev-parse --short HEAD").stdout.strip()
    res = {"seed": name, "property": meta["property"], "checks": {}, "evaluated_on": res_base}
    if r.returncode != 0:
        res["error"] = "worktree: " + r.stderr[-200:]
        print(json.dumps(res)); return 2
    try:
        env = dict(os.environ, PYTHONPATH=wt, PYTHONDONTWRITEBYTECODE="1")
        d0 = subprocess.run(["/venv/bin/python", os.path.join(seed, "demo.py")], capture_output=True, text=True, env=env, timeout=1800, cwd=root)
        res["demo_unchanged"] = d0.returncode
        ap_ = sh(f"git -C {wt} apply {seed}/patch.diff")
        if ap_.returncode != 0:
            res["error"] = "patch does not apply: " + ap_.stderr[:200]
            print(json.dumps(res)); return 2
        d1 = subprocess.run(["/venv/bin/python", os.path.join(seed, "demo.py")], capture_output=True, text=True, env=env, timeout=1800, cwd=root)
        res["demo_patched"] = d1.returncode
        res["demo_msg"] = (d1.stdout + d1.stderr).strip()[-300:]
        if a.tests:
            res["tests"] = run_tests(wt)
        for p in props:
            t0 = time.time()
            cenv = dict(os.environ, HED_REPO=wt, VERIF_OUT=outdir)
            r = subprocess.run(["python3-vt", "checks/check.py", p, "--tier", a.tier], capture_output=True, text=True, cwd=VERIF, env=cenv, timeout=7200)
            lines = [l for l in r.stdout.splitlines() if l.startswith(("VIOLATION", "UNDECIDED", "CHECKER-FAULT", "KNOWN-FINDING"))]
            res["checks"][p] = {"exit": r.returncode, "wall_s": round(time.time() - t0, 1),
                                "violations": [l.replace(outdir, "<scratch>") for l in lines if l.startswith("VIOLATION")][:6],
                                "other": [l[:160] for l in lines if not l.startswith("VIOLATION")][:4],
                                "summary": r.stdout.strip().splitlines()[-1][:200] if r.stdout.strip() else r.stderr[-200:]}
    finally:
        sh(f"git -C /repo worktree remove --force {wt}")
        shutil.rmtree(wt, ignore_errors=True)
        shutil.rmtree(outdir, ignore_errors=True)
    res["caught"] = any(c["exit"] == 1 for c in res["checks"].values())
    res["confirmed"] = res.get("demo_unchanged") == 0 and res.get("demo_patched") == 1 and (not a.tests or "MISSING: 0" in res.get("tests", ""))
    if a.imp and res["confirmed"] and a.tests:
        dst = os.path.join(VERIF, "seeded", name)
        os.makedirs(dst, exist_ok=True)
        for f in ("patch.diff", "demo.py"):
            shutil.copy(os.path.join(seed, f), os.path.join(dst, f))
        meta["verif_result"] = res
        meta["what_i_ran"] = ["tools/seed_eval_wt.py --tests --import: scratch worktree of /repo HEAD; demo.py exit 0; git apply patch.diff; demo.py exit 1; "
                              "pinned test suite on the patched worktree: all baseline tests pass; checks/check.py <property> --tier quick with "
                              "HED_REPO=<worktree>; worktree removed"]
        json.dump(meta, open(os.path.join(dst, "meta.json"), "w"), indent=1)
    if a.update:
        old = meta.get("verif_result", {})
        res["confirmed"] = old.get("confirmed", res["confirmed"])
        res["tests"] = old.get("tests")
        meta["verif_result"] = res
        json.dump(meta, open(os.path.join(seed, "meta.json"), "w"), indent=1)
    print(json.dumps(res))
    return 0


if __name__ == "__main__":
    sys.exit(main())
