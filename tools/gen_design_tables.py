#!/usr/bin/env python3-vt
"""Prints the 'as built' per-property tables for DESIGN.md from the contract registry and the evidence files."""
import json, os, sys
sys.path.insert(0, os.path.dirname(os.path.dirname(os.path.abspath(__file__))))
from pyvc import contract as C
from pyvc.run import load_all
load_all()
V = os.path.dirname(os.path.dirname(os.path.abspath(__file__)))
props = [json.loads(l) for l in open(os.path.join(V, "properties.jsonl"))]
for p in props:
    pid = p["id"]
    ev = json.load(open(os.path.join(V, "evidence", pid + ".json")))
    cov = ev["coverage"]
    print(f"\n#### {pid} {p['title']}\n")
    print(f"Obligations discharged (T1): **{cov['discharged']}/{cov['obligations']}**; solver time {cov.get('solver_ms', 0)} ms; "
          f"bounded cases this run: {cov.get('evaluations', 0)}.\n")
    rows = [ct for ct in C.CONTRACTS.values() if ct.prop == pid or pid in ct.also]
    if rows:
        print("| contract | function | proved clauses | status |")
        print("|---|---|---|---|")
        for ct in sorted(rows, key=lambda c: c.cid):
            cl = [k for k in ct.ensures if not k.startswith(("bounded:", "exc:"))]
            st = "trusted (assumed, body not verified)" if ct.trusted else ("frame/ghost-only (havoc loops)" if ct.unwind == "havoc" else "verified")
            if ct.trusted and ct.cid in C.DISCHARGED:
                st = f"call-site summary; every clause proved from the body as {C.DISCHARGED[ct.cid]}"
            if ct.inline:
                st = "inlined into callers"
            print(f"| {ct.cid} | `{ct.file.split('/')[-1]}:{ct.func}` | {', '.join(cl) or '-'} | {st} |")
    else:
        print("No function of this property is under contract (bounded stand-in only).")
    parts = [b for b in cov.get("bounded", [])]
    if parts:
        print("\nBounded parts (never counted as proved): " + "; ".join(
            f"{b.get('part') or b.get('contract')} ({b.get('cases', '?')} cases{', exhaustive within bound' if b.get('exhaustive_within_bound') else ''})"
            for b in parts[:12]))
