#!/usr/bin/env python3
"""Regenerates /verif/seeded/MATRIX.md from the meta.json files."""
import glob, json, os
VERIF = os.path.dirname(os.path.dirname(os.path.abspath(__file__)))
rows = []
HIST = json.load(open(os.path.join(VERIF, "seeded", "HISTORY.json"))) if os.path.exists(os.path.join(VERIF, "seeded", "HISTORY.json")) else {}
for m in sorted(glob.glob(os.path.join(VERIF, "seeded", "*", "meta.json"))):
    d = json.load(open(m))
    name = os.path.basename(os.path.dirname(m))
    res = d.get("verif_result", {})
    for p, c in res.get("checks", {}).items():
        v = c["violations"]
        what = "; ".join(x.split("replay=")[1].split("/")[-1].replace(".json", "")[:90] + (" (no-failing-input-found)" if "no-failing-input-found" in x else "") for x in v[:2])
        rows.append((name, p, "caught (exit 1)" if c["exit"] == 1 else f"MISSED (exit {c['exit']})", what or c.get("summary", "")[:80],
                     (HIST.get(name, {}).get("first", "caught") + (" -> " + HIST[name]["then"] if name in HIST else "")).replace("|", "/"),
                     d.get("summary", "")[:110].replace("|", "/")))
with open(os.path.join(VERIF, "seeded", "MATRIX.md"), "w") as f:
    f.write("# Seeded changes vs checks\n\nEach change compiles, keeps the 690 baseline tests green and breaks the property (demo.py). "
            "`caught` = the property's quick check exits 1 with a VIOLATION line against the patched tree. "
            "The column 'first evaluation' is the outcome before any strengthening (HISTORY.json).\n\n")
    f.write("| seed | check | outcome now | first violated obligation / clause | first evaluation -> strengthening | change |\n|---|---|---|---|---|---|\n")
    for r in rows:
        f.write("| " + " | ".join(r) + " |\n")
    n = len(rows); c = sum(1 for r in rows if r[2].startswith("caught"))
    f.write(f"\n{c}/{n} caught.\n")
print(open(os.path.join(VERIF, "seeded", "MATRIX.md")).read()[-600:])
