#!/usr/bin/env python3-vt
"""check.py <Cnn> [--tier quick|thorough] [--replay file]

Decides one property: (T1) every proof obligation generated from the *current* /repo source for the
contracts of that property is discharged by z3/cvc5; (T3, labelled bounded) the same contract text is
evaluated on the real functions over enumerated inputs, plus the property-level bounded workload.

exit 0  held on everything explored (KNOWN-FINDING lines possible)
exit 1  VIOLATION property=<id> replay=<path>
exit 2  UNDECIDED (solver unknown / construct outside the subset) - never reported as a violation
exit 3  checker fault
"""
import argparse
import json
import os
import subprocess
import sys
import time

VERIF = os.path.dirname(os.path.dirname(os.path.abspath(__file__)))
sys.path.insert(0, VERIF)
VENV_PY = "/venv/bin/python"

from pyvc import contract as C  # noqa: E402
from pyvc.run import load_all, verify_many, verify_one  # noqa: E402


# the tree under verification: /repo, or the tree named by HED_REPO (used to evaluate seeded changes on a scratch worktree: the
# extractor reads it, and the concrete harness / workloads import `hed` from it instead of the editable install of /repo)
_REPO = os.environ.get("HED_REPO", "/repo")
SUBPATH = VERIF if os.path.realpath(_REPO) == "/repo" else _REPO + os.pathsep + VERIF
OUT = os.environ.get("VERIF_OUT", VERIF)      # where evidence/ and replays/ are written


def _limits():
    """address-space cap for the sub-processes that run repository code (a changed tree must not be able to exhaust the machine)"""
    try:
        import resource
        cap = 24 * 2 ** 30
        resource.setrlimit(resource.RLIMIT_AS, (cap, cap))
    except Exception:
        pass


def conc(req, timeout=900):
    try:
        p = subprocess.run([VENV_PY, "-m", "rt.conc"], input=json.dumps(req), capture_output=True, text=True, cwd=VERIF,
                           timeout=timeout, env=dict(os.environ, PYTHONPATH=SUBPATH, PYTHONDONTWRITEBYTECODE="1"), preexec_fn=_limits)
    except subprocess.TimeoutExpired:
        return {"error": f"bounded search exceeded {timeout} s"}
    if p.returncode != 0 or not p.stdout.strip():
        return {"error": (p.stderr or "no output")[-800:]}
    try:
        return json.loads(p.stdout)
    except ValueError:
        return {"error": "bad json: " + p.stdout[-300:]}


def model_is_replayable(ct, model):
    """a solver model can be replayed on the real function only if every parameter is a plain value (text, number, flag) and the model
    fixes all of them; object parameters are references of the abstract heap model, not real objects"""
    import re
    plain = {"Str", "NStr", "AStr", "Int", "Bool", "Real", "Float"}
    for name, ty in ct.params.items():
        if not set(re.findall(r"[A-Za-z_]+", ty)) <= (plain | {"Opt", "Optional"}):
            return False
        if name not in model:
            return False
    return True


def load_known():
    path = os.path.join(VERIF, "known_findings.json")
    if not os.path.exists(path):
        return []
    return json.load(open(path))


def match_known(known, prop, clause, case):
    """a failure is known only if a listed finding names this clause and its witness predicate accepts the case"""
    for k in known:
        if k.get("status") != "known" or k["property"] != prop:
            continue
        if k["clause"] != clause and not clause.startswith(k["clause"]):
            continue
        try:
            if eval(k["witness"], {"case": case, "json": json}):
                return k
        except Exception:
            continue
    return None


def write_replay(prop, name, payload):
    d = os.path.join(OUT, "replays")
    os.makedirs(d, exist_ok=True)
    path = os.path.join(d, f"{prop}_{name}.json".replace("/", "_").replace(" ", "_").replace(":", "_").replace("#", "_"))
    with open(path, "w") as f:
        json.dump(payload, f, indent=1, default=str)
    return path


def main():
    ap = argparse.ArgumentParser()
    ap.add_argument("prop")
    ap.add_argument("--tier", default=os.environ.get("VERIF_TIER", "quick"))
    ap.add_argument("--replay")
    ap.add_argument("--no-rt", action="store_true")
    a = ap.parse_args()
    prop, tier = a.prop, a.tier
    seed = int(os.environ.get("VERIF_SEED", "0"))
    t0 = time.time()
    if a.replay:
        return do_replay(prop, a.replay)
    load_all()
    known = load_known()
    cids = sorted(c for c, ct in C.CONTRACTS.items() if (ct.prop == prop or prop in ct.also) and not ct.trusted)
    trusted = sorted(c for c, ct in C.CONTRACTS.items() if (ct.prop == prop or prop in ct.also) and ct.trusted)
    timeout_ms = 10000 if tier == "quick" else 30000
    results = verify_many(cids, timeout_ms=timeout_ms) if cids else {}

    violations, known_lines, undecided, faults = [], [], [], []
    clauses = {}          # clause id -> list of path obligations
    functions = []
    assumptions = set()
    bounded_notes = []
    solver_ms = 0
    by_backend = {}
    callees = {}
    for cid in cids:
        r = results[cid]
        ct = C.CONTRACTS[cid]
        if not r.get("ok"):
            if "ExtractError" in r.get("error", ""):
                undecided.append(f"{cid}: {r['error']}")
            else:
                faults.append(f"{cid}: {r.get('error')}")
            continue
        functions.append({"contract": cid, "file": ct.file, "function": ct.func, "sha256_16": r["sha"], "paths": r["paths"],
                          "tier": "T2-bounded" if r["bounded"] else "T1"})
        assumptions.update(r["assumptions"])
        assumptions.update(f"{cid}: {x}" for x in ct.assume)
        bounded_notes += r["bounded"]
        for k, v in r["calls"].items():
            callees[k] = v
        reach = [o for o in r["obligations"] if o["kind"] == "canary"]
        if reach and all(o["verdict"] == "unsat" for o in reach):
            faults.append(f"{cid}: vacuous - no path is reachable (contradictory precondition?)")
        real = [o for o in r["obligations"] if o["kind"] != "canary"]
        if not real:
            faults.append(f"{cid}: zero obligations generated")
        for o in real:
            clauses.setdefault(o["id"], []).append(o)
            solver_ms += o["ms"] or 0
            by_backend[o["backend"] or "none"] = by_backend.get(o["backend"] or "none", 0) + 1

    base_path = os.path.join(VERIF, "baseline", "obligations.json")
    baseline = json.load(open(base_path)) if os.path.exists(base_path) else {}
    base_prop = baseline.get(prop, {"clauses": [], "sha": {}})
    sha_now = {cid: results[cid].get("sha") for cid in cids if results[cid].get("ok")}
    discharged = 0
    failed_clauses = []
    for oid, obs in clauses.items():
        vs = [o["verdict"] for o in obs]
        cid = oid.split(":")[0]
        if all(v == "unsat" for v in vs):
            discharged += 1
        elif any(v == "sat" for v in vs):
            failed_clauses.append((oid, obs))
        elif any(v == "unknown" for v in vs) and oid in base_prop["clauses"] \
                and base_prop["sha"].get(cid) not in (None, sha_now.get(cid)):
            # the obligation was discharged for the baseline source and can no longer be discharged for the CHANGED source of
            # this function: the change broke the proof.  Reported as a violation without a failing input (DESIGN 2.6).
            failed_clauses.append((oid, obs))
        else:
            why = "; ".join(sorted({(o.get("detail") or o["verdict"])[:120] for o in obs if o["verdict"] != "unsat"}))
            undecided.append(f"{oid}: {why}")
    # a path of a CHANGED function that the executor cannot follow any more ends before its exit clauses are generated: the clauses that
    # were discharged for the baseline source of that function and are not discharged now are reported the same way (DESIGN 2.6)
    changed = {cid for cid in cids if results[cid].get("ok") and base_prop["sha"].get(cid) not in (None, sha_now.get(cid))}
    already = {oid for oid, _ in failed_clauses}
    for oid in base_prop["clauses"]:
        cid = oid.split(":")[0]
        if cid not in changed or oid in already:
            continue
        if not any(k in oid for k in (":ensures:", ":raises:", ":frame:", ":independent:", ":final:", ":lemma:")):
            continue        # ids of call-site / loop / safety obligations carry ordinals that move when statements are added: not compared
        obs_now = clauses.get(oid)
        if obs_now is not None and all(o["verdict"] == "unsat" for o in obs_now) \
                and not any(o["kind"] == "unsupported" and o["id"].split(":")[0] == cid for os_ in clauses.values() for o in os_):
            continue
        if obs_now is not None and any(o["verdict"] == "sat" for o in obs_now):
            continue            # (already among the failed clauses)
        stoppers = [o for os_ in clauses.values() for o in os_ if o["kind"] == "unsupported" and o["id"].split(":")[0] == cid]
        if obs_now is None or not all(o["verdict"] == "unsat" for o in obs_now) or stoppers:
            if stoppers or obs_now is None:
                failed_clauses.append((oid, (obs_now or []) + stoppers[:2]))
                already.add(oid)
    if changed:
        undecided[:] = [u for u in undecided if u.split(":")[0] not in changed or not any(f[0].split(":")[0] == u.split(":")[0] for f in failed_clauses)]

    # ---- bounded contract search on the real code (T3 per function): always for failing contracts,
    #      and for every contract with a generator (this is the labelled bounded stand-in / cross-check)
    bounded = []
    search_cache = {}
    if not a.no_rt:
        todo = [cid for cid in sorted(set(cids) | set(trusted)) if C.CONTRACTS[cid].bounded]
        from concurrent.futures import ThreadPoolExecutor
        with ThreadPoolExecutor(max_workers=6) as ex:       # independent sub-processes (one per contract)
            found = dict(zip(todo, ex.map(lambda c: conc({"op": "search", "cid": c, "tier": tier}), todo)))
        for cid in todo:
            ct = C.CONTRACTS[cid]
            res = found[cid]
            search_cache[cid] = res
            if "error" in res:
                faults.append(f"{cid}: concrete harness: {res['error'][-300:]}")
                continue
            bounded.append({"contract": cid, "tier": "T3-runtime-contract", "cases": res.get("cases", 0),
                            "nontrivial": res.get("nontrivial", 0), "generators": {k: v for k, v in ct.bounded.items()},
                            "exhaustive_within_bound": True, "failures": len(res.get("failures", []))})
            for f in res.get("failures", []):
                for lbl in f["violated"]:
                    clause = f"{cid}:{lbl}"
                    k = match_known(known, prop, clause, f)
                    if k:
                        line = f"KNOWN-FINDING: property={prop} {k['text']} [{clause} on {json.dumps(f['input'])[:120]}]"
                        if line not in known_lines:
                            known_lines.append(line)
                    else:
                        path = write_replay(prop, clause, {"property": prop, "kind": "bounded-contract", "contract": cid,
                                                           "clause": lbl, "case": f})
                        violations.append((clause, path, ""))

    # ---- failed proof obligations
    for oid, obs in failed_clauses:
        cid = oid.split(":")[0]
        ct = C.CONTRACTS[cid]
        sat_obs = [o for o in obs if o["verdict"] == "sat"] or [o for o in obs if o["verdict"] != "unsat"]
        concrete = None
        # (0) data obligations carry a text that was already replayed with python's re on the pattern read from the repository file
        for o in sat_obs:
            if ct.func == "<regex-data>" and (o.get("model") or {}).get("replayed"):
                concrete = {"input": o["model"], "violated": [o["label"]], "source": "solver model, replayed with re.match on the file's pattern"}
                break
        # (1) replay the model's inputs on the real function
        for o in sat_obs:
            if concrete is not None:
                break
            if o.get("model") and ct.bounded is not None and not a.no_rt and model_is_replayable(ct, o["model"]):
                rep = conc({"op": "replay", "cid": cid, "inputs": o["model"]})
                if rep.get("violated"):
                    concrete = {"input": o["model"], "violated": rep["violated"], "outcome": rep.get("outcome"),
                                "result": rep.get("result"), "exception": rep.get("exception"), "source": "solver model"}
                    break
        # (2) any failing input from the bounded search of that contract
        if concrete is None and cid in search_cache and search_cache[cid].get("failures"):
            f = search_cache[cid]["failures"][0]
            concrete = dict(f, source="bounded search")
        payload = {"property": prop, "kind": "proof-obligation", "obligation": oid, "contract": cid,
                   "function": f"{ct.file}:{ct.func}",
                   "clause": (sat_obs[0]["info"].get("clause") if sat_obs else
                              "discharged for the baseline source of this function; not generated for the changed source"),
                   "paths": [{"path": o["path"], "verdict": o["verdict"], "model": o.get("model"), "detail": o.get("detail")} for o in obs],
                   "concrete": concrete}
        if concrete is not None:
            all_known = all(match_known(known, prop, f"{cid}:{lbl}", concrete) for lbl in concrete["violated"])
            if all_known:
                k = match_known(known, prop, f"{cid}:{concrete['violated'][0]}", concrete)
                line = f"KNOWN-FINDING: property={prop} {k['text']} [{oid}]"
                if line not in known_lines:
                    known_lines.append(line)
                continue
            path = write_replay(prop, oid, payload)
            violations.append((oid, path, ""))
        else:
            k = match_known(known, prop, oid, {"obligation": oid, "input": None})
            if k:
                known_lines.append(f"KNOWN-FINDING: property={prop} {k['text']} [{oid}]")
                continue
            path = write_replay(prop, oid, payload)
            violations.append((oid, path, " no-failing-input-found"))

    # ---- property-level bounded workload (T3)
    rt_info = None
    rt_mod = os.path.join(VERIF, "rt", f"{prop.lower()}.py")
    if os.path.exists(rt_mod) and not a.no_rt:
        rt_budget = 45 * 60 if tier == "quick" else 4 * 3600
        try:
            p = subprocess.run([VENV_PY, "-m", f"rt.{prop.lower()}", "--tier", tier, "--seed", str(seed)], capture_output=True, text=True,
                               cwd=VERIF, env=dict(os.environ, PYTHONPATH=SUBPATH, PYTHONDONTWRITEBYTECODE="1"),
                               timeout=rt_budget, preexec_fn=_limits)
            out_text, err_text = p.stdout, p.stderr
        except subprocess.TimeoutExpired:
            out_text, err_text = "", f"workload exceeded its budget of {rt_budget} s (hang or far slower code)"
        try:
            rt_info = json.loads(out_text.strip().splitlines()[-1])
        except (ValueError, IndexError):
            faults.append(f"rt.{prop.lower()} failed: {(err_text or out_text)[-600:]}")
        if rt_info:
            for f in rt_info.get("failures", []):
                clause = f["clause"]
                k = match_known(known, prop, clause, f)
                if k:
                    line = f"KNOWN-FINDING: property={prop} {k['text']} [{clause}]"
                    if line not in known_lines:
                        known_lines.append(line)
                else:
                    path = write_replay(prop, "rt_" + clause + "_" + str(len(violations)), {"property": prop, "kind": "bounded-workload", "case": f})
                    violations.append((clause, path, ""))
            bounded += rt_info.get("bounded", [])

    # ---- baseline: fewer obligations than the committed baseline is a checker fault
    missing = [c for c in base_prop["clauses"] if c not in clauses]
    if missing and not faults and not undecided:
        undecided.append(f"{len(missing)} baseline obligations not generated: {missing[:4]}")

    # ---- evidence
    n_obl = len(clauses)
    claimed = "other"
    try:
        for c in json.load(open(os.path.join(VERIF, "MANIFEST.json")))["checks"]:
            if c["property_id"] == prop:
                claimed = c["level_claimed"]["category"]
    except (OSError, ValueError, KeyError):
        pass
    level = "proof" if (claimed == "proof" and n_obl and discharged == n_obl) else "other"
    samples = []
    for oid, obs in list(clauses.items())[:6]:
        samples.append({"obligation": oid, "paths": len(obs), "verdicts": sorted({o["verdict"] for o in obs}),
                        "backend": obs[0]["backend"], "ms": sum(o["ms"] or 0 for o in obs)})
    if rt_info:
        samples += rt_info.get("samples", [])[:4]
    trusted_base = ["pyvc VC generator (/verif/pyvc): encoding of the Python subset, DESIGN.md section 4",
                    "z3 5.1.0 / cvc5 1.0.3", "ast module of python3-vt"] + \
                   [f"trusted contract (body not verified): {c} -> {C.CONTRACTS[c].file}:{C.CONTRACTS[c].func}" for c in trusted
                    if c not in C.DISCHARGED]
    # a summary whose every clause is proved from the body by another contract of this run (pyvc/contract.py:apply_discharges) is no assumption
    summaries_proved = [f"{c} -> {C.CONTRACTS[c].file}:{C.CONTRACTS[c].func}: every clause proved from the body as {C.DISCHARGED[c]}"
                        for c in trusted if c in C.DISCHARGED and C.DISCHARGED[c] in cids]
    for caller, cs in callees.items():
        for callee, how in cs:
            if how == "trusted" and callee not in C.DISCHARGED:
                trusted_base.append(f"{caller} relies on trusted contract {callee}")
    cov = {"obligations": n_obl, "discharged": discharged,
           "checker_cmd": f"python3-vt checks/check.py {prop} --tier {tier}",
           "trusted_base": sorted(set(trusted_base)), "summaries_proved": summaries_proved, "samples": samples,
           "functions_under_contract": functions, "by_backend": by_backend, "solver_ms": solver_ms,
           "bounded": bounded, "bounded_notes": bounded_notes,
           "undecided": undecided, "callees": {k: sorted(map(list, v)) for k, v in callees.items()},
           "explanation": (f"T1: {discharged}/{n_obl} proof obligations discharged (unbounded, loop invariants) for "
                           f"{len(functions)} functions extracted from the working tree. "
                           f"Bounded parts (never counted as proved): {len(bounded)} runtime-contract searches/workloads.")}
    if rt_info:
        cov["evaluations"] = rt_info.get("evaluations", 0)
        cov["distinct_nontrivial"] = rt_info.get("distinct_nontrivial", 0)
        cov["rule"] = rt_info.get("rule", "")
        cov["exhaustive"] = bool(rt_info.get("exhaustive", False))
        if rt_info.get("not_covered"):
            cov["not_covered"] = rt_info["not_covered"]
    elif bounded:
        cov["evaluations"] = sum(b.get("cases", 0) for b in bounded)
        cov["distinct_nontrivial"] = sum(b.get("nontrivial", 0) for b in bounded)
        cov["rule"] = "exhaustive product of each contract's input generators; non-trivial = precondition true and function ran"
    ev = {"property_id": prop, "tier": tier, "seed": seed, "level": level, "coverage": cov,
          "assumptions": sorted(assumptions) + (rt_info.get("assumptions", []) if rt_info else []),
          "wall_s": round(time.time() - t0, 2), "violations": len(violations)}
    os.makedirs(os.path.join(OUT, "evidence"), exist_ok=True)
    with open(os.path.join(OUT, "evidence", f"{prop}.json"), "w") as f:
        json.dump(ev, f, indent=1, default=str)

    for line in known_lines:
        print(line)
    for u in undecided:
        print(f"UNDECIDED {u}")
    for fl in faults:
        print(f"CHECKER-FAULT {fl}")
    print(f"{prop}: obligations {discharged}/{n_obl} discharged, {len(bounded)} bounded parts, "
          f"{len(violations)} violation(s), {len(undecided)} undecided, {round(time.time() - t0, 1)}s")
    if violations:
        seen = set()
        for clause, path, suffix in violations:
            if path in seen:
                continue
            seen.add(path)
            print(f"VIOLATION property={prop} replay={path}{suffix}")
        return 1
    if faults:
        return 3
    if undecided:
        return 2
    return 0


def do_replay(prop, path):
    """re-run ONE recorded violation against the current tree: exit 1 if it is still there, 0 if it is gone"""
    payload = json.load(open(path))
    print(json.dumps(payload, indent=1)[:3000])
    kind = payload.get("kind")
    if kind in ("proof-obligation", "bounded-contract"):
        still = False
        cid = payload["contract"]
        if kind == "proof-obligation":
            # (a) the obligation itself: generate it again from the current source and try to discharge it
            load_all()
            r = verify_one(cid, 30000)
            obs = [o for o in r.get("obligations", []) if o["id"] == payload["obligation"]] if r.get("ok") else []
            verdicts = [o["verdict"] for o in obs]
            print(f"obligation {payload['obligation']} on the current tree: {verdicts or r.get('error', 'not generated')}")
            if not obs or any(v != "unsat" for v in verdicts):
                still = True
        case = payload.get("concrete") or payload.get("case")
        if case and isinstance(case.get("input"), dict):
            # (b) the recorded concrete input on the real function
            rep = conc({"op": "replay", "cid": cid, "inputs": case["input"]})
            print("recorded input on the current tree:", json.dumps(rep)[:1500])
            still = still or bool(rep.get("violated"))
        elif case:
            # (b') the input holds real objects (not serialisable): re-run the deterministic bounded search of this contract
            load_all() if not C.CONTRACTS else None
            res = conc({"op": "search", "cid": cid, "tier": "quick"})
            labels = set(case.get("violated", []))
            hits = [f for f in res.get("failures", []) if labels & set(f.get("violated", []))]
            print(f"bounded search of {cid} on the current tree: {res.get('cases', 0)} cases, "
                  f"{len(hits)} failing the recorded clause(s) {sorted(labels)}; first: {json.dumps(hits[:1])[:600]}")
            still = still or bool(hits) or "error" in res
        elif kind == "proof-obligation":
            print("no concrete input was found for this obligation (no-failing-input-found)")
        return 1 if still else 0
    if kind == "bounded-workload":
        p = subprocess.run([VENV_PY, "-m", f"rt.{prop.lower()}", "--replay", path], cwd=VERIF,
                           env=dict(os.environ, PYTHONPATH=SUBPATH))
        return p.returncode
    return 3


if __name__ == "__main__":
    try:
        rc = main()
    except SystemExit:
        raise
    except BaseException:          # a crash of the checker itself is exit 3, never exit 1 (python's default for an uncaught exception)
        import traceback
        traceback.print_exc()
        print("CHECKER-FAULT check.py crashed (see the traceback above)")
        rc = 3
    sys.exit(rc)
