"""Spec functions over strings (pure Python subset: executed by CPython and translated to SMT)."""


def implies(a, b):
    return (not a) or b


def iff(a, b):
    return bool(a) == bool(b)


def open_at(s: "Str", n: "Int") -> "Int":
    """position of the curly brace that is open after reading s[:n], or -1"""
    return -1 if n <= 0 else (n - 1 if s[n - 1] == '{' else (-1 if s[n - 1] == '}' else open_at(s, n - 1)))


def brace_fault_at(s: "Str", k: "Int") -> "Bool":
    """reading s[k] is a brace fault: '{' while one is open (nesting) or '}' while none is open"""
    return (s[k] == '{' and open_at(s, k) >= 0) or (s[k] == '}' and open_at(s, k) < 0)


def no_brace_fault_before(s: "Str", n: "Int") -> "Bool":
    return True if n <= 0 else (no_brace_fault_before(s, n - 1) and not brace_fault_at(s, n - 1))


def braces_ok(s: "Str") -> "Bool":
    """no nested '{', no '}' without an open '{', and nothing left open"""
    return no_brace_fault_before(s, len(s)) and open_at(s, len(s)) < 0


# ----------------------------------------------------------------------------- tokenizer (C02)
def is_delim(c):
    return c == ',' or c == '(' or c == ')'


def covered(R):
    """end of the last span of R (0 for the empty list)"""
    return 0 if len(R) == 0 else R[len(R) - 1][1][1]


def spans_wf(R, n):
    """non-empty consecutive spans starting at 0 and ending at or before n"""
    return (all(0 <= R[k][1][0] < R[k][1][1] <= n for k in range(len(R)))
            and all(implies(k2 == k + 1, R[k][1][1] == R[k2][1][0]) for k in range(len(R)) for k2 in range(len(R)))
            and (len(R) == 0 or R[0][1][0] == 0))


def tag_span_ok(s, a, b):
    """a tag span holds no delimiter and neither starts nor ends with a blank"""
    return s[a] != ' ' and s[b - 1] != ' ' and all(not is_delim(s[j]) for j in range(a, b))


def delim_span_ok(s, a, b):
    """a delimiter span holds only delimiters and blanks, at most one of them non-blank"""
    return (all(is_delim(s[j]) or s[j] == ' ' for j in range(a, b))
            and all(s[j1] == ' ' or s[j2] == ' ' for j1 in range(a, b) for j2 in range(j1 + 1, b)))


def has_delim(s, a, b):
    return any(is_delim(s[j]) for j in range(a, b))


def spans_chars_ok(R, s):
    return all((tag_span_ok(s, R[k][1][0], R[k][1][1]) if R[k][0] else delim_span_ok(s, R[k][1][0], R[k][1][1]))
               for k in range(len(R)))


def no_adjacent_tags(R):
    return all(implies(k2 == k + 1, not (R[k][0] and R[k2][0])) for k in range(len(R)) for k2 in range(len(R)))


def inner_delims_present(R, s, n):
    """a non-tag span that touches neither end of the text contains a delimiter (so blanks alone never split a tag)"""
    return all(implies(not R[k][0] and R[k][1][0] > 0 and R[k][1][1] < n, has_delim(s, R[k][1][0], R[k][1][1]))
               for k in range(len(R)))


# ----------------------------------------------------------------------------- maps as views (C10)
def same_keys(m1, m0):
    """smt-builtin: keys(m1) == keys(m0)"""
    return set(m1) == set(m0)


def map_eq_except_add(m1, m0, key):
    """smt-builtin: keys(m1) == keys(m0) | {key}"""
    return set(m1) == set(m0) | {key}


def map_eq_except_del(m1, m0, key):
    """smt-builtin: keys(m1) == keys(m0) - {key}"""
    return set(m1) == set(m0) - {key}


# ----------------------------------------------------------------------------- namespaces (C13)
def has_namespace_colon(t):
    """some ':' of t is preceded by neither '/' nor ':'"""
    return any(t[i] == ':' and all(t[j] != '/' and t[j] != ':' for j in range(i)) for i in range(len(t)))


# ----------------------------------------------------------------------------- parentheses (C01, C02)
def count_char(s: "Str", c: "Str", n: "Int") -> "Int":
    """number of occurrences of the one-character string c in s[:n]  (str.count for one character)"""
    return 0 if n <= 0 else count_char(s, c, n - 1) + (1 if s[n - 1] == c else 0)


def depth(s: "Str", n: "Int") -> "Int":
    """parenthesis nesting depth after reading s[:n]"""
    return 0 if n <= 0 else depth(s, n - 1) + (1 if s[n - 1] == '(' else (-1 if s[n - 1] == ')' else 0))


def never_negative(s: "Str", n: "Int") -> "Bool":
    """no prefix of s[:n] closes more parentheses than it opened"""
    return True if n <= 0 else (never_negative(s, n - 1) and depth(s, n) >= 0)


def balanced(s):
    return never_negative(s, len(s)) and depth(s, len(s)) == 0


def replace_all(s, a, b):
    """smt-builtin: python str.replace (all occurrences)"""
    return s.replace(a, b)


# ----------------------------------------------------------------------------- tag resolution (C03)
def next_boundary(w, k):
    """position of the next '/' after position k, or len(w)"""
    return len(w) if w.find('/', k + 1) == -1 else w.find('/', k + 1)


# ----------------------------------------------------------------------------- lists as sets of members
def all_in(lst, pred):
    """smt-builtin: pred holds for every member of lst"""
    return all(pred(x) for x in lst)


def any_in(lst, pred):
    """smt-builtin: pred holds for some member of lst"""
    return any(pred(x) for x in lst)


# ----------------------------------------------------------------------------- issues (C12)
def issue_wf(x):
    """well-formedness of an issue's tag-relative indices w.r.t. the place of its tag in the validated text:
    what every format_error call site establishes (sub-tag span call-pre) and _update_error_with_char_pos needs"""
    return ((x.span_start is None) == (x.span_end is None)
            and implies(x.span_start is not None, 0 <= x.span_start and x.span_start <= x.span_end)
            and implies(x.has_index_in_tag, 0 <= x.index_in_tag)
            and implies(x.has_index_in_tag and x.has_index_in_tag_end and x.span_start is not None,
                        x.index_in_tag <= x.index_in_tag_end and x.index_in_tag_end <= x.span_end - x.span_start)
            and implies(x.has_index_in_tag and not x.has_index_in_tag_end and x.span_start is not None,
                        x.index_in_tag <= x.span_end - x.span_start)
            and implies(x.has_index_in_tag_end, x.has_index_in_tag and x.index_in_tag_end is not None)
            and implies(x.has_source_tag, x.source_tag is not None))


# ----------------------------------------------------------------------------- joined strings (C07, C12)
def joined_offset(parts: "List[HedString]", j: "Int") -> "Int":
    """start of part j inside ','.join(parts): every earlier part contributes its length plus one comma"""
    return 0 if j <= 0 else joined_offset(parts, j - 1) + parts[j - 1].span[1] + 1


# ----------------------------------------------------------------------------- definitions (C09)
def hash_tag_count(tags: "List[HedTag]", n: "Int") -> "Int":
    """how many of tags[:n] contain a '#' in their text"""
    return 0 if n <= 0 else hash_tag_count(tags, n - 1) + (1 if '#' in tags[n - 1].__str__ else 0)


# ----------------------------------------------------------------------------- temporal context (C20)
def covers(onsets, e, i):
    """time point i lies strictly inside the process e: started at an earlier time point (not merely an earlier row of the same
    time point) and not ended"""
    return e.start_index < i and i < e.end_index and onsets[i] - e.start_time > 1e-9


# ----------------------------------------------------------------------------- delimiter scan (C01, C04)
def last_nb(s: "Str", n: "Int") -> "Int":
    """code point of the last non-whitespace character of s[:n], -1 if there is none (blanks never matter)"""
    return -1 if n <= 0 else (last_nb(s, n - 1) if s[n - 1].isspace() else ord(s[n - 1]))


def delim_fault_at(s, i):
    """the non-blank character s[i] is a delimiter fault given the last non-blank character before it:
    an empty tag (comma at the start / after ',' / after '(' ; ')' after ','), or a missing comma ('x(' or ')x')"""
    return (not s[i].isspace()) and (
        (s[i] == ',' and (last_nb(s, i) == -1 or last_nb(s, i) == 44 or last_nb(s, i) == 40))
        or (s[i] == '(' and not (last_nb(s, i) == -1 or last_nb(s, i) == 44 or last_nb(s, i) == 40))
        or (s[i] == ')' and last_nb(s, i) == 44)
        or (last_nb(s, i) == 41 and s[i] != ',' and s[i] != ')'))


def delims_ok_before(s: "Str", n: "Int") -> "Bool":
    return True if n <= 0 else (delims_ok_before(s, n - 1) and not delim_fault_at(s, n - 1))


def delims_wellformed(s):
    """no empty tag, no missing comma, no trailing comma - judged on the non-blank characters only"""
    return delims_ok_before(s, len(s)) and last_nb(s, len(s)) != 44


# ----------------------------------------------------------------------------- forbidden characters (C01)
def forbidden_char(c, allow_placeholders, modern_rules):
    """square brackets and '~' always, curly braces unless placeholders are allowed; non-printable (8.3 rules) or non-ASCII (older)"""
    return (c == '[' or c == ']' or c == '~' or ((c == '{' or c == '}') and not allow_placeholders)
            or ((not c.isprintable()) if modern_rules else ord(c) > 127))


def allowed_tag_char(c, allowed):
    """letters and digits, the listed extra characters, and ':' (clock times)"""
    return c.isalnum() or c in allowed or c == ':'


# ----------------------------------------------------------------------------- comma-separated lists (C14)
def is_field(s, sep, e):
    """e is one of the fields of s.split(sep) (sep a single character)"""
    return sep not in e and (s == e or s.startswith(e + sep) or s.endswith(sep + e) or (sep + e + sep) in s)


# ----------------------------------------------------------------------------- ownership (C09 copies)
def fresh(x):
    """smt-builtin: x was allocated during the call under verification (concretely only 'is an object' can be observed)"""
    return x is not None


def split_off(s, sep, k):
    """smt-builtin: start position of the k-th field of s.split(sep)"""
    return sum(len(f) + 1 for f in s.split(sep)[:k])


def is_in(x, lst):
    """smt-builtin: x is (identity) one of the elements of lst"""
    return any(x is e for e in lst)


# ----------------------------------------------------------------------------- placeholders of a definition (C09)
def count_of(s, c):
    """smt-builtin: s.count(c)"""
    return s.count(c)


def n_hash_tags(L: "List[HedTag]", n: "Int") -> "Int":
    """number of tags among the first n of L whose text contains a '#'"""
    return 0 if n <= 0 else n_hash_tags(L, n - 1) + (1 if count_of(L[n - 1].__str__, '#') > 0 else 0)


def join_off(sep, parts, j):
    """smt-builtin: start of part j inside sep.join(parts)"""
    return sum(len(p) + len(sep) for p in parts[:j])


def no_keys(m):
    """smt-builtin: the map has no key at all"""
    return len(m) == 0
