"""Spec functions over strings (pure Python subset: executed by CPython and translated to SMT)."""


def implies(a, b):
    return (not a) or b


def iff(a, b):
    return bool(a) == bool(b)


def open_at(s: "Str", n: "Int") -> "Int":
    """position of the curly brace that is open after reading s[:n], or -1"""
    return -1 if n <= 0 else (n - 1 if s[n - 1] == '{' else (-1 if s[n - 1] == '}' else open_at(s, n - 1)))


def brace_fault_at(s: "Str", k: "Int") -> "Bool":
    """reading s[k] is a brace fault: '{' while one is open (nesting) or '}' while none is open"""
    return (s[k] == '{' and open_at(s, k) >= 0) or (s[k] == '}' and open_at(s, k) < 0)


def no_brace_fault_before(s: "Str", n: "Int") -> "Bool":
    return True if n <= 0 else (no_brace_fault_before(s, n - 1) and not brace_fault_at(s, n - 1))


def braces_ok(s: "Str") -> "Bool":
    """no nested '{', no '}' without an open '{', and nothing left open"""
    return no_brace_fault_before(s, len(s)) and open_at(s, len(s)) < 0
