"""Case generators for the bounded contract searches (concrete side)."""
import itertools


def issue_lists(tier):
    sevs = [1, 10, 5]
    n = 3 if tier == "quick" else 5
    for ln in range(n + 1):
        for combo in itertools.product(sevs, repeat=ln):
            issues = [{"code": f"C{k}", "message": "m", "severity": s} for k, s in enumerate(combo)]
            for sev in (1, 10, 0):
                yield {"issues_list": issues, "severity": sev}


def issue_lists_only(tier):
    seen = set()
    for case in issue_lists(tier):
        key = tuple(i["severity"] for i in case["issues_list"])
        if key not in seen:
            seen.add(key)
            yield {"issues_list": case["issues_list"]}


def char_cases(tier):
    from rt.adapters import _Obj
    alpha = "a[~{}\x07é "
    n = 3 if tier == "quick" else 4
    for ln in range(n + 1):
        for tup in itertools.product(alpha, repeat=ln):
            for ap in (False, True):
                for modern in (False, True):
                    yield {"self": _Obj(_validate_characters=modern), "hed_string": "".join(tup), "allow_placeholders": ap}


def in_library_cases(tier):
    from rt.adapters import _Obj
    names = ["score", "lang", "sc", "core", "", "score,lang", "e,l", ","]
    libs = ["score", "score,lang", "lang,score", "", "a,score,b", "testlib", "scoretest", "score,", ",score", "x,,y"]
    if tier != "quick":
        alpha = "ab,"
        extra = ["".join(t) for n in range(0, 5) for t in itertools.product(alpha, repeat=n)]
        names = names + [e for e in extra if len(e) <= 2]
        libs = libs + extra
    for lib in libs:
        for nm in names:
            yield {"hed_schema": _Obj(library=lib), "tag_entry": _Obj(name="Some-tag", attributes={"inLibrary": nm}),
                   "attribute_name": "inLibrary"}
        yield {"hed_schema": _Obj(library=lib), "tag_entry": _Obj(name="Some-tag", attributes={}), "attribute_name": "inLibrary"}
