"""Case generators for the bounded contract searches (concrete side)."""
import itertools


def issue_lists(tier):
    sevs = [1, 10, 5]
    n = 3 if tier == "quick" else 5
    for ln in range(n + 1):
        for combo in itertools.product(sevs, repeat=ln):
            issues = [{"code": f"C{k}", "message": "m", "severity": s} for k, s in enumerate(combo)]
            for sev in (1, 10, 0):
                yield {"issues_list": issues, "severity": sev}


def issue_lists_only(tier):
    seen = set()
    for case in issue_lists(tier):
        key = tuple(i["severity"] for i in case["issues_list"])
        if key not in seen:
            seen.add(key)
            yield {"issues_list": case["issues_list"]}


def char_cases(tier):
    from rt.adapters import _Obj
    alpha = "a[~{}\x07é "
    n = 3 if tier == "quick" else 4
    for ln in range(n + 1):
        for tup in itertools.product(alpha, repeat=ln):
            for ap in (False, True):
                for modern in (False, True):
                    yield {"self": _Obj(_validate_characters=modern), "hed_string": "".join(tup), "allow_placeholders": ap}


def in_library_cases(tier):
    from rt.adapters import _Obj
    names = ["score", "lang", "sc", "core", "", "score,lang", "e,l", ","]
    libs = ["score", "score,lang", "lang,score", "", "a,score,b", "testlib", "scoretest", "score,", ",score", "x,,y"]
    if tier != "quick":
        alpha = "ab,"
        extra = ["".join(t) for n in range(0, 5) for t in itertools.product(alpha, repeat=n)]
        names = names + [e for e in extra if len(e) <= 2]
        libs = libs + extra
    for lib in libs:
        for nm in names:
            yield {"hed_schema": _Obj(library=lib), "tag_entry": _Obj(name="Some-tag", attributes={"inLibrary": nm}),
                   "attribute_name": "inLibrary"}
        yield {"hed_schema": _Obj(library=lib), "tag_entry": _Obj(name="Some-tag", attributes={}), "attribute_name": "inLibrary"}


# ---------------------------------------------------------------------------------------------- C09.tag_deepcopy
_TAG_COPY_DEFS = ["(Definition/A, (Red, Blue))", "(Definition/B/#, (Label/#, (Item, Green)))",
                  "(Definition/C/#, (Speed/# mph, Blue))", "(Definition/E)", "(Definition/N, (Black, (Yellow, (Purple))))"]
_TAG_COPY_ANNOTATIONS = [
    "Red", "Red, (Blue, Square)", "Def/A", "def/a, Square", "(Def/B/x, Square)", "(Square, (Def/C/3, Circle))",
    "Def/E, (Def/N, (Def/A))", "Def/B/12, (Def/B/y, Square)", "((Square, (Def/N)), Circle)",
    "(Def-expand/A, (Red, Blue))", "Square, ((Def-expand/B/x, (Label/x, (Item, Green))), Circle)", "(Def-expand/E), Def/A",
    "Def/Zz, (Def/A/5, Square)",            # uses without an expansion: no cached content ever
]
_TAG_COPY_STATES = ["parsed", "expanded", "expanded_then_shrunk", "cache_filled_by_property_access"]


def tag_deepcopy_cases(tier):
    """C09.tag_deepcopy: real HedTag objects inside parsed annotations, in every expansion state (never expanded: no cached
    content; expanded: the tag sits inside its cached expansion; shrunk again / property read: cached but not in the tree),
    with an empty memo, a memo that already holds the tag, and a memo that already holds the tag's container.
    'origin' (first key, so that it heads the recorded input) says how to rebuild the case."""
    from hed.models import DefinitionDict, HedString
    from rt.common import schema
    sch = schema()
    dd = DefinitionDict(_TAG_COPY_DEFS, sch)
    texts = list(_TAG_COPY_ANNOTATIONS)
    if tier != "quick":
        from rt import c09
        texts += [t for fam, t, ok in c09.gen_annotations(True) if t not in texts]

    def build(text, state):
        h = HedString(text, sch, dd)
        if state in ("expanded", "expanded_then_shrunk"):
            h.expand_defs()
        if state == "expanded_then_shrunk":
            h.shrink_defs()
        if state == "cache_filled_by_property_access":
            for t in h.get_all_tags():
                t.expandable    # noqa - lazily fills _expandable without touching the tree
        return h

    for text in texts:
        for state in _TAG_COPY_STATES:
            ntags = len(build(text, state).get_all_tags())
            for k in range(ntags):
                for memo_kind in ("empty", "holds_tag", "holds_container"):
                    h = build(text, state)
                    tag = h.get_all_tags()[k]
                    origin = {"annotation": text, "state": state, "tag": k, "tag_text": str(tag), "memo": memo_kind,
                              "cached": tag._expandable is not None}
                    if memo_kind == "empty":
                        memo = {}
                    elif memo_kind == "holds_tag":
                        memo = {id(tag): HedString("Circle", sch).get_all_tags()[0]}
                    else:
                        other = HedString("(Triangle)", sch)
                        memo = {id(tag._parent): other.children[0]}
                    yield {"origin": origin, "self": tag, "memo": memo}
