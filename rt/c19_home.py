"""C19 helper - the DEFAULT cache directory (under a private HOME) in the states an interrupted population / refresh leaves.

Run as a child process of rt.c19 (`python -m rt.c19_home`, HOME = a private temp directory, jobs as JSON on stdin, one JSON
line with the results on stdout).  In this process `hed_cache.HED_CACHE_DIRECTORY` is whatever the package computes
from the home directory - it is never passed to the package by this file unless the job says so (`via`).

One job = one cache state + one way of naming the cache directory:
  populate  a forked process populates the default cache (cache_local_versions(get_cache_directory()) / get_hed_versions() /
            load_schema_version('8.3.0')) and is killed (os._exit) at one file operation: before it, after it, or after half
            of the destination of a copy was written
  refresh   a forked process runs cache_xml_versions() against a stand-in for the schema repository (serves the bundled files
            with their git blob hashes) and is killed at one file operation of the download path in the same three ways
  timestamp last_update.txt afterwards: absent / recent / old / garbage
  lock_held a live process holds the cache lock while the loads run
  via       'default' (nothing is said about the directory), 'set' (set_cache_directory(<spelling>)), 'arg' (the spelling is
            given as xml_folder / local_hed_directory / cache_folder argument), 'set_arg' (set_cache_directory(<spelling>) AND
            the folder argument in <arg_spelling>, by default the path as the package computes it)
  spelling  an equivalent way to write the default directory (no trailing slash, '..', relative, doubled slash, a symbolic
            link to it ...)
Then, with the network off, a forked process calls get_hed_versions() and load_schema_version for EVERY bundled version
(plain / one-element list / prefixed, lists with prefixes, merged libraries); each must succeed and equal the schema built
from the bundled files.  Finally a complete population must leave all bundled files byte-identical.
"""
import json
import os
import random
import shutil
import sys
import time
import warnings
from urllib.error import URLError

warnings.filterwarnings("ignore")

SPELLINGS = ("as computed", "no trailing slash", "trailing slash", "dot-dot", "doubled slash", "relative",
             "relative with ./ and slash", "symlink", "symlink with slash", "symlink relative")
LINK_NAME = "c19_link_to_cache"


def spell(default_dir, name):
    """an equivalent spelling of default_dir (POSIX); 'relative*' are relative to the HOME directory (the loader chdirs there);
    'symlink*' name a symbolic link <HOME>/c19_link_to_cache -> the cache directory (made here; a link to a cache directory
    presupposes the directory, so the directory is made too if an earlier step has not left one)"""
    d = default_dir.rstrip("/")
    home = os.path.expanduser("~").rstrip("/")
    rel = os.path.relpath(d, home)
    link = os.path.join(home, LINK_NAME)
    if name.startswith("symlink"):
        os.makedirs(d, exist_ok=True)
        if not os.path.islink(link):
            os.symlink(d, link)
    return {"as computed": default_dir, "no trailing slash": d, "trailing slash": d + "/",
            "dot-dot": d + "/../" + os.path.basename(d) + "/", "doubled slash": os.path.dirname(d) + "//" + os.path.basename(d),
            "relative": rel, "relative with ./ and slash": "./" + rel + "/",
            "symlink": link, "symlink with slash": link + "/", "symlink relative": LINK_NAME}[name]


# ------------------------------------------------------------------------------------------------------------
# network stand-ins
# ------------------------------------------------------------------------------------------------------------


def _offline(*a, **k):
    raise URLError("offline (rt.c19_home)")


def go_offline():
    import urllib.request
    import hed.schema.hed_cache as hc
    import hed.schema.schema_io.schema_util as su
    hc.make_url_request = _offline
    su.make_url_request = _offline
    urllib.request.urlopen = _offline


class _Resp:
    def __init__(self, data):
        self.data = data

    def read(self):
        return self.data


def fake_hub():
    """make_url_request stand-in: the schema repository holds exactly the bundled files"""
    import hashlib
    import hed.schema.hed_cache as hc
    from rt.c19 import installed_files
    inst = installed_files()
    pages = {}

    def entry(f):
        data = inst[f]
        sha = hashlib.sha1(b"blob %d\x00" % len(data) + data).hexdigest()        # git's blob hash
        return {"type": "file", "name": f, "sha": sha, "download_url": "https://raw.invalid/" + f}

    std = [f for f in inst if hc.version_pattern.match(f) and not hc.version_pattern.match(f).group(2)]
    libs = {}
    for f in inst:
        m = hc.version_pattern.match(f)
        if m and m.group(2):
            libs.setdefault(m.group(2), []).append(f)
    pages[hc.DEFAULT_HED_LIST_VERSIONS_URL + "/hedxml"] = json.dumps([entry(f) for f in std]).encode()
    pages[hc.LIBRARY_HED_URL] = json.dumps([{"type": "dir", "name": n} for n in sorted(libs)] +
                                           [{"type": "dir", "name": "deprecated"}]).encode()
    for n, fs in libs.items():
        pages[hc.LIBRARY_HED_URL + "/" + n + "/hedxml"] = json.dumps([entry(f) for f in fs]).encode()
    for f in inst:
        pages["https://raw.invalid/" + f] = inst[f]

    def request(url, *a, **k):
        if url in pages:
            return _Resp(pages[url])
        raise URLError("no such page in the stand-in repository: " + str(url))
    return request


# ------------------------------------------------------------------------------------------------------------
# forked sub-steps
# ------------------------------------------------------------------------------------------------------------


def forked(fn):
    """run fn() in a forked process; -> (exit status, JSON value written by fn or None)"""
    r, wfd = os.pipe()
    sys.stdout.flush()
    pid = os.fork()
    if pid == 0:
        code = 0
        try:
            os.close(r)
            out = fn()
            with os.fdopen(wfd, "w") as fp:
                json.dump(out, fp)
        except BaseException as e:          # observation of the caller
            try:
                os.write(wfd, json.dumps({"crashed": type(e).__name__ + ": " + str(e)[:200]}).encode())
            except OSError:
                pass
            code = 9
        os._exit(code)
    os.close(wfd)
    chunks = []
    while True:
        b = os.read(r, 1 << 16)
        if not b:
            break
        chunks.append(b)
    os.close(r)
    _, status = os.waitpid(pid, 0)
    code = os.waitstatus_to_exitcode(status)
    try:
        val = json.loads(b"".join(chunks).decode()) if chunks else None
    except ValueError:
        val = None
    return code, val


def order_of(name, seed=0):
    from rt.c19 import ORDERS, installed_files
    if name in ORDERS:
        return ORDERS[name]
    if name.startswith("shuffle"):
        files = sorted(installed_files())
        random.Random(f"{seed}/{name}").shuffle(files)
        return files
    raise KeyError(name)


def killed_step(kind, entry, call_index, mode, order):
    """the populating / refreshing process, killed at the call_index-th file operation; -> (exit status, trace length seen)"""
    import hed.schema.hed_cache as hc
    from rt.c19 import Injector

    def body():
        if kind == "refresh":
            hub = fake_hub()
            hc.make_url_request = hub
            import hed.schema.schema_io.schema_util as su
            su.make_url_request = hub
        with Injector(call_index, mode, order, on_hit=lambda what: os._exit(7)):
            if kind == "refresh":
                hc.cache_xml_versions()
            elif entry == "cache_local_versions":
                hc.cache_local_versions(hc.get_cache_directory())
            elif entry == "get_hed_versions":
                hc.get_hed_versions()
            else:
                from hed.schema import load_schema_version
                load_schema_version("8.3.0")
        return "finished"
    return forked(body)


def trace_of(kind, order, scratch):
    """file operations of an un-interrupted population / refresh of an empty directory (in a forked process, scratch directory)"""
    import hed.schema.hed_cache as hc
    from rt.c19 import Injector

    def body():
        if kind == "refresh":
            hub = fake_hub()
            hc.make_url_request = hub
            import hed.schema.schema_io.schema_util as su
            su.make_url_request = hub
        with Injector(None, None, order) as inj:
            if kind == "refresh":
                hc.cache_xml_versions(cache_folder=scratch)
            else:
                hc.cache_local_versions(scratch)
        return [list(t) for t in inj.trace]
    code, val = forked(body)
    shutil.rmtree(scratch, ignore_errors=True)
    return val if code == 0 and isinstance(val, list) else []


# ------------------------------------------------------------------------------------------------------------
# the reference: schemas built from the bundled files (no cache involved)
# ------------------------------------------------------------------------------------------------------------
_ref = {}


def bundled_versions():
    from rt.c19 import installed_files, version_of
    return [version_of(f) for f in sorted(installed_files()) if version_of(f)]


def bundled_path(version):
    import hed.schema.hed_cache as hc
    lib, _, num = version.rpartition("_")
    return os.path.join(hc.INSTALLED_CACHE_LOCATION, f"HED_{lib}_{num}.xml" if lib else f"HED{num}.xml")


def reference(form):
    """form: 'v' | 'p:v' | 'v1,v2' (merged) | [member, ...]  -> reference object or None if the bundled files do not combine"""
    from hed.schema import load_schema
    key = json.dumps(form)
    if key not in _ref:
        try:
            if isinstance(form, list):
                if len(form) == 1 and ":" not in form[0]:
                    _ref[key] = reference(form[0])
                else:
                    _ref[key] = {m.partition(":")[0] if ":" in m else "": reference(m) for m in form}
            else:
                ns, _, body = form.partition(":") if ":" in form else ("", "", form)
                first, *more = body.split(",")
                s = load_schema(bundled_path(first))
                for m in more:
                    load_schema(bundled_path(m), schema=s)
                if more and s.has_duplicates():
                    s = None
                if s is not None and ns:
                    s.set_schema_prefix(schema_namespace=ns)
                _ref[key] = s
        except Exception:
            _ref[key] = None
    return _ref[key]


def equal_to_reference(got, form):
    ref = reference(form)
    if isinstance(ref, dict):
        members = getattr(got, "_schemas", None)
        if not isinstance(members, dict) or len(members) != len(ref):
            return False
        for ns, r in ref.items():
            cand = [s for k, s in members.items() if (k or "").rstrip(":") == ns]
            if len(cand) != 1 or not (cand[0] == r) or (cand[0]._namespace or "").rstrip(":") != ns:
                return False
        return True
    return got == ref and (getattr(got, "_namespace", "") or "") == (ref._namespace or "")


def forms_for(versions, rng, how_many_lists=3, how_many_merged=2):
    """every bundled version once (plain / one-element list / prefixed, rotating), lists with prefixes, merged libraries"""
    forms = []
    start = rng.randrange(3)
    for i, v in enumerate(versions):
        forms.append([v, [v], "p%s:%s" % ("abcdefghijklmnopqrstuvwxyz"[i % 26], v)][(i + start) % 3])
    std = [v for v in versions if "_" not in v]
    libs = [v for v in versions if "_" in v]
    for j in range(how_many_lists):
        a, b, c = rng.choice(std), rng.choice(libs), rng.choice(versions)
        forms.append([a, "x:" + b, "yy:" + c] if j % 2 == 0 else ["q:" + c, b])
    merged = []
    for a in libs:
        for b in libs:
            if a.rpartition("_")[0] < b.rpartition("_")[0] and reference(a + "," + b) is not None:
                merged.append(a + "," + b)
    for j in range(how_many_merged if merged else 0):
        forms.append(("m:" if (j + start) % 2 else "") + rng.choice(merged))
    return forms


# ------------------------------------------------------------------------------------------------------------
# one job
# ------------------------------------------------------------------------------------------------------------


def served_files(d):
    """{served name: size} of the cache directory (top level and prerelease/)"""
    from rt.c19 import version_of
    out = {}
    for sub in ("", "prerelease"):
        p = os.path.join(d, sub)
        if os.path.isdir(p):
            for f in sorted(os.listdir(p)):
                if version_of(f) and os.path.isfile(os.path.join(p, f)):
                    out[os.path.join(sub, f)] = os.path.getsize(os.path.join(p, f))
    return out


def loader(job, default_dir, forms):
    """runs in a forked process: the loads of one job -> list of observations"""
    import hed.schema.hed_cache as hc
    from hed.schema import load_schema_version
    from rt.c19 import clear_memo
    go_offline()
    os.chdir(os.path.expanduser("~"))
    via, sp = job.get("via", "default"), spell(default_dir, job.get("spelling", "as computed"))
    kw_load, args_dir = {}, ()
    if via == "set":
        hc.set_cache_directory(sp)
    elif via == "arg":
        kw_load, args_dir = {"xml_folder": sp}, (sp,)
    elif via == "set_arg":
        # HED_CACHE_DIRECTORY holds one spelling, the folder argument another one (default: the path as the package computes it)
        hc.set_cache_directory(sp)
        sp2 = spell(default_dir, job.get("arg_spelling", "as computed"))
        kw_load, args_dir = {"xml_folder": sp2}, (sp2,)
    obs = []
    for lib in (None, "all"):
        try:
            r = hc.get_hed_versions(*args_dir, library_name=lib)
            ok = isinstance(r, (list, dict))
            obs.append({"call": f"get_hed_versions(library_name={lib!r})", "ok": ok, "detail": None if ok else repr(r)[:100]})
        except BaseException as e:
            obs.append({"call": f"get_hed_versions(library_name={lib!r})", "ok": False, "detail": type(e).__name__ + ": " + str(e)[:160]})
    for form in forms:
        clear_memo()
        o = {"call": "load_schema_version", "form": form}
        t0 = time.time()
        try:
            s = load_schema_version(form, **kw_load)
            o["ok"] = True
            try:
                o["equal"] = bool(equal_to_reference(s, form))
            except Exception as e:
                o["equal"], o["detail"] = False, "comparison failed: " + type(e).__name__ + ": " + str(e)[:100]
        except BaseException as e:
            o["ok"], o["detail"] = False, type(e).__name__ + ": " + str(e)[:160]
        o["s"] = round(time.time() - t0, 2)
        obs.append(o)
    return obs


def members_of(form):
    out = []
    for m in (form if isinstance(form, list) else [form]):
        out += (m.partition(":")[2] if ":" in m else m).split(",")
    return out


def run_job(job, default_dir, traces, seed):
    """-> {"input":..., "fails":[(clause, input, observed, expected)], "nontrivial": bool}"""
    import hed.schema.hed_cache as hc
    from rt.c19 import installed_files, dir_state, version_of, BOOKKEEPING
    inst = installed_files()
    home = os.path.expanduser("~")
    top = os.path.join(home, ".hedtools")
    assert os.path.realpath(default_dir).startswith(os.path.realpath(home) + os.sep)
    shutil.rmtree(top, ignore_errors=True)
    inp = {"kind": "home", "job": job}
    fails = []
    rng = random.Random(f"{seed}/{job.get('id')}")
    versions = bundled_versions()
    forms = job.get("forms")
    if forms is None:
        forms = forms_for(versions, rng, *((1, 1) if job.get("quick") else (3, 2)))
        if job.get("few_loads"):
            forms = [f for f in forms if isinstance(f, str) and "," not in f][:: max(1, len(versions) // job["few_loads"])][: job["few_loads"]]
    for f in forms:
        reference(f)              # built here once (from the bundled files), inherited by the forked loader
    # ---- the state
    for step in job.get("steps", []):
        kind = step["kind"]
        order = order_of(step.get("order", "os order"), seed)
        tr = traces(kind, step.get("order", "os order"))
        copies = [i for i, (k, _) in enumerate(tr) if k not in ("replace", "rename")]
        if "call_index" in step:
            ci = step["call_index"]
        elif step["nth_copy"] < len(copies):
            ci = copies[step["nth_copy"]]
        else:
            ci = None                 # past the last copy: the population finishes, the process ends normally
        code, val = killed_step(kind, step.get("entry", "cache_local_versions"), ci, step["mode"], order)
        want = 0 if ci is None else 7
        step["exit_status"] = code
        if code != want:
            # (a refresh after a partial population copies fewer files than the trace of an empty directory says: then the
            # process finishes normally - a complete refresh, still a state worth loading from)
            if not (kind == "refresh" and code == 0):
                fails.append(("C19.workload.injection", inp, {"exit_status": code, "value": val}, f"exit status {want}"))
    ts = job.get("timestamp", "absent")
    tsf = os.path.join(default_dir, "last_update.txt")
    if ts == "absent":
        if os.path.exists(tsf):
            os.remove(tsf)
    else:
        os.makedirs(default_dir, exist_ok=True)
        with open(tsf, "wb") as fp:
            fp.write({"recent": str(time.time()).encode(), "old": b"1000.5", "garbage": b"17159\x00\x00e"}[ts])
    state = dir_state(default_dir)
    inp["cache_state"] = state
    inp["default_cache_directory"] = "<HOME>" + default_dir[len(home):]
    served_before = served_files(default_dir)
    # ---- a live holder of the lock?
    holder = None
    if job.get("lock_held"):
        from hed.schema.hed_cache_lock import CacheLock
        r_in, w_in = os.pipe()
        r_go, w_go = os.pipe()
        holder = os.fork()
        if holder == 0:
            try:
                with CacheLock(default_dir, write_time=False):
                    os.write(w_in, b"1")
                    os.read(r_go, 1)
            except BaseException:
                try:
                    os.write(w_in, b"0")
                except OSError:
                    pass
            os._exit(0)
        inp["holder_inside"] = os.read(r_in, 1) == b"1"
    # ---- the loads
    try:
        code, obs = forked(lambda: loader(job, default_dir, forms))
    finally:
        if holder is not None:
            os.write(w_go, b"1")
            os.waitpid(holder, 0)
            for fd in (r_in, w_in, r_go, w_go):
                os.close(fd)
    if code != 0 or not isinstance(obs, list):
        fails.append(("C19.crash.load_after_interruption", inp, {"loader_process": code, "value": obs}, "the loads run"))
        obs = []
    other_spelling = (job.get("via") == "arg" and spell(default_dir, job.get("spelling", "as computed")) != default_dir) or \
        (job.get("via") == "set_arg" and spell(default_dir, job.get("spelling", "as computed")) !=
         spell(default_dir, job.get("arg_spelling", "as computed")))
    for o in obs:
        if o.get("ok") and o.get("equal", True):
            continue
        what = dict(inp, call=o["call"], form=o.get("form"))
        seen = {"ok": o.get("ok"), "equal": o.get("equal"), "detail": o.get("detail")}
        mem = members_of(o["form"]) if "form" in o else []
        names = [os.path.basename(bundled_path(v)) for v in mem]
        torn = [f for f in names if f in (state or {}) and state[f] != len(inst[f])]
        if torn:
            label = "C19.crash.D15_torn_copy_is_served"
        elif job.get("lock_held") and not any(version_of(f) for f in (state or {})):
            label = "C19.concurrent.loader_fails_while_population_in_progress"
        elif not any(version_of(f) for f in (state or {})) and ts == "recent":
            label = "C19.lock.local_population_blocked_by_refresh_interval"
        elif not any(version_of(f) for f in (state or {})):
            label = "C19.crash.D17_directory_without_schema_counts_as_populated"
        elif other_spelling and o.get("ok") is False and any(f not in state for f in names):
            label = "C19.crash.cache_folder_spelled_differently_partial_state"
        elif o.get("ok") is False and any(f not in state for f in names):
            label = "C19.crash.partial_population_never_completed"
        else:
            label = "C19.crash.load_after_interruption"
        fails.append((label, what, seen, "succeeds and equals the schema built from the bundled files"))
    inp["loads"] = len(obs)
    # ---- whatever the loads did to the directory: a served name never holds something else than the bundled bytes
    after_loads = {}
    for rel in served_files(default_dir):
        with open(os.path.join(default_dir, rel), "rb") as fp:
            after_loads[rel] = fp.read()
    new_torn = sorted(f for f, b in after_loads.items() if f not in served_before and os.path.basename(f) in inst and b != inst[os.path.basename(f)])
    if new_torn:
        fails.append(("C19.crash.repaired_by_next_population", dict(inp, after="the loads"), {"not_identical": new_torn},
                      "files that appear under served names are byte-identical copies"))
    # ---- a later complete population repairs the directory
    if not job.get("lock_held"):
        sp = spell(default_dir, job.get("spelling", "as computed"))

        def repair():
            os.chdir(home)
            if job.get("via") in ("set", "set_arg"):
                hc.set_cache_directory(sp)
            if job.get("via") == "set_arg":
                return hc.cache_local_versions(spell(default_dir, job.get("arg_spelling", "as computed")))
            r = hc.cache_local_versions(sp if job.get("via") == "arg" else hc.get_cache_directory())
            return r
        code, rep = forked(repair)
        after = {}
        for f in os.listdir(default_dir):
            p = os.path.join(default_dir, f)
            if os.path.isfile(p):
                with open(p, "rb") as fp:
                    after[f] = fp.read()
        bad = sorted(f for f in inst if after.get(f) != inst[f])
        stray = sorted(f for f in after if f not in inst and f not in BOOKKEEPING and version_of(f))
        if code != 0 or rep is not None or bad or stray:
            torn = [f for f in bad if f in after]
            truncated = any(s["mode"] == "truncated" for s in job.get("steps", []))
            label = "C19.crash.D15_torn_copy_is_kept" if torn and truncated else "C19.crash.repaired_by_next_population"
            fails.append((label, inp, {"process": code, "returned": rep, "not_identical": bad, "stray_schema_named_files": stray},
                          "every bundled file present and byte-identical"))
    shutil.rmtree(top, ignore_errors=True)
    return {"input": inp, "fails": fails, "nontrivial": bool(job.get("steps")) or bool(job.get("lock_held"))}


def main():
    req = json.load(sys.stdin)
    home = os.path.expanduser("~")
    if not os.path.basename(home.rstrip("/")).startswith("c19home_"):
        print(json.dumps({"error": "refusing to run outside a private HOME: " + home}))
        return
    import hed
    import hed.schema.hed_cache as hc
    default_dir = hc.get_cache_directory()
    info = {"hed": os.path.dirname(hed.__file__), "default_cache_directory": default_dir}
    if not os.path.realpath(default_dir).startswith(os.path.realpath(home) + os.sep) or default_dir != hc.HED_CACHE_DIRECTORY:
        print(json.dumps({"error": "the default cache directory is not under the private HOME", "info": info}))
        return
    go_offline()
    tcache = {}

    def traces(kind, order_name):
        if (kind, order_name) not in tcache:
            tcache[(kind, order_name)] = trace_of(kind, order_of(order_name, req.get("seed", 0)),
                                                  os.path.join(home, "scratch_%d" % len(tcache)))
        return tcache[(kind, order_name)]
    out = []
    for job in req["jobs"]:
        t0 = time.time()
        try:
            r = run_job(job, default_dir, traces, req.get("seed", 0))
        except Exception as e:
            import traceback
            r = {"input": {"kind": "home", "job": job}, "nontrivial": False,
                 "fails": [("C19.workload.injection", {"kind": "home", "job": job}, traceback.format_exc()[-600:], "the job runs")]}
        r["s"] = round(time.time() - t0, 2)
        out.append(r)
    print(json.dumps({"info": info, "results": out}))


if __name__ == "__main__":
    main()
