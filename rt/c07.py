"""C07 (tier T3, bounded): file-level validation equals row-by-row string validation, with true locations.

Real code: TabularInput/SpreadsheetInput(...).validate(schema, extra_def_dicts).
Oracle   : per row, HedString(assembled row text).validate() (string level), the assembled text coming from the C06
           statement (reference-free sidecars only), + a labelling rule (1-based file row, header counted; column of the cell)
           + a small temporal oracle (Onset/Offset/Inset bookkeeping in time order; a top-level group carrying a Delay tag
           is its own event at onset + delay, also when one row has several such groups) used only on string-clean tables
           whose Delay groups are plain '(…, Delay/<number> s|ms, …)' top-level groups that do not land on another row;
           relational checks: every row permutation of a table yields the same issues modulo row labels and the
           single ONSETS_UNORDERED warning; a table whose reserved tags (Def, Onset, Offset, Inset, Delay, Duration) are
           respelled in lower / upper / mixed case yields the same issues as the canonical spelling (HED tags are
           case-insensitive) modulo message text and the capitalisation style warning.
           Parts close-onsets / equal-onsets: rows whose onsets are different numbers - however close (1e-4 apart at 1e3..1e5,
           1e-6 apart at 10..100, 1e-8 at 33; the code documents a 1e-9 tolerance) - are separate time points and get the
           ordinary row checks; rows whose onsets are the same number written differently ("2", "2.0", "2.000") are ONE time
           point: the errors reported for them are the string-level errors of their joined annotation.
           Part undefined-between: 3-5 row tables whose onset column holds 0, 1 or 2 entries without a time (n/a, empty, not a
           number) at every position BETWEEN / before / after the numeric ones, every row permutation: same issues modulo row
           labels, and the out-of-order warning exactly when the numeric onsets, read in file order, step backwards (a file whose
           numeric onsets are in order but which has undefined onsets gets the warning too - its text asks for onsets
           "increasing and defined" - under a label of its own).
           Part untimed-spellings: rows without a usable time (no onset column at all, or an onset that is n/a) carrying the temporal
           tags in every valid spelling - short, partial path, full path, lower / upper / mixed case, inside Def groups: one
           TEMPORAL_TAG_ERROR per temporal tag whatever its spelling, and the same issues as the canonical spelling.
           Part column-attribution: files with k = 2..4 annotated columns (sidecar categorical / value columns + HED column in several
           file orders, from DataFrame and TSV text; spreadsheets with 3-4 tag columns, with and without header row); a row has ONE
           faulty cell (unknown tag, unbalanced parenthesis, forbidden character, empty tag; through a categorical entry, a value
           template or directly) in column j, and the other k-1 annotated cells run through every assignment of {empty, n/a, valid};
           next to an all-valid row, both row orders.  "True locations": the cell's errors - those that validating the cell's text
           alone reports - are labelled with the column that holds the faulty text (clause C07.label.column, here strict: under that
           column, not merely column-less), whatever stands in the cells before it, and with the row that holds it.
"""
import collections
import io
import itertools
import json
import multiprocessing
import re
import warnings

from rt.common import Workload, main, schema
from rt.c06 import parse_strict, NA

WORKERS = 14
ONSETS = ["1.5", "2.25", "9.0", "10.125"]   # increasing as numbers, not as strings; +2 s / +0.5 s / +3 ms never collide
DEFS = ["(Definition/MyDef, (Green))", "(Definition/Other, (Square))"]

L_RAISES = "C07.raises.none"
L_D5 = "C07.raises.delay_unit_letter_case"          # D5
L_DELAY_BAD = "C07.raises.delay_invalid_value"      # sibling of D5: an *invalid* Delay value/unit raises instead of being reported
L_DELAY_NOCONV = "C07.raises.delay_unit_without_conversion"   # new: accepted unit with no conversion factor (month, year) raises
L_SORTMIX = "C07.raises.numbered_column_issue_sort"   # new: header-less file, a row with a column-labelled and a column-less issue
L_EQUAL = "C07.row.codes_equal_string"
L_CELLS = "C07.row.cell_errors_reported"
L_ROWLABEL = "C07.label.row"
L_HEADER = "C07.label.headerless_row"
L_COLLABEL = "C07.label.column"
L_KEYMISS = "C07.structure.key_missing"
L_TEMPORAL = "C07.temporal.codes"
L_CASE = "C07.delay.case_insensitive"               # reserved tags in any letter case behave as the canonical spelling
L_MULTI = "C07.delay.several_groups_in_one_row"     # every Delay group of a row is its own event at onset + delay
L_SHUFFLE = "C07.shuffle.invariant"
L_UNORDERED = "C07.shuffle.unordered_warning"
L_UNDEFINED = "C07.shuffle.unordered_warning_undefined_onset"   # numeric onsets in order, but some onset is n/a / empty / not a number
L_SPELL = "C07.spelling.reserved_tags_any_path_form"          # reserved tags as partial / full path behave as the short form
L_NAONSET = "C07.onset.na_row_validated"             # new: rows with n/a onset are mis-indexed after sorting
L_TOGETHER = "C07.onset.equal_rows_together"         # rows whose onsets are the same number (however written) form one time point
ROWLESS_OK = {"ONSETS_UNORDERED", "HED_UNKNOWN_COLUMN"}
TEMPORAL_TAGS = {"onset", "offset", "inset"}
TIME_TAGS = {"onset", "offset", "inset", "duration", "delay"}

# ------------------------------------------------------------------------------------------------ layouts
SIDECAR = {"cat": {"Description": "categorical", "HED": {"go": "Green", "stop": "(Blue, Square)", "bad": "Blech"}},
           "val": {"HED": "Label/#"}}

LAYOUTS = {
    "hed1": dict(kind="tabular", via="df", columns=["onset", "HED"], bearing=["HED"], sidecar=None, onset=True, header=True),
    "hed0": dict(kind="tabular", via="df", columns=["HED", "trial"], bearing=["HED"], sidecar=None, onset=False, header=True),
    "tsv1": dict(kind="tabular", via="tsv", columns=["onset", "duration", "HED"], bearing=["HED"], sidecar=None, onset=True,
                 header=True),
    "sidecar2": dict(kind="tabular", via="df", columns=["onset", "cat", "HED"], bearing=["cat", "HED"],
                     sidecar={"cat": SIDECAR["cat"]}, onset=True, header=True),
    "sidecar3": dict(kind="tabular", via="df", columns=["HED", "val", "onset", "cat"], bearing=["cat", "val", "HED"],
                     sidecar=SIDECAR, onset=True, header=True),
    "sheet2": dict(kind="sheet", via="df", columns=["A", "note", "B"], bearing=["A", "B"], sidecar=None, onset=False,
                   header=True, tag_columns=["A", "B"]),
    "sheet0": dict(kind="sheet", via="tsv", columns=[0, 1, 2], bearing=[0, 2], sidecar=None, onset=False, header=False,
                   tag_columns=[0, 2]),
}

# layouts of part column-attribution: 2-4 annotated columns, file order different from the sorted column order
SIDECAR4 = {"cat": SIDECAR["cat"], "kat": {"HED": {"p": "Blue", "q": "(Square, Large)", "bad": "(Red", "worse": "Green["}},
            "val": SIDECAR["val"]}
LAYOUTS.update({
    "attr_t2a": dict(kind="tabular", via="df", columns=["onset", "val", "HED"], bearing=["val", "HED"], sidecar={"val": SIDECAR["val"]},
                     onset=True, header=True),
    "attr_t2b": dict(kind="tabular", via="df", columns=["kat", "onset", "cat"], bearing=["kat", "cat"],
                     sidecar={"cat": SIDECAR4["cat"], "kat": SIDECAR4["kat"]}, onset=True, header=True),
    "attr_t3": dict(kind="tabular", via="df", columns=["HED", "onset", "kat", "cat"], bearing=["HED", "kat", "cat"],
                    sidecar={"cat": SIDECAR4["cat"], "kat": SIDECAR4["kat"]}, onset=True, header=True),
    "attr_t4": dict(kind="tabular", via="df", columns=["kat", "HED", "onset", "val", "cat"], bearing=["kat", "HED", "val", "cat"],
                    sidecar=SIDECAR4, onset=True, header=True),
    "attr_t4tsv": dict(kind="tabular", via="tsv", columns=["onset", "duration", "cat", "kat", "val", "HED"],
                       bearing=["cat", "kat", "val", "HED"], sidecar=SIDECAR4, onset=True, header=True),
    "attr_s3": dict(kind="sheet", via="df", columns=["A", "note", "B", "C"], bearing=["A", "B", "C"], sidecar=None, onset=False,
                    header=True, tag_columns=["A", "B", "C"]),
    "attr_s4": dict(kind="sheet", via="df", columns=["D", "A", "note", "C", "B"], bearing=["D", "A", "C", "B"], sidecar=None,
                    onset=False, header=True, tag_columns=["D", "A", "C", "B"]),
    "attr_s4tsv": dict(kind="sheet", via="tsv", columns=["A", "B", "note", "C", "D"], bearing=["A", "B", "C", "D"], sidecar=None,
                       onset=False, header=True, tag_columns=["A", "B", "C", "D"]),
    "attr_s0": dict(kind="sheet", via="tsv", columns=[0, 1, 2, 3], bearing=[0, 2, 3], sidecar=None, onset=False, header=False,
                    tag_columns=[0, 2, 3]),
})
ATTR_TAG_FAULTS = ["Blech", "(Red", "Green[", "Red,,Blue"]
ATTR_FAULTS = {"cat": ["bad"], "kat": ["bad", "worse"], "val": ["v1, Blech", "v1, (Red"]}      # through the sidecar entry / template
ATTR_VALID = {"cat": "go", "kat": "p", "val": "v1", "HED": "Red"}
ATTR_TAGS = ["Red", "Blue", "(Green, Large)", "Square"]         # valid cells of tag columns, by position: no repeats in a row

HED_POOL = ["Red", "(Blue, Square)", NA, "Blech", "(Red", "Red, Red", "(Def/MyDef, Onset)", "(Def/MyDef, Offset)",
            "(Def/MyDef, Inset)", "(Duration/2 s, (Red))", "(Delay/2 s, (Green)), Blue",
            "(Def/MyDef, Onset), (Def/MyDef, Offset)",
            # thorough only from here
            "Red,,Blue", "(Def/mydef, Offset)", "(Delay/500 ms, (Def/MyDef, Onset))", "Green[", "(Onset)"]

POOLS = {
    "hed1": [{"HED": h} for h in HED_POOL],
    "tsv1": [{"HED": h} for h in ["Red", "", "Blech", "(Red", "Red, Red", "(Def/MyDef, Onset)", "(Def/MyDef, Offset)",
                                  "(Delay/2 s, (Green)), Blue", "(Duration/3 ms, (Red)), (Blue, Square)",
                                  "(Def/MyDef, Inset)", NA, "Red,,Blue"]],
    "sidecar2": [dict(cat=c, HED=h) for c, h in [
        ("go", "Red"), ("stop", NA), (NA, NA), ("zz", "Red"), ("bad", "Red"), ("go", "Blech"), ("bad", "Blech"),
        ("go", "Green"), (NA, "(Def/MyDef, Onset)"), ("stop", "(Def/MyDef, Offset)"), ("go", "(Red"), ("zz", NA),
        ("stop", "(Blue, Square)"), ("go", "(Def/MyDef, Inset)"), ("bad", NA)]],
    "sidecar3": [dict(HED=h, cat=c, val=v) for h, c, v in [
        ("Red", "go", "v1"), (NA, NA, NA), ("Red", "bad", "v1"), ("Blech", "go", NA), ("Red", "go", "v1, Blech"),
        ("Green", "go", NA), (NA, "stop", "v2"), ("(Def/MyDef, Onset)", "zz", "v1"), ("(Def/MyDef, Offset)", NA, NA),
        ("(Red", "stop", "v1"), ("Blech", "bad", "v1, Blech"), ("(Duration/2 s, (Red))", "go", NA),
        ("Label/v1", NA, "v1"), ("(Delay/2 s, (Red))", "stop", NA), ("Red, Red", NA, "v3")]],
    "sheet2": [dict(A=a, B=b) for a, b in [
        ("Red", "Blue"), ("Red", "Red"), (NA, NA), ("Blech", "Red"), ("Red", "Blech"), ("(Red", "Blue"),
        (NA, "(Def/MyDef, Onset)"), ("(Duration/2 s, (Red))", NA), ("Red, Red", NA), ("Blech", "(Red"),
        ("(Blue, Square)", "Green"), ("", "Red"), ("(Def/MyDef, Offset)", "(Def/MyDef, Inset)"), ("Green[", NA)]],
    "sheet0": [{0: a, 2: b} for a, b in [
        ("Red", "Blue"), ("Red", "Red"), (NA, NA), ("Blech", "Red"), ("Red", "Blech"), ("(Red", "Blue"),
        (NA, "(Def/MyDef, Onset)"), ("(Delay/2 s, (Red))", NA), ("Red, Red", NA), ("Blech", "(Red"),
        ("(Blue, Square)", "Green"), ("Red", "")]],
}
QUICK_POOL = 12

_state = {}


def _env():
    if not _state:
        warnings.simplefilter("ignore")
        from hed.models.definition_dict import DefinitionDict
        _state["schema"] = schema()
        _state["defs"] = DefinitionDict(DEFS, _state["schema"])
        _state["cache"] = {}
    return _state


def string_errors(text):
    """error-severity codes string-level validation reports for `text` (a multiset)"""
    st = _env()
    if text not in st["cache"]:
        from hed.models.hed_string import HedString
        from hed.errors.error_types import ErrorSeverity
        issues = HedString(text, st["schema"], st["defs"]).validate(allow_placeholders=False)
        st["cache"][text] = collections.Counter(i["code"] for i in issues if i["severity"] == ErrorSeverity.ERROR)
    return st["cache"][text]


# ------------------------------------------------------------------------------------------------ building a file
def build_rows(layout, row_types, onsets):
    lay = LAYOUTS[layout]
    rows = []
    for k, rt in enumerate(row_types):
        row = []
        for c in lay["columns"]:
            if c in lay["bearing"]:
                row.append(rt[c] if c in rt else rt[str(c)])
            elif c == "onset":
                row.append(onsets[k])
            elif c == "duration":
                row.append(NA)
            else:
                row.append("x")
        rows.append(row)
    return rows


def make_input(layout, rows):
    import pandas as pd
    from hed.models.tabular_input import TabularInput
    from hed.models.spreadsheet_input import SpreadsheetInput
    from hed.models.sidecar import Sidecar
    lay = LAYOUTS[layout]
    if lay["via"] == "df":
        file = pd.DataFrame([list(r) for r in rows], columns=lay["columns"], dtype=str)
    else:
        lines = ["\t".join(map(str, lay["columns"]))] if lay["header"] else []
        lines += ["\t".join(r) for r in rows]
        file = io.StringIO("\n".join(lines) + "\n")
    if lay["kind"] == "tabular":
        sc = Sidecar(io.StringIO(json.dumps(lay["sidecar"]))) if lay["sidecar"] else None
        return TabularInput(file, sidecar=sc, name="t")
    return SpreadsheetInput(file, file_type=".tsv", tag_columns=lay["tag_columns"], has_column_names=lay["header"],
                            name="t")


def validate_file(layout, rows):
    st = _env()
    try:
        inp = make_input(layout, rows)
        issues = inp.validate(st["schema"], extra_def_dicts=st["defs"])
    except Exception as e:
        return None, f"{type(e).__name__}: {e}"[:200]
    if not isinstance(issues, list):
        return None, f"returned {type(issues).__name__}"
    return issues, None


# ------------------------------------------------------------------------------------------------ the oracle
def spec_rows(layout, rows):
    """per row: {"cols": {column: text}, "text": assembled row text}, from the C06 specification"""
    lay = LAYOUTS[layout]
    cols = [str(c) for c in lay["columns"]]
    norm = [[(NA if x == "" and lay["via"] == "tsv" else x) for x in r] for r in rows]
    if lay["kind"] == "tabular":
        sidecar = lay["sidecar"] or {}
        table_cols = cols
    else:  # tag columns of a spreadsheet behave as HED columns: present them to the spec as single-HED-column tables
        sidecar = {}
        table_cols = cols
    out = []
    if lay["kind"] == "tabular":
        # C06 statement without references: HED cell, selected categorical entry, value template with '#' replaced;
        # n/a, empty and unknown keys contribute nothing; columns not in the sidecar (other than HED) are ignored
        for r in norm:
            d = {}
            for c, x in zip(table_cols, r):
                e = sidecar.get(c)
                if x in (NA, ""):
                    continue
                if c == "HED":
                    d[c] = x
                elif e and isinstance(e.get("HED"), dict):
                    if x in e["HED"]:
                        d[c] = e["HED"][x]
                elif e and isinstance(e.get("HED"), str):
                    d[c] = e["HED"].replace("#", x)
            out.append({"cols": d, "text": ", ".join(d[c] for c in table_cols if c in d)})
    else:
        for r in norm:
            d = {}
            for c, x in zip(lay["columns"], r):
                if c in lay["bearing"] and x not in (NA, ""):
                    d[c] = x
            out.append({"cols": d, "text": ", ".join(d[c] for c in lay["columns"] if c in d)})
    return out


def _leaves(tree, depth=0):
    for n in tree:
        if isinstance(n, list):
            yield from _leaves(n, depth + 1)
        else:
            yield n, depth


RESERVED_NAMES = ("Def", "Onset", "Offset", "Inset", "Delay", "Duration")
_paths = {}


def reserved_paths():
    """{short name: tuple of the names on its path in the schema XML (read independently, rt/c01_schema.py)}"""
    if not _paths:
        from rt.c01_schema import SchemaModel
        model = SchemaModel("8.3.0")
        for name in RESERVED_NAMES:
            _paths[name] = tuple(model.node(name).path)
    return _paths


def reserved(leaf):
    """(canonical short name lower-cased, text behind the name without its '/') when the tag text is ANY valid spelling of a
    reserved tag: the name, a partial path or the full path ending in it, in any letter case; else (None, None)"""
    parts = [x.strip() for x in leaf.strip().split("/")]
    low = [x.casefold() for x in parts]
    for name, path in reserved_paths().items():
        lp = [x.casefold() for x in path]
        for k in range(1, len(lp) + 1):
            if low[:k] == lp[-k:]:
                return name.casefold(), "/".join(parts[k:])
    return None, None


def temporal_groups(text):
    """top-level groups carrying Onset/Offset/Inset and a Def: list of (marker, def name lower-cased)"""
    tree = parse_strict(text)
    out = []
    for node in tree or []:
        if isinstance(node, list):
            direct = [reserved(x) for x in node if isinstance(x, str)]
            marks = [n for n, _ in direct if n in TEMPORAL_TAGS]
            defs = [rest.casefold() for n, rest in direct if n == "def" and rest]
            if marks and defs:
                out.append((marks[0], defs[0]))
    return out


_DELAY_VALUE = re.compile(r"^(?i:delay)/(\d+(?:\.\d+)?) (s|ms)$")     # unit symbols are case-sensitive, tag names are not
TIME_TOL = 1e-9


def temporal_events(text):
    """top-level groups carrying Onset/Offset/Inset and a Def, with the shift of the group's Delay tag:
    list of (marker, def name lower-cased, delay in seconds), or None when the text has a Delay tag that is not a plain
    'Delay/<number> s|ms' directly inside a top-level group (one per group) - the oracle does not judge those."""
    if not text.strip():
        return []
    tree = parse_strict(text)
    if tree is None:
        return None
    for leaf, depth in _leaves(tree):
        name, rest = reserved(leaf)
        if name == "delay" and (depth != 1 or not _DELAY_VALUE.match("delay/" + rest)):
            return None
    out = []
    for node in tree:
        if isinstance(node, list):
            direct = [reserved(x) for x in node if isinstance(x, str)]
            marks = [n for n, _ in direct if n in TEMPORAL_TAGS]
            defs = [rest.casefold() for n, rest in direct if n == "def" and rest]
            delays = [_DELAY_VALUE.match("delay/" + rest) for n, rest in direct if n == "delay"]
            if len(delays) > 1:
                return None
            shift = float(delays[0].group(1)) * (0.001 if delays[0].group(2) == "ms" else 1.0) if delays else 0.0
            if marks and defs:
                out.append((marks[0], defs[0], shift))
    return out


def count_delay_groups(text):
    tree = parse_strict(text)
    return sum(1 for node in tree or [] if isinstance(node, list)
               and any(isinstance(x, str) and reserved(x)[0] == "delay" for x in node))


def temporal_oracle(rows_in_time_order):
    """rows: (onset, assembled text) in time order.  Number of temporal-relation errors per row (same definition used
    twice at one time point, Offset/Inset with nothing open), every group taking effect at onset + its Delay.
    None when not applicable: an unjudged Delay form, or a shifted group landing on a time point of another row
    (the statement does not fix the order inside such a time point)."""
    events = []
    for r, (t, text) in enumerate(rows_in_time_order):
        ev = temporal_events(text)
        if ev is None:
            return None
        for p, (mark, name, shift) in enumerate(ev):
            events.append((t + shift, r, p, mark, name))
    row_times = [(t, r) for r, (t, _) in enumerate(rows_in_time_order)]
    events.sort(key=lambda e: (e[0], e[1], e[2]))
    counts = [0] * len(rows_in_time_order)
    open_defs = set()
    i = 0
    while i < len(events):
        j = i
        while j < len(events) and events[j][0] - events[i][0] <= TIME_TOL:
            j += 1
        here = events[i:j]
        owners = {e[1] for e in here} | {r for t, r in row_times if abs(t - here[0][0]) <= TIME_TOL}
        if len(owners) > 1:
            return None
        used = set()
        for _, r, _, mark, name in here:
            if name in used:
                counts[r] += 1
                continue
            used.add(name)
            if mark == "onset":
                open_defs.add(name)
            elif name not in open_defs:
                counts[r] += 1
            elif mark == "offset":
                open_defs.discard(name)
        i = j
    return counts


RESERVED = re.compile(r"(?<![\w/-])(Def|Onset|Offset|Inset|Delay|Duration)(?=\s*[/,)]|\s*$)")


def _mixed(word):
    return "".join(ch.upper() if k % 2 else ch.lower() for k, ch in enumerate(word))


def respell(text, mode):
    """the reserved tag names of `text` (written in canonical short form) in another valid spelling; values, units and other
    tags untouched.  mode = [long | partial][-][lower | upper | mixed]: full path / parent + name, then the letter case"""
    form, _, case = mode.rpartition("-") if "-" in mode else (("", "", mode) if mode in ("lower", "upper", "mixed") else (mode, "", ""))
    f = {"lower": str.lower, "upper": str.upper, "mixed": _mixed, "": lambda x: x}[case]

    def spelled(name):
        path = reserved_paths()[name]
        if form == "long":
            name = "/".join(path)
        elif form == "partial":
            name = "/".join(path[-2:])
        return f(name)
    return RESERVED.sub(lambda m: spelled(m.group(1)), text)


def count_time_tags(text):
    """number of Onset / Offset / Inset / Delay / Duration tags of the annotation, in whatever spelling"""
    tree = parse_strict(text)
    return sum(1 for leaf, _ in _leaves(tree or []) if reserved(leaf)[0] in TIME_TAGS)


def _untimed(onset_text):
    """the onset cell holds no point in time"""
    try:
        x = float(onset_text)
    except (TypeError, ValueError):
        return True
    return x != x


def has_delay(text):
    return "delay/" in text.casefold()


# ------------------------------------------------------------------------------------------------ one table
def _sev_error(i):
    from hed.errors.error_types import ErrorSeverity
    return i["severity"] == ErrorSeverity.ERROR


def check_file(layout, rows, order, raise_label=L_RAISES, eq_label=L_EQUAL, temporal_label=L_TEMPORAL, canon_rows=None,
               canon_label=L_CASE, strict_columns=False):
    """validate the file whose rows are rows[order[0]], rows[order[1]], ...; returns (checks, canonical issues)
    checks: list of (clause, ok, observed, expected); canonical: multiset of issues with row labels mapped to base rows.
    canon_rows: the same table with the reserved tags in canonical spelling (relational letter-case check);
    temporal_label None: the temporal oracle is not consulted (respelled tables: the canonical table is judged by it)"""
    lay = LAYOUTS[layout]
    adj = 2 if lay["header"] else 1
    file_rows = [rows[k] for k in order]
    res = []
    add = lambda clause, ok, obs=None, exp=None: res.append((clause, bool(ok), obs, exp))
    issues, err = validate_file(layout, file_rows)
    if err is not None and not lay["header"] and err.startswith("TypeError: '<' not supported between instances of"):
        # narrow label of a defect of its own: in a file without header row the columns are numbers; a row that has an issue
        # labelled with its (integer) column and an issue without a column makes the final sorting of the issues raise
        raise_label = L_SORTMIX
    add(raise_label, err is None, err, "a list of issues, no exception")
    if err is not None:
        return res, None
    n = len(file_rows)
    spec = spec_rows(layout, file_rows)
    lab_row = L_ROWLABEL if lay["header"] else L_HEADER
    # row labels are 1-based file rows (header counted); only file-level issues carry no row
    bad = [(i["code"], i.get("ec_row")) for i in issues
           if (i.get("ec_row") is None and i["code"] not in ROWLESS_OK)
           or (i.get("ec_row") is not None and not (adj <= i["ec_row"] < n + adj))]
    add(lab_row, not bad, bad, f"ec_row in [{adj}, {n + adj - 1}] or a file-level code")
    by_row = collections.defaultdict(list)
    for i in issues:
        if i.get("ec_row") is not None:
            by_row[i["ec_row"] - adj].append(i)
    clean_table = True
    extras = []
    for k in range(n):
        s = spec[k]
        here = by_row.get(k, [])
        file_err = collections.Counter(i["code"] for i in here if _sev_error(i))
        cell_err = {c: string_errors(t) for c, t in s["cols"].items()}
        faulty = {c for c, e in cell_err.items() if e}
        want = string_errors(s["text"]) if s["text"] else collections.Counter()
        if faulty or want:
            clean_table = False
        info = {"file_row": k, "row_label": k + adj, "text": s["text"], "file": dict(file_err)}
        if not faulty:
            extra = file_err - want
            missing = want - file_err
            ok = not missing and set(extra) <= {"TEMPORAL_TAG_ERROR"}
            if ok and (not lay["onset"] or _untimed(file_rows[k][lay["columns"].index("onset")])):
                # a row without a time (no onset column, or an onset that is n/a / empty / not a number) cannot carry
                # temporal tags: one TEMPORAL_TAG_ERROR per Onset/Offset/Inset/Delay/Duration tag
                ok = sum(extra.values()) == count_time_tags(s["text"])
                info["time_tags"] = count_time_tags(s["text"])
            elif ok:
                ok = sum(extra.values()) <= len(temporal_groups(s["text"]))
            add(eq_label, ok, info, {"string_level": dict(want)})
            extras.append(sum(extra.values()))
        else:
            total = collections.Counter()
            for c in faulty:
                total += cell_err[c]
            add(L_CELLS, not (total - file_err), info, {"at_least": dict(total)})
            extras.append(None)
        # column labels: an issue labelled with column c must be an issue of that cell; a faulty cell's errors appear
        # under its column or (errors found only on the assembled row) without a column
        col_ok = True
        detail = []
        per_col = collections.defaultdict(collections.Counter)
        for i in here:
            if _sev_error(i):
                per_col[i.get("ec_column")][i["code"]] += 1
        for c, cnt in per_col.items():
            if c is None:
                continue
            if c not in s["cols"] or (cnt - cell_err.get(c, collections.Counter())):
                col_ok = False
                detail.append({"column": str(c), "codes": dict(cnt), "cell": s["cols"].get(c)})
        for c in faulty:
            # strict_columns (part column-attribution: faults that the cell's own text shows): under the cell's column, nowhere else
            elsewhere = collections.Counter() if strict_columns else per_col.get(None, collections.Counter())
            if cell_err[c] - (per_col.get(c, collections.Counter()) + elsewhere):
                col_ok = False
                detail.append({"column": str(c), "cell_errors": dict(cell_err[c]), "labelled": dict(per_col.get(c, {}))})
        add(L_COLLABEL, col_ok, {"file_row": k, "detail": detail}, "issues labelled with the column of the faulty cell")
    # structure: one SIDECAR_KEY_MISSING warning per unknown categorical cell, at its row and column
    if lay["sidecar"]:
        want_km = collections.Counter()
        for k, r in enumerate(file_rows):
            for c, x in zip(lay["columns"], r):
                e = lay["sidecar"].get(c)
                x = NA if (x == "" and lay["via"] == "tsv") else x          # an empty TSV field is read as n/a
                if e and isinstance(e.get("HED"), dict) and x != NA and x not in e["HED"]:
                    want_km[(k, c)] += 1
        got_km = collections.Counter((i["ec_row"] - adj if i.get("ec_row") is not None else None, i.get("ec_column"))
                                     for i in issues if i["code"] == "SIDECAR_KEY_MISSING")
        add(L_KEYMISS, got_km == want_km, sorted(map(str, got_km.elements())), sorted(map(str, want_km.elements())))
    # temporal oracle (string-clean tables with an onset column; plain Delay groups that land on no other row)
    if lay["onset"] and clean_table and temporal_label is not None:
        onset_col = lay["columns"].index("onset")
        timed = [k for k in range(n) if not _untimed(file_rows[k][onset_col])]
        # rows without a time take no part in the temporal bookkeeping (their temporal tags are errors of the row itself,
        # counted above); the others in time order (base rows are listed in time order, so order[k] sorts them)
        in_time = sorted(timed, key=lambda k: (float(file_rows[k][onset_col]), order[k]))
        counts = temporal_oracle([(float(file_rows[k][onset_col]), spec[k]["text"]) for k in in_time])
        if counts is not None:
            want_t = {k: c for k, c in zip(in_time, counts)}
            got_t = {k: extras[k] for k in timed}
            add(temporal_label, got_t == want_t, got_t, want_t)
    # letter case of the reserved tags is irrelevant: same issues as the canonical spelling (messages and the
    # capitalisation style warning aside)
    if canon_rows is not None:
        c_issues, c_err = validate_file(layout, [canon_rows[k] for k in order])
        sig = lambda iss: collections.Counter((i["code"], i.get("ec_row"), str(i.get("ec_column"))) for i in iss
                                              if i["code"] != "STYLE_WARNING")
        got_c = sig(issues)
        want_c = sig(c_issues) if c_err is None else None
        add(canon_label, got_c == want_c, sorted(map(list, got_c.elements()), key=str),
            c_err if want_c is None else sorted(map(list, want_c.elements()), key=str))
    # out-of-order warning: exactly one when the numeric onsets, read in file order, step backwards; none when every onset is a
    # number and they are in order.  Onsets in order but some of them undefined: the warning's own text asks for onsets
    # "increasing and defined" - one warning, judged under its own label
    if lay["onset"]:
        onset_col = lay["columns"].index("onset")
        defined = [float(r[onset_col]) for r in file_rows if not _untimed(r[onset_col])]
        backwards = any(b < a for a, b in zip(defined, defined[1:]))
        n_un = sum(1 for i in issues if i["code"] == "ONSETS_UNORDERED")
        if backwards or len(defined) == n:
            add(L_UNORDERED, n_un == (1 if backwards else 0), n_un, 1 if backwards else 0)
        else:
            add(L_UNDEFINED, n_un == 1, n_un, 1)
    if eq_label != L_EQUAL:  # dedicated part: every row-content check is attributed to its narrow label
        res = [((eq_label if cl in (L_EQUAL, L_CELLS, L_COLLABEL) else cl), ok, o, e) for cl, ok, o, e in res
               if cl not in (L_TEMPORAL, temporal_label)]
    canon = collections.Counter()
    for i in issues:
        if i["code"] == "ONSETS_UNORDERED":
            continue
        r = i.get("ec_row")
        canon[(i["code"], int(i["severity"]), None if r is None else order[r - adj] if 0 <= r - adj < n else f"bad{r}",
               str(i.get("ec_column")), i.get("message", ""))] += 1
    return res, canon


def check_table(layout, rows, perms=None, raise_label=L_RAISES, eq_label=L_EQUAL, temporal_label=L_TEMPORAL,
                canon_rows=None, canon_label=L_CASE, strict_columns=False):
    """all (or the given) row permutations of one base table (rows listed in onset order)"""
    n = len(rows)
    perms = perms if perms is not None else list(itertools.permutations(range(n)))
    out = []
    base = None
    for order in perms:
        res, canon = check_file(layout, rows, list(order), raise_label, eq_label, temporal_label, canon_rows, canon_label,
                                strict_columns)
        if list(order) == list(range(n)):
            base = canon
        elif base is not None and canon is not None:
            diff = (canon - base) + (base - canon)
            res.append((L_SHUFFLE, not diff, [list(map(str, k)) for k in list(diff)[:4]],
                        "same issues as the sorted file modulo row labels"))
        out.append((list(order), res))
    return out


# ------------------------------------------------------------------------------------------------ close / equal onsets
CLOSE_PAIRS = [("Red, (Blue, Square)", "Red, (Blue, Square)"), ("Red", "Blue"), ("Red", "Red"),
               ("(Def/MyDef, Onset)", "(Def/MyDef, Offset)"), ("(Def/MyDef, Onset), Green", "(Def/MyDef, Onset), Green"),
               ("Red, Red", "Blue"), ("(Green, Large)", NA), ("Blech", "Blech")]
CLOSE_BASES = [("1000", "0001", "0002", "0003"), ("2048", "0001", "0002", "0003"), ("4096", "5001", "5002", "5003"),
               ("8000", "0001", "0002", "0003"), ("12345", "6781", "6782", "6783"), ("15999", "9997", "9998", "9999"),
               ("50000", "0001", "0002", "0003"), ("99999", "1234", "1235", "1236"),
               ("10", "000001", "000002", "000003"), ("64", "000001", "000002", "000003"), ("99", "999997", "999998", "999999"),
               ("33", "33333301", "33333302", "33333303")]           # 1e-8 apart: still beyond the documented 1e-9 tolerance


def close_onset_tables(w):
    """tables whose DISTINCT onsets are very close at large magnitudes (1e-4 apart at 1e3..1e5, 1e-6 apart at 10..100, 1e-8 at
    33): every row is its own time point, so all the ordinary row checks apply (and all row permutations)"""
    tables = []
    for bi, (whole, f1, f2, f3) in enumerate(CLOSE_BASES):
        o1, o2, o3 = ("%s.%s" % (whole, f) for f in (f1, f2, f3))
        later = "%d.7" % (int(whole) + 1)
        for pi, (a, b) in enumerate(CLOSE_PAIRS):
            for layout in ("hed1", "tsv1"):
                if w.quick and (bi + pi + (layout == "tsv1")) % 2:
                    continue
                cell = lambda c: "" if (c == NA and layout == "tsv1" and pi % 2) else c
                specs = [[("1.5", "Green"), (o1, a), (o2, b), (later, "Black")],          # two close rows inside a longer file
                         [(o1, a), (o2, b)],
                         [(o1, a), (o2, b), (o3, a)]]                                     # three close rows
                for si, spec in enumerate(specs):
                    if w.quick and si and (bi + pi + si) % 3:
                        continue
                    rows = build_rows(layout, [{"HED": cell(c)} for _, c in spec], [o for o, _ in spec])
                    tables.append({"layout": layout, "rows": rows, "key": ("close", layout, whole, pi, si)})
    return tables


EQUAL_SPELLINGS = [("2", "2.0", "2.000"), ("8000.5", "8000.50", "8000.500"), ("0", "0.0", "00.00"), ("1e1", "10", "10.0"),
                   ("2048.0001", "2048.00010", "02048.0001"), ("12.5", "1.25e1", "12.50")]
EQUAL_CELLS = [("Red", "Blue", "(Green, Square)"), ("Red", "Red", "Blue"), ("(Blue, Square)", "(Blue, Square)", "(Blue, Square)"),
               ("Red", NA, "Red"), ("Red, Blue", "Green", "Blue"), ("(Def/MyDef, Onset)", "Green", "(Def/Other, Onset)"),
               ("(Def/MyDef, Onset)", "(Def/MyDef, Onset)", "Red"), ("(Red, Large)", "(Large, Red)", NA), ("Blech", "Red", "Red")]


def equal_onset_tables(w):
    """rows whose onsets are the SAME number written differently ("2", "2.0", "2.000"): one time point; next to rows at other
    (also very close) onsets; 2 or 3 rows per time point; all row orders"""
    tables = []
    for si, sp in enumerate(EQUAL_SPELLINGS):
        near = "%s1" % sp[1] if "." in sp[1] and "e" not in sp[1] else None      # e.g. 2.01 - a distinct onset right after
        for ci, cells in enumerate(EQUAL_CELLS):
            for layout in ("hed1", "tsv1"):
                if w.quick and (si + ci + (layout == "tsv1")) % 2:
                    continue
                specs = [[(sp[0], cells[0]), (sp[1], cells[1])],
                         [(sp[0], cells[0]), (sp[1], cells[1]), (sp[2], cells[2])],
                         [(sp[0], cells[0]), (sp[2], cells[1]), ("99999.5", cells[2])],
                         [("-3.5", cells[2]), (sp[1], cells[0]), (sp[0], cells[1])]]
                if near:
                    specs.append([(sp[0], cells[0]), (sp[1], cells[1]), (near, cells[1]), (near + "0", cells[0])])
                for ti, spec in enumerate(specs):
                    if w.quick and ti and (si + ci + ti) % 3:
                        continue
                    rows = build_rows(layout, [{"HED": c} for _, c in spec], [o for o, _ in spec])
                    n = len(rows)
                    perms = list(itertools.permutations(range(n))) if n <= 3 else \
                        [list(range(n)), list(reversed(range(n))), [1, 0, 3, 2], [2, 0, 3, 1]]
                    tables.append({"layout": layout, "rows": rows, "key": ("equal", layout, si, ci, ti), "mode": "together",
                                   "perms": perms})
    return tables


def check_together(layout, rows, order):
    """one file whose rows may share onsets.  Rows with the same onset NUMBER are one time point: when all their cells are
    error-free, the errors reported for the rows of the time point are exactly the string-level errors of their joined
    annotation (labelled with a row of that time point); rows with different onsets are judged separately."""
    lay = LAYOUTS[layout]
    adj = 2
    file_rows = [rows[k] for k in order]
    n = len(file_rows)
    res = []
    add = lambda clause, ok, obs=None, exp=None: res.append((clause, bool(ok), obs, exp))
    issues, err = validate_file(layout, file_rows)
    add(L_RAISES, err is None, err, "a list of issues, no exception")
    if err is not None:
        return res, None
    spec = spec_rows(layout, file_rows)
    onset_col = lay["columns"].index("onset")
    times = [float(r[onset_col]) for r in file_rows]
    bad = [(i["code"], i.get("ec_row")) for i in issues
           if (i.get("ec_row") is None and i["code"] not in ROWLESS_OK)
           or (i.get("ec_row") is not None and not (adj <= i["ec_row"] < n + adj))]
    add(L_ROWLABEL, not bad, bad, f"ec_row in [{adj}, {n + adj - 1}] or a file-level code")
    groups = collections.OrderedDict()
    for k, t in enumerate(times):
        groups.setdefault(t, []).append(k)
    faulty_times = set()
    for t, members in sorted(groups.items()):
        texts = [spec[k]["text"] for k in members if spec[k]["text"]]
        cell_bad = any(string_errors(c) for k in members for c in spec[k]["cols"].values())
        got = collections.Counter(i["code"] for i in issues if _sev_error(i) and i.get("ec_row") is not None
                                  and i["ec_row"] - adj in members)
        info = {"onset": t, "file_rows": members, "row_labels": [k + adj for k in members], "texts": texts, "file": dict(got)}
        if cell_bad:
            faulty_times.add(t)      # "at least every error of every cell": no equality, no shuffle comparison for this time point
            total = collections.Counter()
            for k in members:
                for c in spec[k]["cols"].values():
                    total += string_errors(c)
            add(L_CELLS, not (total - got), info, {"at_least": dict(total)})
            continue
        joined = ", ".join(texts)
        want = string_errors(joined) if joined else collections.Counter()
        extra, missing = got - want, want - got
        ok = not missing and set(extra) <= {"TEMPORAL_TAG_ERROR"} and sum(extra.values()) <= len(temporal_groups(joined))
        add(L_TOGETHER if len(members) > 1 else L_EQUAL, ok, info, {"string_level_of": joined, "codes": dict(want)})
    n_un = sum(1 for i in issues if i["code"] == "ONSETS_UNORDERED")
    want_un = 0 if all(times[k] <= times[k + 1] for k in range(n - 1)) else 1
    add(L_UNORDERED, n_un == want_un, n_un, want_un)
    # for the shuffle comparison the row label of an issue is replaced by the time point it belongs to
    canon = collections.Counter()
    for i in issues:
        if i["code"] == "ONSETS_UNORDERED":
            continue
        r = i.get("ec_row")
        if r is not None and 0 <= r - adj < n and times[r - adj] in faulty_times:
            continue
        canon[(i["code"], int(i["severity"]), None if r is None else times[r - adj] if 0 <= r - adj < n else f"bad{r}",
               str(i.get("ec_column")))] += 1
    return res, canon


def check_table_together(layout, rows, perms):
    out = []
    base = None
    for order in perms:
        res, canon = check_together(layout, rows, list(order))
        if base is None:
            base = canon
        elif base is not None and canon is not None:
            diff = (canon - base) + (base - canon)
            res.append((L_SHUFFLE, not diff, [list(map(str, k)) for k in list(diff)[:4]],
                        "same issues per time point as the file in its first row order"))
        out.append((list(order), res))
    return out


# ------------------------------------------------------------------------------------------------ jobs
def _job(job):
    _env()
    out = {"n": 0, "fails": [], "checks": {}, "keys": [], "sample": None}
    per = {}
    for tb in job["tables"]:
        layout, rows = tb["layout"], tb["rows"]
        if tb.get("mode") == "together":
            results = check_table_together(layout, rows, tb["perms"])
        else:
            results = check_table(layout, rows, tb.get("perms"), tb.get("raise_label", L_RAISES), tb.get("eq_label", L_EQUAL),
                                  tb.get("temporal_label", L_TEMPORAL), tb.get("canon_rows"), tb.get("canon_label", L_CASE),
                                  tb.get("strict_columns", False))
        for order, res in results:
            out["n"] += 1
            out["keys"].append((tb["key"], tuple(order)))
            if out["sample"] is None:
                out["sample"] = {"layout": layout, "rows": rows, "order": order}
            for clause, ok, obs, exp in res:
                out["checks"][clause] = out["checks"].get(clause, 0) + 1
                if not ok:
                    per[clause] = per.get(clause, 0) + 1
                    if per[clause] <= 2:
                        out["fails"].append((clause, {"layout": layout, "rows": rows, "order": order, "mode": tb.get("mode"),
                                                      "raise_label": tb.get("raise_label", L_RAISES),
                                                      "eq_label": tb.get("eq_label", L_EQUAL),
                                                      "temporal_label": tb.get("temporal_label", L_TEMPORAL),
                                                      "canon_rows": tb.get("canon_rows"),
                                                      "canon_label": tb.get("canon_label", L_CASE),
                                                      "strict_columns": tb.get("strict_columns", False)}, obs, exp))
                    else:
                        out["fails"].append((clause, None, None, None))
    return out


def _par(jobs, workers=WORKERS):
    if len(jobs) <= 1:
        return [_job(j) for j in jobs]
    ctx = multiprocessing.get_context("fork")
    with ctx.Pool(min(workers, len(jobs))) as pool:
        return pool.map(_job, jobs, chunksize=1)


def _absorb(w, results, counters):
    n = 0
    for r in results:
        n += r["n"]
        for k in r["keys"]:
            w.case(key=k, nontrivial=True, sample=r["sample"])
        for clause, c in r["checks"].items():
            counters[clause] = counters.get(clause, 0) + c
        for clause, inp, obs, exp in r["fails"]:
            if inp is None:
                w._per_clause[clause] = w._per_clause.get(clause, 0) + 1
            else:
                w.fail(clause, inp, obs, exp)
    return n


def _chunks(tables, size):
    return [{"tables": tables[i:i + size]} for i in range(0, len(tables), size)]


def main_tables(w):
    tables = []
    for layout, pool in POOLS.items():
        pool = pool[:QUICK_POOL] if w.quick else pool
        idx = range(len(pool))
        combos = []
        for k in (1, 2, 3):
            combos += list(itertools.combinations(idx, k))
        four = list(itertools.combinations(idx, 4))
        if w.quick:
            four = w.rng.sample(four, 30)
        elif len(four) > 700:
            four = w.rng.sample(four, 700)
        for combo in combos + sorted(four):
            # the rows of a combination are put in a pseudo-random (seeded) time order so that e.g. Offset may precede Onset
            rnd = list(combo)
            w.rng.shuffle(rnd)
            rows = build_rows(layout, [pool[i] for i in rnd], ONSETS)
            tables.append({"layout": layout, "rows": rows, "key": (layout, tuple(rnd))})
    return tables


def unit_tables(w):
    """Delay/Duration with every accepted unit spelling (the schema's derivative units of timeUnits) in 4 letter cases"""
    st = _env()
    uc = st["schema"].unit_classes["timeUnits"]
    tables = []
    for u in uc.derivative_units:
        for v in dict.fromkeys([u, u.upper(), u.capitalize(), u.swapcase()]):
            for tag in ("Delay", "Duration"):
                cell = f"({tag}/2 {v}, (Red))"
                accepted = not string_errors(cell)
                label = L_RAISES
                if tag == "Delay":
                    if accepted and v not in uc.derivative_units:
                        label = L_D5
                    elif not accepted:
                        label = L_DELAY_BAD
                    elif uc.derivative_units[v].get_conversion_factor(v) is None:
                        label = L_DELAY_NOCONV
                if w.quick and v != u and not accepted and tag == "Duration":
                    continue
                rows = build_rows("hed1", [{"HED": cell}, {"HED": "Blue"}], ONSETS)
                tables.append({"layout": "hed1", "rows": rows, "key": ("unit", cell), "raise_label": label})
    return tables


DELAY_BAD = ["(Delay/abc, (Red))", "(Delay/2 xyz, (Red))", "(Delay/#, (Red))", "(Delay/0x10 s, (Red))"]
DELAY_EDGE = ["(Delay, (Red))", "Delay/2 s", "(Delay/2 s)", "(Delay/2 s, Red)", "(Delay/2, (Red))", "(Delay/-1 s, (Red))",
              "(Delay/2 s, (Red)), (Delay/3 s, (Blue))", "(Delay/2 s, (Red", "(Delay/nan s, (Red))", "(delay/2 s, (Red))",
              "(Delay/2 s, Duration/3 s, (Red))", "(Duration/abc, (Red))", "(Duration/2 xyz, (Red))", "((Delay/2 s, (Red)))",
              "(Delay/.5 s, (Red))", "(Delay/1_0 s, (Red))", "(Delay/1e400 s, (Red))"]


def edge_tables(w):
    tables = []
    for cell in DELAY_BAD + DELAY_EDGE:
        rows = build_rows("hed1", [{"HED": "Red"}, {"HED": cell}, {"HED": "Blue"}], ONSETS)
        tables.append({"layout": "hed1", "rows": rows, "key": ("edge", cell),
                       "raise_label": L_DELAY_BAD if cell in DELAY_BAD else L_RAISES})
    # minimal witnesses of L_SORTMIX and their passing neighbours: a style warning of a cell (column-labelled) next to an error
    # that only the whole row has (no column), with and without header row
    for layout, mk in (("sheet0", lambda a, b: {0: a, 2: b}), ("sheet2", lambda a, b: dict(A=a, B=b))):
        for a, b in (("red", "Blue, Blue"), ("Red", "Blue, Blue"), ("red", "Blue"), ("red, red", NA)):
            rows = build_rows(layout, [mk(a, b)], [None])
            tables.append({"layout": layout, "rows": rows, "key": ("edge", layout, a, b)})
    return tables


def na_onset_tables(w):
    """rows without a time (onset n/a) among timed rows; every position, every permutation"""
    tables = []
    cells = ["Red, Red", "Blue", "(Green, Green)", "Blech"]
    for n in (2, 3):
        for na_pos in itertools.product([False, True], repeat=n):
            if not any(na_pos):
                continue
            for combo in itertools.permutations(range(len(cells)), n):
                if w.quick and combo != tuple(sorted(combo)):
                    continue
                onsets = [NA if na_pos[k] else ONSETS[k] for k in range(n)]
                rows = build_rows("hed1", [{"HED": cells[i]} for i in combo], onsets)
                tables.append({"layout": "hed1", "rows": rows, "key": ("na", na_pos, combo), "perms": [list(range(n))],
                               "eq_label": L_NAONSET})
    return tables


UNTIMED_ONSETS = [NA, "", "abc", "1,5", "--", "nan"]
UNTIMED_CELLS = ["(Delay/2 s, (Red))", "(Delay/2 s, Def/MyDef, Onset)", "(Duration/2 s, (Red))", "(Delay/500 ms, Duration/3 s, (Blue))",
                 "(Def/MyDef, Onset)", "(Def/MyDef, Offset)", "(Def/MyDef, Inset), Green", "Red", "Blue, (Green, Square)", NA,
                 "(Delay/2 s, (Red)), (Delay/3 ms, (Blue)), Green", "(delay/2 s, Def/Other, Offset)",
                 # thorough only from here
                 "(Delay/2 seconds, (Square))", "Blech", "(Delay/2 s, (Red, Red))", "(Duration/3 ms, (Def/MyDef, Onset))"]


def untimed_tables(w):
    """rows without a usable time - onset n/a, empty or not a number - whose annotation holds Delay / Duration groups,
    Onset / Offset / Inset markers or plain tags, alone and next to timed rows, at every position"""
    cells = UNTIMED_CELLS[:12] if w.quick else UNTIMED_CELLS
    tables = []

    def add(layout, rowspec, key):
        rows = build_rows(layout, [{"HED": c} for _, c in rowspec], [o for o, _ in rowspec])
        tables.append({"layout": layout, "rows": rows, "key": ("untimed", layout) + key, "perms": [list(range(len(rowspec)))],
                       "eq_label": L_NAONSET, "temporal_label": None})

    k = 0
    for ci, cell in enumerate(cells):                      # one untimed row: every onset text x every cell, both file kinds
        for oi, o in enumerate(UNTIMED_ONSETS):
            add("hed1", [(o, cell)], (1, ci, oi))
            add("tsv1", [(o, cell)], (1, ci, oi))
    for ci, a in enumerate(cells):                          # two rows: untimed + timed, timed + untimed, two untimed
        for cj, b in enumerate(cells):
            if a == NA and b == NA:
                continue
            for pat in range(3):
                k += 1
                if w.quick and (ci + cj + pat) % 3:
                    continue
                u1, u2 = UNTIMED_ONSETS[k % len(UNTIMED_ONSETS)], UNTIMED_ONSETS[(k // 2 + 1) % len(UNTIMED_ONSETS)]
                spec = [[(u1, a), ("2.25", b)], [("1.5", a), (u1, b)], [(u1, a), (u2, b)]][pat]
                add("tsv1" if k % 4 == 0 else "hed1", spec, (2, ci, cj, pat, u1, u2))
    delayish = [c for c in cells if "delay" in c.casefold() or "onset" in c.casefold() or "offset" in c.casefold()]
    for ci, a in enumerate(delayish):                       # three rows: the untimed row first / in the middle / last
        for cj, b in enumerate(cells):
            k += 1
            if w.quick and (ci + cj) % 4:
                continue
            u = UNTIMED_ONSETS[k % len(UNTIMED_ONSETS)]
            other = cells[(ci + cj + 4) % len(cells)]
            for pos in range(3):
                spec = [("1.5", b), ("9.0", other)]
                spec.insert(pos, (u, a))
                add("tsv1" if (k + pos) % 4 == 0 else "hed1", spec, (3, ci, cj, pos, u))
    return tables


# ------------------------------------------------------------------------------------------------ undefined onsets between numeric ones
BETWEEN_CELLS = ["Red", "Blue, (Green, Square)", "(Def/MyDef, Onset)", "(Def/MyDef, Offset)", "Red, Red", NA, "(Delay/2 s, (Green))",
                 "(Def/Other, Onset, (Blue))", "(Duration/2 s, (Red))", "Blech", "(Def/Other, Offset)", "Green"]
BETWEEN_UNDEFINED = [NA, "", "abc", "nan", "1,5"]
BETWEEN_NUMERIC = ["0.5", "1.5", "2.25", "9.0", "10.125"]      # increasing as numbers, not as strings; + 2 s never meets another row


def undefined_between_tables(w):
    """3-5 rows; 0, 1 or 2 of them with an onset that is no number (n/a, empty, abc, nan, '1,5') at every choice of positions, the
    others at increasing numeric onsets; seeded cell texts; every row permutation (quick: a seeded sample for 4 and 5 rows)"""
    import random
    rng = random.Random("%s/undefined-between" % w.seed)
    tables = []
    k = 0
    for n in (3, 4, 5):
        all_perms = [list(p) for p in itertools.permutations(range(n))]
        for u in (0, 1, 2):
            for pos in itertools.combinations(range(n), u):
                for ci in range(2 if w.quick else 8):
                    k += 1
                    numeric = iter(BETWEEN_NUMERIC)
                    onsets = [BETWEEN_UNDEFINED[(k + j) % len(BETWEEN_UNDEFINED)] if j in pos else next(numeric) for j in range(n)]
                    layout = "tsv1" if k % 3 == 0 else "hed1"
                    cells = rng.sample(BETWEEN_CELLS, n)
                    if layout == "tsv1":
                        cells = [("" if (c == NA and k % 2) else c) for c in cells]
                    rows = build_rows(layout, [{"HED": c} for c in cells], onsets)
                    perms = all_perms
                    cap = {3: 6, 4: 12, 5: 14}[n] if w.quick else 120
                    if len(perms) > cap:
                        perms = [all_perms[0], all_perms[-1]] + rng.sample(all_perms[1:-1], cap - 2)
                    tables.append({"layout": layout, "rows": rows, "key": ("between", n, pos, ci, layout), "perms": perms})
    return tables


# ------------------------------------------------------------------------------------------------ untimed rows, every spelling
SPELL_MODES = ["long", "partial", "lower", "upper", "mixed", "long-upper", "partial-lower", "long-mixed"]
SPELL_CELLS = ["(Duration/2 s, (Red))", "(Delay/1 s, (Blue))", "(Delay/500 ms, Duration/3 s, (Blue))", "(Def/MyDef, Onset)",
               "(Def/MyDef, Offset)", "(Def/Other, Inset), Green", "(Def/Other, Onset, (Blue, Square))",
               "((Def-expand/MyDef, (Green)), Onset)", "(Delay/2 s, Def/MyDef, Onset)",
               "(Delay/2 s, (Red)), (Duration/3 ms, (Blue)), Green", "Duration/2 s", "(Red, (Duration/2 s, (Blue)))", "Onset",
               # thorough only from here
               "(Def/MyDef, Inset), (Def/Other, Offset)", "(Duration/2 seconds, (Def/MyDef, Red))", "(Delay/3 ms, Def/Other, Offset), Red"]


def _spell_contexts(cell):
    """(layout, row types, onsets, eq label): the cell on a row that has no usable time"""
    return [
        ("hed1", [{"HED": cell}], [NA], L_NAONSET),
        ("tsv1", [{"HED": cell}], [""], L_NAONSET),
        ("hed1", [{"HED": cell}], ["abc"], L_NAONSET),
        ("hed1", [{"HED": "Red"}, {"HED": cell}], ["1.5", NA], L_NAONSET),
        ("hed1", [{"HED": cell}, {"HED": "Blue"}], [NA, "2.25"], L_NAONSET),
        ("hed0", [{"HED": cell}], [None], L_EQUAL),
        ("hed0", [{"HED": "Red"}, {"HED": cell}, {"HED": NA}], [None] * 3, L_EQUAL),
        ("sheet2", [dict(A=cell, B=NA)], [None], L_EQUAL),
        ("sheet2", [dict(A="Green", B=cell), dict(A=NA, B="Red")], [None] * 2, L_EQUAL),
        ("sheet0", [{0: cell, 2: "Blue"}], [None], L_EQUAL),
    ]


def untimed_spelling_tables(w):
    """rows without a usable time whose temporal tags (and Def) are written as full path / partial path / in another letter case:
    judged by the row oracle (one TEMPORAL_TAG_ERROR per temporal tag) and against the same file in canonical spelling"""
    cells = SPELL_CELLS[:13] if w.quick else SPELL_CELLS
    tables = []
    k = 0
    for ci, cell in enumerate(cells):
        for mi, mode in enumerate(SPELL_MODES):
            for xi, (layout, row_types, onsets, eq_label) in enumerate(_spell_contexts(cell)):
                k += 1
                if w.quick and (ci + mi + xi) % 3:
                    continue
                canon = build_rows(layout, row_types, onsets)
                twin_types = [{c: (respell(v, mode) if v == cell else v) for c, v in rt.items()} for rt in row_types]
                twin = build_rows(layout, twin_types, onsets)
                if twin == canon:
                    continue
                tables.append({"layout": layout, "rows": twin, "key": ("spell", ci, mode, xi), "perms": [list(range(len(twin)))],
                               "eq_label": eq_label, "temporal_label": None, "canon_rows": canon,
                               "canon_label": L_CASE if mode in CASE_MODES else L_SPELL})
    return tables


# row types of the Delay part (canonical spelling).  Onsets 1.5 / 2.25 / 9.0 / 10.125 plus 2 s / 500 ms / 3 ms never meet
# another row, so every shifted group is alone at its time point - except groups of ONE row with equal shifts.
DELAY_POOL = [
    "(Def/MyDef, Onset)", "(Def/MyDef, Offset)", "(Def/MyDef, Inset), Red", "(Def/Other, Onset, (Blue))",
    "(Def/Other, Offset)",
    # one shifted group
    "(Def/MyDef, Onset, Delay/2 s)", "(Def/MyDef, Offset, Delay/2 s), Blue", "(Delay/500 ms, Def/MyDef, Inset)",
    "(Def/MyDef, Offset, Delay/3 ms)", "(Def/Other, Onset, Delay/500 ms), (Def/MyDef, Inset)",
    # two or three shifted groups in one row: different shifts (in and against text order), equal shifts, equal shifts
    # in different units, shifts that pass the next row, the same name twice at one shifted time point
    "(Def/MyDef, Onset, Delay/500 ms), (Def/MyDef, Offset, Delay/2 s)",
    "(Def/MyDef, Offset, Delay/2 s), (Def/MyDef, Onset, Delay/3 ms)",
    "(Def/MyDef, Onset, Delay/2 s), (Def/Other, Onset, Delay/2000 ms), Red",
    "(Def/MyDef, Onset, Delay/500 ms), (Def/MyDef, Inset, Delay/500 ms)",
    "(Def/Other, Offset, Delay/2 s), (Def/MyDef, Inset, Delay/3 ms), (Def/Other, Onset, Delay/500 ms)",
    "(Def/MyDef, Inset, Delay/2 s), (Def/MyDef, Inset, Delay/3 ms), (Def/MyDef, Offset, Delay/2 s)",
    # errors that only the full check of the shifted group can find
    "(Delay/500 ms, (Red, Red)), (Delay/2 s, (Blue))",
    "(Delay/2 s, Duration/3 s, (Blue)), (Delay/2000 ms, Duration/2 s, (Red, (Green), (Green)))",
    "(Delay/2 s, (Blue)), (Delay/3 ms, Duration/2 s, (Square)), (Delay/500 ms, (Square, Square))",
]
CASE_MODES = ["lower", "upper", "mixed"]
PATH_MODES = ["long", "partial-upper"]


def delay_tables(w):
    """sets of 1-3 row types of DELAY_POOL in a seeded time order, each also respelled (reserved tags in lower / upper /
    mixed case) and compared with the canonical spelling"""
    idx = range(len(DELAY_POOL))
    combos = list(itertools.combinations(idx, 1)) + list(itertools.combinations(idx, 2))
    three = list(itertools.combinations(idx, 3))
    if w.quick:
        three = sorted(w.rng.sample(three, 160))
    tables = []
    for no, combo in enumerate(combos + three):
        rnd = list(combo)
        w.rng.shuffle(rnd)
        cells = [DELAY_POOL[i] for i in rnd]
        rows = build_rows("hed1", [{"HED": c} for c in cells], ONSETS)
        several = any(count_delay_groups(c) > 1 for c in cells)
        tables.append({"layout": "hed1", "rows": rows, "key": ("delay", tuple(rnd)),
                       "temporal_label": L_MULTI if several else L_TEMPORAL})
        all_modes = CASE_MODES + PATH_MODES
        modes = all_modes if not w.quick else (CASE_MODES + [PATH_MODES[no % 2]]) if len(combo) < 3 else [all_modes[no % 5]]
        for mode in modes:
            twin = build_rows("hed1", [{"HED": respell(c, mode)} for c in cells], ONSETS)
            tables.append({"layout": "hed1", "rows": twin, "key": ("delay", tuple(rnd), mode), "temporal_label": None,
                           "canon_rows": rows,    # judged against the canonical table, which the temporal oracle judges
                           "canon_label": L_CASE if mode in CASE_MODES else L_SPELL})
    return tables


ATTR_LAYOUTS = ["attr_t2a", "attr_t2b", "attr_t3", "attr_t4", "attr_t4tsv", "attr_s3", "attr_s4", "attr_s4tsv", "attr_s0"]


def attribution_tables(w):
    """one faulty cell in annotated column j, every assignment of {empty, n/a, valid} to the other annotated cells of the row, next to
    an all-valid row; k = 2..4 annotated columns.  quick: the fault kinds rotate over the assignments, thorough: all of them"""
    tables = []
    for layout in ATTR_LAYOUTS:
        lay = LAYOUTS[layout]
        bearing = lay["bearing"]
        k = len(bearing)
        sheet = lay["kind"] == "sheet"
        valid = {c: (ATTR_TAGS[i] if sheet else ATTR_VALID[c]) for i, c in enumerate(bearing)}
        faults = {c: (ATTR_TAG_FAULTS if sheet or c == "HED" else ATTR_FAULTS[c]) for c in bearing}
        no = 0
        for j, fc in enumerate(bearing):
            others = [c for c in bearing if c != fc]
            for states in itertools.product(("", NA, "valid"), repeat=k - 1):
                no += 1
                kinds = faults[fc] if not w.quick else [faults[fc][no % len(faults[fc])]]
                for fault in kinds:
                    row = {fc: fault}
                    for c, st in zip(others, states):
                        row[c] = valid[c] if st == "valid" else st
                    good = dict(valid)
                    rows = build_rows(layout, [good, row], ["1.5", "2.25"])
                    tables.append({"layout": layout, "rows": rows, "key": ("attr", layout, fc, states, fault),
                                   "perms": [[0, 1], [1, 0]], "strict_columns": True})
                    if no % 4 == 0:      # the faulty row alone in the file
                        rows1 = build_rows(layout, [row], ["1.5"])
                        tables.append({"layout": layout, "rows": rows1, "key": ("attr1", layout, fc, states, fault),
                                       "perms": [[0]], "strict_columns": True})
    return tables


def run(w: Workload):
    w.rule = ("6 file layouts (events table from DataFrame / from TSV text, 1-3 HED-bearing columns with categorical and value "
              "sidecar columns, spreadsheet with and without header row); per layout a pool of 12-17 row types (valid, invalid "
              "at cell level, invalid only as a row, temporal markers, Delay/Duration, n/a, unknown key); a table = a set of "
              "1-4 distinct row types in a seeded time order at distinct onsets; a case = one row permutation of a table.  "
              "Part delay-groups: a further pool of 19 row types (Onset/Offset/Inset of two definitions unshifted and inside "
              "Delay groups, rows with two or three top-level Delay groups with equal / different / reordering shifts), sets "
              "of 1-3 of them, every table also with the reserved tags in lower, upper and mixed case")
    counters = {}
    _env()  # load schema and definitions before forking
    tables = main_tables(w)
    tables.sort(key=lambda t: -len(t["rows"]))
    jobs = _chunks(tables, 8)
    n = _absorb(w, _par(jobs), counters)
    w.part("tables", cases=n, bound="all sets of 1-3 row types per layout pool" + (" (first 12 of the pool)" if w.quick else "")
           + ("; 30 seeded sets of 4" if w.quick else "; all sets of 4 (at most 700 seeded per layout)")
           + "; ALL row permutations of each", exhaustive=False, base_tables=len(tables))
    ut = unit_tables(w)
    n = _absorb(w, _par(_chunks(ut, 20)), counters)
    w.part("units", cases=n, bound="Delay and Duration groups with each of the 73 unit spellings the schema derives for time units, "
           "as listed / upper / capitalised / swapped case; 2-row table, both row orders", exhaustive=True, base_tables=len(ut))
    et = edge_tables(w)
    n = _absorb(w, _par(_chunks(et, 3)), counters)
    w.part("delay-edge", cases=n, bound=f"{len(et)} listed malformed/edge Delay and Duration cells in a 3-row table, all orders",
           exhaustive=True, base_tables=len(et))
    nt = na_onset_tables(w)
    n = _absorb(w, _par(_chunks(nt, 20)), counters)
    w.part("na-onset", cases=n, bound="2-3 row tables with at least one n/a onset at every position over 4 cell texts",
           exhaustive=not w.quick, base_tables=len(nt))
    ut2 = untimed_tables(w)
    n = _absorb(w, _par(_chunks(ut2, 25)), counters)
    w.part("untimed-rows", cases=n, bound="rows whose onset is one of (n/a, '', abc, '1,5', --, nan) x %d cell texts (Delay groups, "
           "Delay+Onset, Duration, Delay+Duration, Onset / Offset / Inset markers, several Delay groups, plain tags, n/a): every "
           "(onset, cell) as a one-row file (DataFrame and TSV text); two-row files untimed+timed / timed+untimed / two untimed "
           "over %s cell pairs; three-row files with the untimed temporal row first / middle / last%s" %
           (len(UNTIMED_CELLS[:12] if w.quick else UNTIMED_CELLS), "a third of the" if w.quick else "all",
            " (a quarter of the combinations)" if w.quick else ""), exhaustive=not w.quick, base_tables=len(ut2))
    bt = undefined_between_tables(w)
    bt.sort(key=lambda t: len(t["rows"]))
    n = _absorb(w, _par(_chunks(bt, 6)), counters)
    w.part("undefined-between", cases=n, bound="3-5 row files (DataFrame / TSV text) with 0, 1 or 2 onsets that are no number (n/a, '', "
           "abc, nan, '1,5') at every choice of positions among increasing numeric onsets x %d seeded sets of cell texts out of %d "
           "(plain, row-level error, cell-level error, Onset / Offset markers, Delay and Duration groups, n/a); %s row permutations: "
           "row checks, same issues modulo row labels, out-of-order warning iff the numeric onsets step backwards in file order "
           "(numeric onsets in order + an undefined onset: one warning, own label)" %
           (2 if w.quick else 8, len(BETWEEN_CELLS), "all 6 / 12 sampled / 14 sampled" if w.quick else "ALL"),
           exhaustive=not w.quick, base_tables=len(bt))
    st = untimed_spelling_tables(w)
    n = _absorb(w, _par(_chunks(st, 25)), counters)
    w.part("untimed-spellings", cases=n, bound="%d cells with temporal tags (Duration / Delay groups, Onset / Offset / Inset with Def and "
           "Def-expand, delayed onset, several groups, misplaced and bare temporal tags) x %d spellings of Def / Onset / Offset / Inset "
           "/ Delay / Duration (full path, parent/name, lower, upper, mixed case and combinations) x 10 places without a usable time "
           "(onset n/a / empty / abc alone and next to a timed row, events table without onset column, spreadsheets with and "
           "without header)%s: row oracle (one TEMPORAL_TAG_ERROR per temporal tag) and equality with the canonical spelling" %
           (len(SPELL_CELLS[:13] if w.quick else SPELL_CELLS), len(SPELL_MODES), " (quick: a third of the combinations)" if w.quick else ""),
           exhaustive=not w.quick, base_tables=len(st))
    dt = delay_tables(w)
    dt.sort(key=lambda t: -len(t["rows"]))
    n = _absorb(w, list(reversed(_par(_chunks(dt, 6)))), counters)     # smallest tables first: minimal failure records
    w.part("delay-groups", cases=n, bound=f"all sets of 1-2 of {len(DELAY_POOL)} row types (Onset/Offset/Inset of two definitions, "
           "unshifted and shifted by Delay 2 s / 500 ms / 3 ms / 2000 ms; rows with two or three Delay groups: different, equal, "
           "reordering shifts; errors only the full check of a shifted group finds)"
           + ("; 160 seeded sets of 3" if w.quick else "; all sets of 3") + "; ALL row permutations; each table also with Def, "
           "Onset, Offset, Inset, Delay, Duration respelled in lower, upper and mixed case, as full path and as upper-case parent/name"
           + (" (quick: sets of 1-2 the three cases + one path form, sets of 3 one of the five spellings)" if w.quick else ""), exhaustive=False, base_tables=len(dt))
    ct = close_onset_tables(w)
    n = _absorb(w, _par(_chunks(ct, 6)), counters)
    w.part("close-onsets", cases=n, bound="%d onset bases (distinct onsets 1e-4 apart at 1000 .. 99999, 1e-6 apart at 10 / 64 / 99, "
           "1e-8 apart at 33) x %d pairs of cells (equal tags, different tags, Onset then Offset of one definition, the same Onset "
           "twice, a row-level error, n/a, a cell-level error) x 2-4 row files (two or three close rows, alone and inside a longer "
           "file) x DataFrame / TSV text%s; ALL row permutations; every row is its own time point" %
           (len(CLOSE_BASES), len(CLOSE_PAIRS), " (quick: half of the combinations)" if w.quick else ""),
           exhaustive=not w.quick, base_tables=len(ct))
    eqt = equal_onset_tables(w)
    n = _absorb(w, _par(_chunks(eqt, 6)), counters)
    w.part("equal-onsets", cases=n, bound="%d triples of spellings of one number (2 / 2.0 / 2.000, 1e1 / 10 / 10.0, leading zeros, "
           "trailing zeros, exponent) x %d cell triples (different tags, equal tags, n/a, Onset markers of the same / different "
           "definitions) x 5 file shapes (2-3 rows at the time point, next to far and to very close other onsets) x DataFrame / "
           "TSV text%s; all row orders (4-row files: 4 orders); the rows of one time point are judged as their joined annotation"
           % (len(EQUAL_SPELLINGS), len(EQUAL_CELLS), " (quick: half of the combinations)" if w.quick else ""),
           exhaustive=not w.quick, base_tables=len(eqt))
    at = attribution_tables(w)
    n = _absorb(w, _par(_chunks(at, 40)), counters)
    w.part("column-attribution", cases=n, bound="%d layouts with k = 2..4 annotated columns (events table: value + HED, two categorical, "
           "HED + two categorical, two categorical + value + HED from DataFrame and from TSV text, file order different from sorted "
           "order; spreadsheet: 3 and 4 tag columns from DataFrame / TSV text, 3 numbered tag columns without header) x faulty "
           "column j x every assignment of (empty, n/a, valid) to the other k-1 annotated cells x %s fault kinds (unknown tag, "
           "unbalanced parenthesis, forbidden character, empty tag; for sidecar columns through the entry / template): 2-row file "
           "(all-valid row + faulty row) in both row orders, every 4th also as a 1-row file; the cell's own errors are labelled with "
           "its column and row" % (len(ATTR_LAYOUTS), "one rotating of the" if w.quick else "all"),
           exhaustive=not w.quick, base_tables=len(at))
    w.bounded[-1]["checks_per_clause"] = counters
    w.exhaustive = False
    w.not_covered += ["Delay groups landing on another row's onset; rows sharing an onset other than in part equal-onsets (plain "
                      "tags and Onset markers); onsets closer than the documented 1e-9 tolerance",
                      "temporal oracle on tables with invalid rows or with Delay groups other than plain top-level "
                      "'(..., Delay/<number> s|ms, ...)' groups (only invariance and the bound 'extra TEMPORAL_TAG_ERROR <= "
                      "temporal groups of the row' are checked there)",
                      "respelling (letter case, path form) of tags other than Def/Onset/Offset/Inset/Delay/Duration, and of unit names",
                      "warnings are compared only through shuffle invariance, not against string-level validation",
                      ".xlsx input; column_prefix_dictionary; missing/duplicate/blank column names; unknown column references",
                      "sidecar entries with curly-brace references (C06)"]
    w.assumptions += ["HedString(text, schema, defs).validate(allow_placeholders=False) is the string-level verdict (C01)",
                      "the assembled row text is the C06 union of column contributions (checked by rt.c06)",
                      "definitions are supplied through extra_def_dicts"]


def replay(w: Workload, case: dict):
    inp = case["input"]
    clause = case["clause"]
    w.case(key="replay")
    n = len(inp["rows"])
    perms = [list(range(n))] + ([inp["order"]] if inp["order"] != list(range(n)) else [])
    if inp.get("mode") == "together":
        for order, res in check_table_together(inp["layout"], inp["rows"], perms):
            if order == inp["order"]:
                for cl, ok, obs, exp in res:
                    if cl == clause and not ok:
                        w.fail(cl, inp, obs, exp)
        return
    for order, res in check_table(inp["layout"], inp["rows"], perms, inp.get("raise_label", L_RAISES),
                                  inp.get("eq_label", L_EQUAL), inp.get("temporal_label", L_TEMPORAL),
                                  inp.get("canon_rows"), inp.get("canon_label", L_CASE), inp.get("strict_columns", False)):
        if order != inp["order"]:
            continue
        for cl, ok, obs, exp in res:
            if cl == clause and not ok:
                w.fail(cl, inp, obs, exp)


if __name__ == "__main__":
    main(run, "C07", replay)
