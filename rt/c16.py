"""C16 -- each dataset file is validated with its inherited, merged sidecar (tier T3, bounded runtime workload).

Every case is a generated BIDS-style tree written to a temporary directory:
  1-2 subjects x 0-2 sessions x 1-2 tasks x 1-2 runs (all 24 combinations cycled), one datatype directory,
  `*_events.json` sidecars at a subset of the levels {root, sub, ses, datatype dir} (all 16 subsets cycled), each
  directory using one entity-key set (any subset of sub/ses/task/run, incl. the empty one) with 1-2 value
  combinations (=> at most one applicable sidecar per directory, as the property requires), non-matching entity
  values as decoys, a different-suffix decoy, and one excluded directory holding an invalid decoy sidecar and an
  invalid decoy events file.  Contents are tiny HED column definitions, partly invalid.

A second flavour of trees (idx >= FLAVOR) fills the sidecars with entries whose HED annotation sits only in unusual places
(a HED key inside Levels, deeper levels, under another second-level key) or nowhere, at every level of the tree.  Every
dataset object is then asked again (validate two / three times with warnings switched, validate after get_summary / after
validate_sidecars / validate_datafiles alone): each later answer equals the answer of a fresh object (C16.repeat.same_answer).

The oracle works on the *generated model* (entities are known from generation, never parsed from names):
  merged(O) = update, root -> dirname(O), of the one same-suffix sidecar per directory whose entities all occur
  with the same value in O.  Expected issue lists are composed per file from the public validators
  (SidecarValidator / TabularInput.validate) applied to that merged dictionary.
"""
import contextlib
import io
import itertools
import json
import multiprocessing
import os
import random
import shutil
import subprocess
import sys
import tempfile

from rt.common import Workload, main, schema

ORDER = ["sub", "ses", "task", "run"]
EXCLUDED_NAMES = ["sourcedata", "derivatives", "code", "stimuli", "phenotype"]   # documented defaults of BidsDataset

COLS = {
    "trial_type": {
        "valid": [{"HED": {"go": "Red", "stop": "Blue"}}, {"HED": {"go": "Green", "stop": "Blue"}},
                  {"HED": {"go": "(Red, Item)", "stop": "Event"}},
                  {"Description": "no hed here", "Levels": {"go": "g", "stop": "s"}}],
        "invalid": [{"HED": {"go": "Red, Badtag", "stop": "Blue"}}, {"HED": {"go": "Red"}},
                    {"HED": {"go": "Red, Red", "stop": "Blue"}}],
    },
    "response": {
        "valid": [{"HED": {"left": "Item", "right": "Event"}}, {"HED": {"left": "(Red, Blue)", "right": "Color"}}],
        "invalid": [{"HED": {"left": "Item", "right": "Event, Wrongtag"}}, {"HED": {"left": "Item/Junk/#", "right": "Item"}}],
    },
    "rt": {
        "valid": [{"HED": "Label/#"}, {"Description": "reaction time"}],
        "invalid": [{"HED": "Label"}, {"HED": "Nonsense/#"}],
    },
    "onset": {"valid": [{"Description": "onset of the event"}], "invalid": [{"Description": "onset (other wording)"}]},
}

# sidecar entries whose HED annotation sits somewhere else than the column's own "HED" key, or that have none: whatever
# the per-sidecar validator says about the merged dictionary is what the dataset validation has to report
UNUSUAL = {
    "trial_type": [{"Levels": {"go": {"HED": "Red"}, "stop": "s"}},                       # a HED key inside Levels
                   {"Description": "d", "Levels": {"go": "g", "stop": {"HED": {"x": "Badtag"}}}},
                   {"Extra": {"Deeper": {"HED": {"go": "Red", "stop": "Blue"}}}},          # HED two levels further down
                   {"Description": "nothing annotated", "Levels": {"go": "g", "stop": "s"}},
                   {"Levels": {"go": "g"}, "Derivative": {"HED": "Green"}},                 # HED under a second-level key
                   {"LongName": "trial type"}],
    "response": [{"Levels": {"left": {"HED": "Item"}, "right": {"HED": "Event"}}},
                 {"Description": "which hand", "Units": {"HED": "Label/#"}},
                 {"Description": "which hand"},
                 {"Levels": {"left": "l", "right": "r"}, "TermURL": "http://example.org/HED"}],
    "rt": [{"Description": "reaction time", "Units": "s"}, {"Units": "s", "Levels": {"HED": "Label/#"}},
           {"Annotations": [{"HED": "Label/#"}]}],
    "onset": [{"Description": "onset of the event"}, {"Description": "onset", "Levels": {"HED": {"a": "Red"}}}],
    "stim_file": [{"Description": "a file", "Levels": {"a.png": {"HED": "Redd"}}}, {"LongName": "stimulus file"}],
}
# ordinary annotated columns used sparingly in the 'unusual' trees (so that some chains do inherit a real HED column)
UNUSUAL_ORDINARY = {"trial_type": [{"HED": {"go": "Red", "stop": "Blue"}}, {"HED": {"go": "Red, Badtag", "stop": "Blue"}}],
                    "response": [{"HED": {"left": "Item", "right": "Event"}}], "rt": [{"HED": "Label/#"}, {"HED": "Label"}]}
FLAVOR = 100000       # tree idx >= FLAVOR: the 'unusual' flavour (idx - FLAVOR gives the shape of the tree)

EVENTS = {
    "valid": ["onset\tduration\ttrial_type\tresponse\trt\n1.0\t0.5\tgo\tleft\t0.4\n2.0\t0.5\tstop\tright\tn/a\n",
              "onset\tduration\ttrial_type\n1.0\t0.5\tgo\n2.5\t0.5\tgo\n3.0\tn/a\tstop\n",
              "onset\tduration\tresponse\trt\tHED\n0.5\t0.1\tleft\t0.7\tItem\n1.5\t0.1\tright\t0.9\tn/a\n"],
    "invalid": ["onset\tduration\ttrial_type\tresponse\tHED\n1.0\t0.5\tgo\tleft\tOddtag\n2.0\t0.5\tnogo\tright\tn/a\n",
                "onset\tduration\ttrial_type\trt\n1.0\t0.5\tstop\tfast\n2.0\t0.5\tother\t0.3\n"],
}


# ------------------------------------------------------------------------------------------------ model generation
def _name(entities, suffix, ext):
    parts = [f"{k}-{entities[k]}" for k in ORDER if k in entities]
    return "_".join(parts + [suffix]) + ext


def gen_unusual_content(rng, ordinary):
    """columns whose HED (if any) is not at the column's own HED key; 'ordinary': the chance of a normally annotated column"""
    ncol = rng.choice([1, 1, 2, 2, 3])
    cols = rng.sample(list(UNUSUAL), ncol)
    out = {}
    for c in cols:
        if c in UNUSUAL_ORDINARY and rng.random() < ordinary:
            out[c] = rng.choice(UNUSUAL_ORDINARY[c])
        else:
            out[c] = rng.choice(UNUSUAL[c])
    return out


def gen_sidecar_content(rng, clean):
    ncol = rng.choice([1, 1, 2, 2, 3])
    cols = rng.sample(["trial_type", "response", "rt", "onset"], ncol)
    if "trial_type" not in cols and rng.random() < 0.5:
        cols[0] = "trial_type"
    out = {}
    for c in cols:
        kind = "valid" if clean or rng.random() < 0.7 else "invalid"
        out[c] = rng.choice(COLS[c][kind])
    return out


def gen_model(idx, seed):
    """-> dict(files=[...], params=...) ; each file: rel (tuple of components), kind, suffix, entities, excluded, content"""
    rng = random.Random(seed * 100003 + idx)
    flavor, idx_full = idx // FLAVOR, idx
    idx = idx % FLAVOR
    # unusual flavour: per tree the chance that a column is annotated the ordinary way: none / rare / sometimes
    ordinary = [0.0, 0.0, 0.15, 0.4][idx % 4]
    combos = list(itertools.product([1, 2], [0, 1, 2], [1, 2], [1, 2]))
    nsub, nses, ntask, nrun = combos[idx % len(combos)]
    lv = (idx // len(combos) + idx * 7) % 16
    if flavor and lv == 0:
        lv = 1 + idx % 15             # an unusual tree has sidecars somewhere
    levels = {name for bit, name in enumerate(["root", "sub", "ses", "dt"]) if lv >> bit & 1}
    clean = idx % 10 in (3, 6, 9)
    subs, sess = ["01", "02"][:nsub], ["1", "2"][:nses]
    tasks, runs = ["go", "stop"][:ntask], ["1", "2"][:nrun]
    use_run = nrun > 1 or rng.random() < 0.5
    dt = rng.choice(["eeg", "beh", "func"])
    files = []
    dirs = {"root": [((), {})], "sub": [], "ses": [], "dt": []}
    for sub in subs:
        sdir = (f"sub-{sub}",)
        dirs["sub"].append((sdir, {"sub": sub}))
        for ses in (sess or [None]):
            ent0 = {"sub": sub}
            d = sdir
            if ses:
                d = d + (f"ses-{ses}",)
                ent0["ses"] = ses
                dirs["ses"].append((d, dict(ent0)))
            ddir = d + (dt,)
            dirs["dt"].append((ddir, dict(ent0)))
            for task in tasks:
                for run in runs:
                    ent = dict(ent0, task=task)
                    if use_run:
                        ent["run"] = run
                    if len(files) and rng.random() < 0.12:
                        continue      # a missing recording
                    kind = "valid" if clean or rng.random() < 0.75 else "invalid"
                    files.append({"rel": ddir + (_name(ent, "events", ".tsv"),), "kind": "events", "suffix": "events",
                                  "entities": ent, "excluded": False, "content": rng.choice(EVENTS[kind])})
    domains = {"sub": subs + ["09"], "ses": sess + ["9"], "task": tasks + ["rest"], "run": runs + ["9"]}
    avail = ["sub", "task"] + (["ses"] if sess else []) + (["run"] if use_run else [])
    for level in ["root", "sub", "ses", "dt"]:
        if level not in levels:
            continue
        for d, dent in dirs[level]:
            if rng.random() < 0.15:
                continue
            size = rng.choice([0, 1, 1, 1, 2, 2, 3])
            keys = rng.sample(avail, min(size, len(avail)))
            if level != "root" and rng.random() < 0.6 and "sub" not in keys:
                keys.append("sub")           # the typical BIDS naming
            if not keys:
                value_sets = [{}]
            else:
                n = rng.choice([1, 2, 2, 3])
                value_sets = []
                for j in range(n):
                    vs = {}
                    for k in keys:
                        if k in dent and rng.random() < 0.85:
                            vs[k] = dent[k]
                        else:
                            dom = domains[k]
                            vs[k] = rng.choice(dom[:-1]) if rng.random() < 0.85 else dom[-1]
                    if vs not in value_sets:
                        value_sets.append(vs)
            for vs in value_sets:
                files.append({"rel": d + (_name(vs, "events", ".json"),), "kind": "sidecar", "suffix": "events",
                              "entities": vs, "excluded": False,
                              "content": gen_unusual_content(rng, ordinary) if flavor else gen_sidecar_content(rng, clean)})
    # different-suffix decoys (never part of the events group)
    if rng.random() < 0.6:
        d, dent = rng.choice(dirs["root"] + dirs["sub"])
        files.append({"rel": d + (_name({"task": tasks[0]}, "beh", ".json"),), "kind": "other", "suffix": "beh",
                      "entities": {"task": tasks[0]}, "excluded": False,
                      "content": {"trial_type": {"HED": {"go": "Decoytag", "stop": "Decoytag"}}}})
    if rng.random() < 0.4:
        d, dent = rng.choice(dirs["dt"])
        ent = dict(dent, task=tasks[0])
        files.append({"rel": d + (_name(ent, "channels", ".tsv"),), "kind": "other", "suffix": "channels",
                      "entities": ent, "excluded": False, "content": "name\ttype\tHED\nCz\tEEG\tDecoytag\n"})
    # a JSON file whose name merely ENDS in "events" but has another BIDS suffix: must never be merged into an events file
    # (valid content, so that it contributes no issues even though the discovery lists it; see not_covered)
    if rng.random() < 0.5:
        d, dent = rng.choice(dirs["root"] + dirs["sub"] + dirs["ses"])
        ent = rng.choice([{}, {"task": tasks[0]}, dict(dent)])
        files.append({"rel": d + (_name(ent, "stimevents", ".json"),), "kind": "other", "suffix": "stimevents",
                      "entities": ent, "excluded": False,
                      "content": {"trial_type": {"HED": {"go": "Green", "stop": "Green"}},
                                  "stim_file": {"Description": "decoy of another suffix"}}})
    # one excluded directory with an invalid decoy sidecar + an invalid decoy events file
    xname = rng.choice(EXCLUDED_NAMES)
    xparent, xent = rng.choice(dirs["root"] + dirs["root"] + dirs["sub"] + dirs["ses"])
    xdir = xparent + (xname,)
    files.append({"rel": xdir + (rng.choice(["events.json", _name({"task": tasks[0]}, "events", ".json")]),),
                  "kind": "sidecar", "suffix": "events", "entities": {}, "excluded": True,
                  "content": {"trial_type": {"HED": {"go": "Excludedtag", "stop": "Excludedtag"}}}})
    ent = dict(xent or {"sub": subs[0]}, task=tasks[0], run="7")
    sub_in_x = xdir + ((f"sub-{ent['sub']}", dt) if rng.random() < 0.5 else ())
    files.append({"rel": sub_in_x + (_name(ent, "events", ".tsv"),), "kind": "events", "suffix": "events",
                  "entities": ent, "excluded": True,
                  "content": "onset\tduration\ttrial_type\tHED\n1.0\t0.5\tgo\tExcludedtag2\n"})
    params = {"idx": idx_full, "seed": seed, "subjects": nsub, "sessions": nses, "tasks": ntask, "runs": nrun,
              "levels": sorted(levels), "clean": clean, "excluded_dir": "/".join(xdir)}
    if flavor:
        params["flavor"] = "unusual placement of HED in the sidecars (ordinary columns: %s)" % ordinary
    return {"files": files, "params": params}


def write_model(model, root):
    with open(os.path.join(root, "dataset_description.json"), "w") as fp:
        json.dump({"Name": "generated", "BIDSVersion": "1.8.0", "HEDVersion": "8.3.0"}, fp)
    for f in model["files"]:
        p = os.path.join(root, *f["rel"])
        os.makedirs(os.path.dirname(p), exist_ok=True)
        with open(p, "w") as fp:
            if isinstance(f["content"], str):
                fp.write(f["content"])
            else:
                json.dump(f["content"], fp)


# ------------------------------------------------------------------------------------------------ the oracle
def spec_chain(model, obj):
    """sidecars applicable to obj, root first (property text).  Raises if two apply in one directory (generator bug)."""
    chain = []
    odir = obj["rel"][:-1]
    for depth in range(len(odir) + 1):
        d = odir[:depth]
        cands = [s for s in model["files"]
                 if s["kind"] == "sidecar" and not s["excluded"] and s["suffix"] == obj["suffix"] and s["rel"][:-1] == d
                 and all(obj["entities"].get(k) == v for k, v in s["entities"].items())]
        if len(cands) > 1:
            raise AssertionError("generator produced two applicable sidecars in one directory")
        chain += cands
    return chain


def spec_merge(chain):
    merged = {}
    for s in chain:
        for column, value in s["content"].items():     # deeper overrides shallower, per column key
            merged[column] = value
    return merged


def in_defect_class(chain):
    """known defect: a shallower applicable sidecar names an entity that the deepest applicable sidecar's name lacks"""
    if len(chain) < 2:
        return False
    deepest = chain[-1]["entities"]
    return any(any(deepest.get(k) != v for k, v in s["entities"].items()) for s in chain[:-1])


def norm_issue(issue):
    return json.dumps({k: str(v) for k, v in issue.items()}, sort_keys=True)


def expected_issues(model, root, check_for_warnings):
    """-> (sorted sidecar issues, {events basename: sorted issues}) composed per file from the public validators"""
    from hed.errors.error_reporter import ErrorHandler
    from hed.models.sidecar import Sidecar
    from hed.models.tabular_input import TabularInput
    from hed.validator.sidecar_validator import SidecarValidator
    s = schema()
    side = []
    data = {}
    for f in model["files"]:
        if f["excluded"] or f["suffix"] != "events":
            continue
        name = f["rel"][-1]
        merged = spec_merge(spec_chain(model, f))
        if f["kind"] == "sidecar":
            sc = Sidecar(io.StringIO(json.dumps(merged)), name=name)
            issues = SidecarValidator(s).validate(sc, name=name, error_handler=ErrorHandler(check_for_warnings))
            side += [norm_issue(i) for i in issues]
        elif f["kind"] == "events":
            path = os.path.join(root, *f["rel"])
            sc = Sidecar(io.StringIO(json.dumps(merged)), name=name) if merged else None
            tab = TabularInput(file=path, sidecar=sc, name=path)
            issues = tab.validate(s, name=name, error_handler=ErrorHandler(check_for_warnings))
            data[name] = sorted(norm_issue(i) for i in issues)
    return sorted(side), data


# ------------------------------------------------------------------------------------------------ observation
def run_cli(root, check_for_warnings, fmt, out_dir):
    """hed.scripts.hed_validator.main() in-process -> (return value | 'raises ...')"""
    from hed.scripts import hed_validator
    argv = ["hed_validator", root, "-f", fmt]
    if check_for_warnings:
        argv.append("--check-for-warnings")
    if out_dir:
        argv += ["-o", os.path.join(out_dir, "out.txt")]
    old = sys.argv
    sys.argv = argv
    try:
        with contextlib.redirect_stdout(io.StringIO()), contextlib.redirect_stderr(io.StringIO()):
            return hed_validator.main()
    except SystemExit as e:
        return "SystemExit(%r)" % (e.code,)
    except BaseException as e:  # noqa
        return "raises " + type(e).__name__ + ": " + str(e)[:150]
    finally:
        sys.argv = old


def check_model(model, fails, stats, subprocess_cli=False):
    """write the tree, observe the real code, compare.  fails: list of (clause, input, observed, expected)"""
    from hed.tools.bids.bids_dataset import BidsDataset
    params = model["params"]
    listing = sorted("/".join(f["rel"]) for f in model["files"])

    def inp(**kw):
        d = {"tree": params, "files": listing}
        d.update(kw)
        return d

    top = tempfile.mkdtemp(prefix="c16_")
    try:
        root = os.path.join(top, "ds")
        os.makedirs(root)
        out_dir = os.path.join(top, "out")
        os.makedirs(out_dir)
        write_model(model, root)
        real_root = os.path.realpath(root)
        try:
            ds = BidsDataset(root, schema=schema())
            grp = ds.get_tabular_group("events")
            datafiles = {os.path.relpath(p, real_root): o for p, o in grp.datafile_dict.items()}
            sidecars = {os.path.relpath(p, real_root): o for p, o in grp.sidecar_dict.items()}
        except BaseException as e:  # noqa
            fails.append(("C16.dataset.loads", inp(), type(e).__name__ + ": " + str(e)[:200], "a BidsDataset"))
            return
        live = [f for f in model["files"] if not f["excluded"] and f["suffix"] == "events"]
        exp_data = {"/".join(f["rel"]): f for f in live if f["kind"] == "events"}
        exp_side = {"/".join(f["rel"]): f for f in live if f["kind"] == "sidecar"}
        xdir = params["excluded_dir"] + "/"
        taken = sorted(k for k in list(datafiles) + list(sidecars) if k.startswith(xdir))
        if taken:
            fails.append(("C16.exclude.no_part", inp(), taken, []))
        obs_d = sorted(k for k in datafiles if not k.startswith(xdir))
        obs_s = sorted(k for k in sidecars if not k.startswith(xdir) and not k.endswith("stimevents.json"))
        if obs_d != sorted(exp_data):
            fails.append(("C16.discover.datafiles", inp(), obs_d, sorted(exp_data)))
        if obs_s != sorted(exp_side):
            fails.append(("C16.discover.sidecars", inp(), obs_s, sorted(exp_side)))
        # ---- merged sidecars
        defect_files = set()
        for rel, f in exp_data.items():
            chain = spec_chain(model, f)
            exp = spec_merge(chain)
            stats["events_files"] += 1
            stats["chain_len"][min(len(chain), 4)] += 1
            overriding = len(chain) > 1 and sum(len(s["content"]) for s in chain) > len(exp)
            stats["overriding"] += overriding
            defect = in_defect_class(chain)
            if defect:
                defect_files.add(f["rel"][-1])
                stats["defect_class"] += 1
            o = datafiles.get(rel)
            if o is None:
                continue
            try:
                obs = o.sidecar.contents.loaded_dict if o.sidecar is not None else {}
            except BaseException as e:  # noqa
                obs = "raises " + type(e).__name__
            if obs != exp:
                clause = "C16.merge.datafile" + (".shallower_entity_not_in_deepest" if defect else "")
                fails.append((clause, inp(events_file=rel, chain=["/".join(s["rel"]) for s in chain]), obs, exp))
        for rel, f in exp_side.items():
            o = sidecars.get(rel)
            if o is None:
                continue
            chain = spec_chain(model, f)
            exp = spec_merge(chain)
            try:
                obs = o.contents.loaded_dict
            except BaseException as e:  # noqa
                obs = "raises " + type(e).__name__
            if obs != exp:
                fails.append(("C16.merge.sidecar", inp(sidecar=rel, chain=["/".join(s["rel"]) for s in chain]), obs, exp))
        # ---- validation
        fresh = {}
        for rel, f in exp_side.items():
            merged = spec_merge(spec_chain(model, f))
            stats["sidecars"] += 1
            stats["sidecars_without_column_hed"] += not any(isinstance(v, dict) and "HED" in v for v in merged.values())
        for cfw in (False, True):
            try:
                real = BidsDataset(root, schema=schema()).validate(check_for_warnings=cfw)
            except BaseException as e:  # noqa
                fails.append(("C16.validate.completes", inp(check_for_warnings=cfw),
                              type(e).__name__ + ": " + str(e)[:200], "an issue list"))
                continue
            stats["validations"] += 1
            stats["nonempty"] += bool(real)
            try:
                exp_s, exp_d = expected_issues(model, root, cfw)
            except BaseException as e:  # noqa
                fails.append(("C16.validate.completes", inp(check_for_warnings=cfw, where="per-file validation"),
                              type(e).__name__ + ": " + str(e)[:200], "an issue list"))
                continue
            obs_s, obs_d = [], {}
            for i in real:
                fn = str(i.get("ec_filename", ""))
                if fn.endswith(".tsv"):
                    obs_d.setdefault(fn, []).append(norm_issue(i))
                else:
                    obs_s.append(norm_issue(i))
            if sorted(obs_s) != exp_s:
                fails.append(("C16.validate.sidecar_issues", inp(check_for_warnings=cfw),
                              _diff(sorted(obs_s), exp_s), "per-sidecar validation of the merged sidecars"))
            fresh[cfw] = (sorted(obs_s), sorted(x for v in obs_d.values() for x in v))
            # the sidecar step on its own (a fresh object): the same list, nothing skipped
            try:
                g2 = BidsDataset(root, schema=schema()).get_tabular_group("events")
                alone = sorted(norm_issue(i) for i in g2.validate_sidecars(schema(), check_for_warnings=cfw))
            except BaseException as e:  # noqa
                alone = "raises " + type(e).__name__ + ": " + str(e)[:200]
            stats["sidecar_issues"] += len(exp_s)
            if alone != exp_s:
                fails.append(("C16.validate.sidecar_issues", inp(check_for_warnings=cfw, via="validate_sidecars"),
                              alone if isinstance(alone, str) else _diff(alone, exp_s),
                              "per-sidecar validation of the merged sidecars"))
            for name in sorted(set(obs_d) | set(exp_d)):
                o, e = sorted(obs_d.get(name, [])), exp_d.get(name, [])
                if o != e:
                    clause = "C16.validate.datafile_issues" + \
                        (".shallower_entity_not_in_deepest" if name in defect_files else "")
                    fails.append((clause, inp(check_for_warnings=cfw, events_file=name), _diff(o, e),
                                  "validation of the file with its merged sidecar"))
            # ---- CLI exit status (dataset opened the way the CLI does: schema from dataset_description)
            try:
                lst = BidsDataset(root).validate(check_for_warnings=cfw)
            except BaseException as e:  # noqa
                fails.append(("C16.validate.completes", inp(check_for_warnings=cfw, schema="from description"),
                              type(e).__name__ + ": " + str(e)[:200], "an issue list"))
                continue
            fmt = ["text", "json", "json_pp"][(params["idx"] + cfw) % 3]
            rc = run_cli(root, cfw, fmt, out_dir if params["idx"] % 2 else None)
            stats["cli"] += 1
            raised = isinstance(rc, str) and rc.startswith("raises ")
            if raised:
                # sys.exit(main()) with an uncaught exception makes the process exit with status 1: for the property
                # (exit status) that is "non-zero"; the crash itself is counted and reported as an observation
                stats["cli_raised"] += 1
                stats["cli_raised_msgs"] = sorted(set(stats["cli_raised_msgs"]) | {fmt + ": " + rc})[:5]
            stats["cli_nonzero"] += raised or rc not in (0, None)
            ok = bool(lst) if raised else \
                (isinstance(rc, int) and not isinstance(rc, bool) and ((rc != 0) == bool(lst)))
            if not ok:
                fails.append(("C16.cli.exit_status", inp(check_for_warnings=cfw, format=fmt), rc,
                              "non-zero" if lst else 0))
            if subprocess_cli:
                cmd = [sys.executable, "-m", "hed.scripts.hed_validator", root, "-f", fmt] + \
                    (["--check-for-warnings"] if cfw else [])
                try:
                    pr = subprocess.run(cmd, capture_output=True, timeout=120)
                    code = pr.returncode
                except BaseException as e:  # noqa
                    code = "raises " + type(e).__name__
                stats["cli_subprocess"] += 1
                if not (isinstance(code, int) and (code != 0) == bool(lst)):
                    fails.append(("C16.cli.exit_status", inp(check_for_warnings=cfw, via="subprocess"), code,
                                  "non-zero" if lst else 0))
        # ---- the same dataset object asked more than once
        if len(fresh) == 2:
            check_repeats(ds, root, params, fresh, fails, stats, inp)
    finally:
        shutil.rmtree(top, ignore_errors=True)


REPEAT_PLANS = [
    ["summary", "validate"],
    ["validate_sidecars", "validate", "validate_datafiles", "validate_datafiles", "validate_sidecars"],
    ["validate_datafiles_keep", "validate", "validate"],
    ["validate_datafiles", "summary", "validate_datafiles", "validate"],
    ["validate", "validate_sidecars", "validate_datafiles_keep", "validate_datafiles"],
]


def check_repeats(ds, root, params, fresh, fails, stats, inp):
    """every later answer of one dataset object equals the answer a fresh object gives (which is judged above against the
    per-file validators): validate() twice and three times, warnings switched in between, validate() after get_summary,
    after validate_sidecars / validate_datafiles alone.  fresh: check_for_warnings -> (sidecar issues, datafile issues)"""
    from hed.tools.bids.bids_dataset import BidsDataset
    idx = params["idx"]
    a, b = bool(idx & 1), bool(idx & 2)
    plans = [(ds, [("validate", a), ("validate", b), ("validate", a)])]
    plan = REPEAT_PLANS[(idx // 4) % len(REPEAT_PLANS)]
    try:
        plans.append((BidsDataset(root, schema=schema()), [(step, bool((idx + k) % 3 == 0) != a) for k, step in enumerate(plan)]))
    except BaseException as e:  # noqa
        fails.append(("C16.dataset.loads", inp(), type(e).__name__ + ": " + str(e)[:200], "a BidsDataset"))
    for obj, steps in plans:
        history = []
        for step, cfw in steps:
            history.append([step, cfw])
            want = None
            try:
                grp = obj.get_tabular_group("events")
                if step == "summary":
                    obj.get_summary()
                    continue
                elif step == "validate":
                    got = obj.validate(check_for_warnings=cfw)
                    want = sorted(fresh[cfw][0] + fresh[cfw][1])
                elif step == "validate_sidecars":
                    got = grp.validate_sidecars(obj.schema, check_for_warnings=cfw)
                    want = fresh[cfw][0]
                else:
                    got = grp.validate_datafiles(obj.schema, check_for_warnings=cfw, keep_contents=step.endswith("_keep"))
                    want = fresh[cfw][1]
                got = sorted(norm_issue(i) for i in got)
            except BaseException as e:  # noqa
                got = "raises " + type(e).__name__ + ": " + str(e)[:200]
            stats["repeat_calls"] += 1
            stats["repeat_nonempty"] += bool(want)
            if got != want:
                fails.append(("C16.repeat.same_answer", inp(calls_on_one_object=[list(h) for h in history]),
                              got if isinstance(got, str) else _diff(got, want),
                              "the answer a fresh BidsDataset object gives to the last call"))
                break


def _diff(obs, exp):
    o, e = list(obs), list(exp)
    for x in list(o):
        if x in e:
            o.remove(x)
            e.remove(x)
    return {"only_observed": o[:4], "only_expected": e[:4], "n_observed": len(obs), "n_expected": len(exp)}


def new_stats():
    return {"events_files": 0, "chain_len": [0, 0, 0, 0, 0], "overriding": 0, "defect_class": 0, "validations": 0,
            "nonempty": 0, "cli": 0, "cli_nonzero": 0, "cli_subprocess": 0, "cli_raised": 0, "cli_raised_msgs": [],
            "sidecars": 0, "sidecars_without_column_hed": 0, "sidecar_issues": 0, "repeat_calls": 0, "repeat_nonempty": 0}


def _work(job):
    idx, seed, sub = job
    schema()
    fails, stats = [], new_stats()
    model = gen_model(idx, seed)
    try:
        check_model(model, fails, stats, subprocess_cli=sub)
    except AssertionError as e:
        return {"skip": str(e), "idx": idx, "fails": [], "stats": stats, "params": model["params"]}
    return {"fails": fails, "stats": stats, "params": model["params"], "idx": idx,
            "nfiles": len(model["files"])}


def run(w: Workload):
    n = 150 if w.quick else 2000
    w.rule = ("tree idx -> (subjects, sessions, tasks, runs) = idx-th of the 24 combinations of 1-2 x 0-2 x 1-2 x 1-2, "
              "sidecar levels = one of the 16 subsets of {root, sub, ses, datatype dir}; per directory one entity-key "
              "subset of sub/ses/task/run with 1-2 value combinations (some non-matching), contents drawn from 4 columns "
              "x valid/invalid variants; every tree has an excluded directory (one of the 5 default names, at root/sub/ses "
              "level) with an invalid sidecar and events file, most have different-suffix decoys; 30% of trees are "
              "free of invalid content.  A tree is non-trivial if some events file inherits >= 2 sidecars.")
    schema()
    nsub = 2 if w.quick else 12
    n_unusual = 40 if w.quick else 400
    jobs = [(i, w.seed, i < nsub * 5 and i % 5 == 3) for i in range(n)]
    jobs += [(FLAVOR + i, w.seed, False) for i in range(n_unusual)]
    workers = max(1, min(14, (os.cpu_count() or 2) - 1))
    with multiprocessing.get_context("fork").Pool(workers) as pool:
        results = pool.map(_work, jobs, chunksize=2)
    tot = new_stats()
    skipped = 0
    for r in results:
        if "skip" in r:
            skipped += 1
            continue
        st = r["stats"]
        for k, v in st.items():
            if k == "cli_raised_msgs":
                tot[k] = sorted(set(tot[k]) | set(v))[:5]
            elif isinstance(v, list):
                tot[k] = [a + b for a, b in zip(tot[k], v)]
            else:
                tot[k] += v
        p = r["params"]
        w.case(("tree", r["idx"], w.seed), nontrivial=sum(st["chain_len"][2:]) > 0,
               sample={"tree": p, "files": r["nfiles"], "events_files": st["events_files"], "chain_lengths": st["chain_len"]})
        for f in r["fails"]:
            w.fail(f[0], f[1], f[2], f[3])
    if skipped:
        w.assumptions.append(f"{skipped} generated trees skipped by the generator's own at-most-one check")
    w.part("generated BIDS trees", cases=len(results) - skipped,
           bound=f"{n + n_unusual} trees; {tot['events_files']} events files with inheritance chains of length 0/1/2/3/4+ = "
                 f"{tot['chain_len']}, {tot['overriding']} with a column overridden by a deeper sidecar, "
                 f"{tot['defect_class']} in the known-defect class; {tot['validations']} dataset validations "
                 f"({tot['nonempty']} with issues); {tot['cli']} in-process CLI runs ({tot['cli_nonzero']} non-zero), "
                 f"{tot['cli_subprocess']} via `python -m hed.scripts.hed_validator`; main() raised in "
                 f"{tot['cli_raised']} runs (counted as non-zero exit, see observations); of these trees {n_unusual} have "
                 f"sidecars whose HED sits only in unusual places (inside Levels, deeper levels, under another second-level "
                 f"key) or nowhere, with ordinary columns in none / few / some of them: {tot['sidecars']} sidecars judged, "
                 f"{tot['sidecars_without_column_hed']} whose merged chain has no column-level HED key, "
                 f"{tot['sidecar_issues']} sidecar issues expected (BidsDataset.validate and validate_sidecars alone); "
                 f"{tot['repeat_calls']} repeated calls on an already used dataset object ({tot['repeat_nonempty']} with a "
                 f"non-empty expected answer): validate x3 with warnings switched, and one of {len(REPEAT_PLANS)} plans mixing "
                 f"get_summary / validate_sidecars / validate_datafiles (keep_contents on/off) / validate",
           exhaustive=False, stats=tot)
    if tot["cli_raised"]:
        w.assumptions.append("observation (outside the property text): hed_validator.main() raised instead of returning in "
                             f"{tot['cli_raised']} runs, all with a non-empty issue list: {tot['cli_raised_msgs']}; an "
                             "uncaught exception makes the process exit with status 1, so the exit-status clause holds")
    w.assumptions.append("SidecarValidator.validate / TabularInput.validate are the per-file validators (their own "
                         "correctness is C06-C08); issues compared as multisets of stringified issue dictionaries")
    w.assumptions.append("the generated model describes the files on disk (entities known from generation)")
    w.not_covered.append("more than one applicable sidecar in a directory (excluded by the property)")
    w.not_covered.append("symlinks, upper-case extensions, suffixes other than events, tabular_types other than the default")
    w.not_covered.append("whether a JSON file of another suffix that merely ends in 'events' (here *_stimevents.json) is listed "
                         "by the file discovery (it is: endswith match); only its non-participation in every merge is checked")
    w.not_covered.append("3 subjects/sessions/tasks/runs; sidecar/event contents beyond the 4 small columns used here")
    w.not_covered.append("text of the CLI output (only the exit status and that every output format completes)")


def replay(w: Workload, case: dict):
    schema()
    tree = case["input"]["tree"]
    model = gen_model(tree["idx"], tree["seed"])
    fails, stats = [], new_stats()
    check_model(model, fails, stats, subprocess_cli=case["input"].get("via") == "subprocess")
    want = {k: case["input"][k] for k in ("events_file", "sidecar", "check_for_warnings", "format", "via", "calls_on_one_object")
            if k in case["input"]}
    for f in fails:
        if f[0] == case["clause"] and all(f[1].get(k) == v for k, v in want.items()):
            w.fail(f[0], f[1], f[2], f[3])


if __name__ == "__main__":
    main(run, "C16", replay)
