"""C11 — Units are accepted and converted exactly as the schema defines them (tier T3, bounded runtime workload).

Oracle side (this file): the unit classes, units, SI prefixes, their attributes and conversion-factor texts and the
(tag -> unit classes) relation are read with ElementTree straight from the bundled schema XML (never through
hed.schema).  From the PROPERTY TEXT the set of accepted spellings is built:
  * unit *name*  : singular or plural, any letter case, optionally preceded by an SI *name* prefix when the unit is an SI unit;
  * unit *symbol*: exactly as declared, optionally preceded by an SI *symbol* prefix when the unit is an SI unit;
  * prefix-type units stand before the number.
English plurals come from a hand-written table (PLURALS); unit names without an entry get no plural test.
Expected value in default units = float(number) * float(unit factor text) * float(prefix factor text).

Extra text around a valid unit ('3 4 m', '3 m m', '3 k Hz', '3 feet inches', two blanks) is "any other unit text": an error
is expected (C11.reject.extra_text_before_unit / C11.reject.extra_blank_before_unit), silence is a failure.

Real side: HedValidator.validate(HedString(...)), HedTag.get_stripped_unit_value, HedTag.value_as_default_unit.
"""
import math
import os
import shutil
import tempfile
import xml.etree.ElementTree as ET

from rt.common import Workload, main, schema, codes  # noqa: F401

STANDARD = ["8.0.0", "8.1.0", "8.2.0", "8.3.0"]
LIBRARIES = ["score_1.0.0", "score_1.1.0", "score_2.0.0", "testlib_1.0.2", "testlib_2.0.0", "testlib_2.1.0",
             "testlib_3.0.0"]
SYNTHETIC = ["synthetic:currency", "synthetic:multi"]
LITERALS = ["3", "-1.5", ".5", "1e3", "+2", "0"]

# hand-written English plurals of the unit names occurring in the bundled schemas (lower case)
PLURALS = {"second": "seconds", "day": "days", "month": "months", "minute": "minutes", "hour": "hours", "year": "years",
           "radian": "radians", "degree": "degrees", "meter": "meters", "metre": "metres", "foot": "feet",
           "inch": "inches", "mile": "miles", "gram": "grams", "pound": "pounds", "lb": "lbs", "byte": "bytes",
           "hertz": "hertz", "volt": "volts", "tesla": "teslas", "candela": "candelas", "dollar": "dollars",
           "euro": "euros", "point": "points"}

# issue codes that say nothing about the value/unit of a tag (placement rules of Duration/Delay, deprecation notices)
STRUCTURAL = {"TEMPORAL_TAG_ERROR", "TAG_GROUP_ERROR", "ELEMENT_DEPRECATED", "TAG_REQUIRES_CHILD"}

_tmpdir = None
_xml_cache = {}
_real_cache = {}


# ----------------------------------------------------------------------------------------------------------------
# independent reading of the schema XML
# ----------------------------------------------------------------------------------------------------------------
def _schema_data_dir():
    import hed.schema
    return os.path.join(os.path.dirname(hed.schema.__file__), "schema_data")


def _xml_path(version):
    if version.startswith("synthetic:"):
        return _synthetic_path(version)
    name = "HED" + version + ".xml" if version[0].isdigit() else "HED_" + version + ".xml"
    return os.path.join(_schema_data_dir(), name)


def _synthetic_path(version):
    """8.3.0 with the unit class of Weight/# replaced: by currencyUnits (prefix-type unit '$'), or by two classes"""
    global _tmpdir
    if _tmpdir is None:
        _tmpdir = tempfile.mkdtemp(prefix="c11_")
    path = os.path.join(_tmpdir, "HED_" + version.split(":")[1] + ".xml")
    if not os.path.exists(path):
        text = open(_xml_path("8.3.0"), encoding="utf-8").read()
        old = "<value>weightUnits</value>"
        assert text.count(old) == 1, "expected exactly one tag with weightUnits in 8.3.0"
        if version == "synthetic:currency":
            new = "<value>currencyUnits</value>"
        else:
            new = "<value>weightUnits</value>\n<value>timeUnits</value>"
        with open(path, "w", encoding="utf-8") as f:
            f.write(text.replace(old, new))
    return path


def _cleanup():
    global _tmpdir
    if _tmpdir and os.path.isdir(_tmpdir):
        shutil.rmtree(_tmpdir, ignore_errors=True)
    _tmpdir = None


def _attrs(el):
    d = {}
    for a in el.findall("attribute"):
        n = (a.findtext("name") or "").strip()
        vals = [v.text for v in a.findall("value")]
        d[n] = vals if vals else True
    return d


def _one(attrs, key):
    v = attrs.get(key)
    if v is None or v is True:
        return None
    return v[0]


def _factor(text):
    """conversionFactor text -> float; the schema notation allows '^' for the exponent mark"""
    if text is None:
        return None
    return float(text.replace("^", "e"))


def read_xml(version):
    """-> dict(classes, mods, tags) read from the XML file alone"""
    if version in _xml_cache:
        return _xml_cache[version]
    root = ET.parse(_xml_path(version)).getroot()
    classes = {}
    for uc in root.find("unitClassDefinitions").findall("unitClassDefinition"):
        cname = uc.findtext("name").strip()
        cattrs = _attrs(uc)
        units = []
        for u in uc.findall("unit"):
            a = _attrs(u)
            units.append({"name": u.findtext("name"), "symbol": "unitSymbol" in a, "si": "SIUnit" in a,
                          "before": "unitPrefix" in a, "factor_text": _one(a, "conversionFactor"),
                          "deprecated": "deprecatedFrom" in a, "cls": cname})
        classes[cname] = {"default": _one(cattrs, "defaultUnits"), "units": units}
    mods = []
    for m in root.find("unitModifierDefinitions").findall("unitModifierDefinition"):
        a = _attrs(m)
        kinds = []
        if "SIUnitModifier" in a:
            kinds.append("name")
        if "SIUnitSymbolModifier" in a:
            kinds.append("symbol")
        mods.append({"name": m.findtext("name"), "kinds": kinds, "factor_text": _one(a, "conversionFactor")})
    tags = []

    def walk(node, parent_name, parent_deprecated):
        name = node.findtext("name")
        a = _attrs(node)
        dep = parent_deprecated or "deprecatedFrom" in a
        if name == "#" and "unitClass" in a and a["unitClass"] is not True:
            ucs = []
            for v in a["unitClass"]:
                ucs += [x.strip() for x in v.split(",") if x.strip()]
            vcs = []
            if a.get("valueClass") not in (None, True):
                for v in a["valueClass"]:
                    vcs += [x.strip() for x in v.split(",") if x.strip()]
            tags.append({"tag": parent_name, "classes": ucs, "value_classes": vcs, "deprecated": dep})
        for child in node.findall("node"):
            walk(child, name, dep)

    for top in root.find("schema").findall("node"):
        walk(top, None, False)
    out = {"classes": classes, "mods": mods, "tags": tags}
    _xml_cache[version] = out
    return out


# ----------------------------------------------------------------------------------------------------------------
# oracle: accepted spellings from the property text
# ----------------------------------------------------------------------------------------------------------------
class Oracle:
    def __init__(self, version):
        self.version = version
        self.x = read_xml(version)
        self.tables = {c: self._table(c) for c in self.x["classes"]}

    def permitted_mods(self, unit):
        if not unit["si"]:
            return []
        kind = "symbol" if unit["symbol"] else "name"
        return [m for m in self.x["mods"] if kind in m["kinds"]]

    def _table(self, cname):
        exact, folded, undecided = {}, {}, set()
        for u in self.x["classes"][cname]["units"]:
            mods = [None] + self.permitted_mods(u)
            if u["symbol"]:
                for m in mods:
                    exact.setdefault((m["name"] if m else "") + u["name"], []).append((u, m))
            else:
                low = u["name"].lower()
                forms = [low]
                if low in PLURALS:
                    forms.append(PLURALS[low])
                for m in mods:
                    p = m["name"].lower() if m else ""
                    for f in forms:
                        folded.setdefault(p + f, []).append((u, m))
                    if low not in PLURALS:      # plural of this name is not decided by the oracle
                        undecided.update({p + low + "s", p + low + "es"})
        return exact, folded, undecided

    def interpretations(self, unit_text, classnames):
        """all (unit, prefix) readings the property text gives to unit_text; 'undecided' if it may be an unknown plural"""
        out = []
        und = False
        for c in classnames:
            exact, folded, undecided = self.tables[c]
            out += exact.get(unit_text, [])
            out += folded.get(unit_text.lower(), [])
            und = und or unit_text.lower() in undecided
        return out, und

    def factor(self, unit, mod):
        f = _factor(unit["factor_text"])
        if f is None:
            return None
        mf = _factor(mod["factor_text"]) if mod else 1.0
        if mf is None:
            mf = 1.0
        return f * mf

    def judge(self, extension, classnames):
        """-> (status, number, unit_text, readings)   status in accepted|invalid|bare|undecided"""
        if " " not in extension:
            return "bare", extension, None, []
        first, _, rest = extension.partition(" ")
        if _is_number(first):
            readings, und = self.interpretations(rest, classnames)
            readings = [r for r in readings if not r[0]["before"]]
            if readings:
                return "accepted", first, rest, readings
            return ("undecided" if und else "invalid"), first, rest, []
        head, _, last = extension.rpartition(" ")
        if _is_number(last):
            readings, und = self.interpretations(head, classnames)
            readings = [r for r in readings if r[0]["before"]]
            if readings:
                return "accepted", last, head, readings
            return "invalid", last, head, []
        return "invalid", None, None, []


def _is_number(text):
    try:
        float(text)
    except ValueError:
        return False
    return text.strip() == text and not any(ch.isalpha() and ch not in "eE" for ch in text)


_oracles = {}
_stats = {}


def oracle(version):
    if version not in _oracles:
        _oracles[version] = Oracle(version)
    return _oracles[version]


# ----------------------------------------------------------------------------------------------------------------
# real side
# ----------------------------------------------------------------------------------------------------------------
def real(version):
    if version not in _real_cache:
        from hed.validator import HedValidator
        if version.startswith("synthetic:"):
            from hed.schema import load_schema
            s = load_schema(_synthetic_path(version))
        else:
            s = schema(version)
        _real_cache[version] = (s, HedValidator(s))
    return _real_cache[version]


def observe(version, text):
    """run the real code on one annotation 'Tag/<extension>'"""
    from hed import HedString, HedTag
    from hed.errors.error_types import ErrorSeverity
    s, v = real(version)
    obs = {}
    try:
        issues = v.validate(HedString(text, s), allow_placeholders=False)
        obs["issues"] = sorted((i["code"], "E" if i["severity"] == ErrorSeverity.ERROR else "W") for i in issues
                               if i["code"] not in STRUCTURAL)
    except Exception as e:  # noqa
        obs["validate_exc"] = repr(e)[:200]
        obs["issues"] = None
    try:
        tag = HedTag(text, s)
        obs["split"] = list(tag.get_stripped_unit_value(tag.extension))
    except Exception as e:  # noqa
        obs["split"] = "EXC " + repr(e)[:200]
    try:
        obs["value"] = HedTag(text, s).value_as_default_unit()
    except Exception as e:  # noqa
        obs["value"] = None
        obs["value_exc"] = type(e).__name__ + ": " + str(e)[:160]
    return obs


def _close(a, b):
    return isinstance(a, float) and math.isclose(a, b, rel_tol=1e-12, abs_tol=0.0) or (a == b)


# ----------------------------------------------------------------------------------------------------------------
# one group = (schema, tag, extension pattern) x literals ; everything the property says is checked here
# ----------------------------------------------------------------------------------------------------------------
def eval_group(w, version, tag, classes, unit_text, before, literals, count=True):
    """unit_text None = bare number; before=True puts the unit text before the number"""
    orc = oracle(version)
    values = []
    for lit in literals:
        if unit_text is None:
            ext = lit
        elif before:
            ext = unit_text + " " + lit
        else:
            ext = lit + " " + unit_text
        text = tag + "/" + ext
        status, number, utext, readings = orc.judge(ext, classes)
        if status == "undecided":
            continue
        inp = {"schema": version, "tag": tag, "classes": classes, "unit": unit_text, "before": before,
               "literal": lit, "text": text}
        if count:
            w.case(key=(version, text), nontrivial=True,
                   sample={"schema": version, "text": text, "oracle": status})
            _stats[status] = _stats.get(status, 0) + 1
        obs = observe(version, text)
        if not w.check("validate_exc" not in obs, "C11.total.validate_no_exception", inp, obs.get("validate_exc"),
                       "no exception"):
            continue
        got = obs["issues"]
        err_codes = [c for c, sev in got if sev == "E"]
        if status == "accepted":
            names = all(not r[0]["symbol"] for r in readings)
            blank = " " in utext
            if before or any(r[0]["before"] for r in readings):
                clause = "C11.accept.prefix_unit_before_number"
            elif blank:
                clause = "C11.accept.unit_name_with_blank"
            elif names:
                clause = "C11.accept.name_any_case_singular_plural"
            else:
                clause = "C11.accept.symbol_exact_with_prefix"
            ok = w.check(got == [], clause, inp, got, [])
            if ok:
                w.check(obs["split"] == [number, utext], "C11.split.value_and_unit", inp, obs["split"], [number, utext])
            # conversion: only claimed when accepted (by the property AND by the validator) and a factor is declared
            factors = sorted({orc.factor(*r) for r in readings if orc.factor(*r) is not None})
            declared = [r for r in readings if r[0]["factor_text"] is not None]
            if ok and declared and len(declared) == len(readings):
                exp = [float(number) * f for f in factors]
                if "value_exc" in obs:
                    case_variant = names and utext != utext.lower()
                    if case_variant and obs["value_exc"].startswith("TypeError"):
                        w.fail("C11.conv.D5_name_not_lowercase_raises", inp, obs["value_exc"], exp)
                    else:
                        w.fail("C11.conv.defined_no_exception", inp, obs["value_exc"], exp)
                else:
                    val = obs["value"]
                    good = val is not None and any(_close(val, e) for e in exp)
                    w.check(good, "C11.conv.equals_number_times_factors", inp, val, exp)
                    if good:
                        values.append((lit, val))
            elif ok:
                w.check("value_exc" not in obs, "C11.conv.no_factor_no_exception", inp, obs.get("value_exc"), None)
        elif status == "invalid":
            w.check("UNITS_INVALID" in err_codes, "C11.reject.units_invalid", inp, got, "UNITS_INVALID error")
            w.check("value_exc" not in obs and obs["value"] is None, "C11.conv.unrecognised_unit_is_none", inp,
                    obs.get("value_exc", obs["value"]), None)
            if isinstance(obs["split"], list):
                w.check(obs["split"][1] is None, "C11.split.value_and_unit", inp, obs["split"], "[<extension>, None]")
        else:  # bare number
            w.check(got == [("UNITS_MISSING", "W")], "C11.bare.only_units_missing_warning", inp, got,
                    [["UNITS_MISSING", "W"]])
            dflt = None
            if len(classes) == 1:
                c = orc.x["classes"][classes[0]]
                dflt = next((u for u in c["units"] if u["name"] == c["default"]), None)
            if "value_exc" in obs:
                if dflt is not None and not dflt["symbol"] and dflt["name"] != dflt["name"].lower() \
                        and obs["value_exc"].startswith("TypeError"):
                    w.fail("C11.conv.D5_name_not_lowercase_raises", inp, obs["value_exc"], "no exception")
                elif dflt is None:
                    w.fail("C11.conv.bare_number_without_default_unit_no_exception", inp, obs["value_exc"], None)
                else:
                    w.fail("C11.conv.defined_no_exception", inp, obs["value_exc"], "no exception")
            elif dflt is not None and dflt["factor_text"] is not None:
                exp = float(lit) * _factor(dflt["factor_text"])
                good = obs["value"] is not None and _close(obs["value"], exp)
                w.check(good, "C11.conv.equals_number_times_factors", inp, obs["value"], exp)
                if good:
                    values.append((lit, obs["value"]))
    # linear in the number: value(a) * b == value(b) * a for all pairs; value('0') == 0
    for i in range(len(values)):
        for j in range(i + 1, len(values)):
            (la, va), (lb, vb) = values[i], values[j]
            lhs, rhs = va * float(lb), vb * float(la)
            w.check(math.isclose(lhs, rhs, rel_tol=1e-9, abs_tol=0.0) or lhs == rhs, "C11.conv.linear_in_number",
                    {"schema": version, "tag": tag, "classes": classes, "unit": unit_text, "before": before,
                     "literals": [la, lb]}, [va, vb], "value(a)*b == value(b)*a")


# ----------------------------------------------------------------------------------------------------------------
# extra text between the number and a VALID trailing unit: "any other unit text is reported as an invalid unit"
# ----------------------------------------------------------------------------------------------------------------
JUNK = ["4", "x", "of", "1e3", "-2.5"]
EXTRA_OK_CODES = ("UNITS_INVALID", "VALUE_INVALID")
L_EXTRA = "C11.reject.extra_text_before_unit"
L_BLANKS = "C11.reject.extra_blank_before_unit"
_extra_stats = {}


def valid_unit_spellings(orc, classes, mods_filter=None):
    """-> list of (text, before, (prefix text or None, bare unit text)) - one declared spelling per unit plus up to two
    prefixed spellings for SI units; units whose name contains a blank are left out"""
    out = []
    for c in classes:
        for u in orc.x["classes"][c]["units"]:
            if u["deprecated"] or " " in u["name"]:
                continue
            bare = u["name"]
            out.append((bare, u["before"], (None, bare)))
            want = ("m", "k") if u["symbol"] else ("milli", "kilo")
            for m in orc.permitted_mods(u):
                if m["name"] in want:
                    out.append((m["name"] + bare, u["before"], (m["name"], bare)))
    seen, res = set(), []
    for t in out:
        if t[0] not in seen:
            seen.add(t[0])
            res.append(t)
    return res


def extra_text_shapes(number, spelling, before, parts, others):
    """-> list of (shape, extension).  All contain a number and END (or, for prefix-type units, START) with a valid unit,
    but carry more text than '<number> <unit>'"""
    out = []
    if before:
        out += [("junk_between", "%s %s %s" % (spelling, j, number)) for j in JUNK[:3]]
        out.append(("two_units", "%s %s %s" % (spelling, spelling, number)))
        out.append(("two_numbers", "%s %s %s" % (spelling, number, JUNK[0])))
        out.append(("blanks", "%s  %s" % (spelling, number)))
        return out
    out += [("junk_between", "%s %s %s" % (number, j, spelling)) for j in JUNK]
    out.append(("two_units", "%s %s %s" % (number, spelling, spelling)))
    for o in others:
        out.append(("two_units", "%s %s %s" % (number, o, spelling)))
    prefix, bare = parts
    if prefix is not None:
        out.append(("blank_in_prefixed_unit", "%s %s %s" % (number, prefix, bare)))
    out.append(("blanks", "%s  %s" % (number, spelling)))
    out.append(("blanks", "%s   %s" % (number, spelling)))
    return out


def eval_extra_text(w, version, tag, classes, literals, mods_filter=None, count=True, only=None):
    """only: restrict to one (spelling, extension) pair (replay)"""
    orc = oracle(version)
    spellings = valid_unit_spellings(orc, classes, mods_filter)
    after = [sp for sp, before, _ in spellings if not before]
    n = 0
    for k, (spelling, before, parts) in enumerate(spellings):
        # two other valid units of the tag's classes to stand in front of this one (rotating through the list)
        others = [after[(k + 1) % len(after)], after[(k + len(after) // 2) % len(after)]] if len(after) > 1 else []
        others = [o for o in dict.fromkeys(others) if o != spelling]
        for lit in literals:
            canon = (spelling + " " + lit) if before else (lit + " " + spelling)
            st, _, _, readings = orc.judge(canon, classes)
            if st != "accepted":
                continue                    # not a spelling the property accepts: nothing to build on
            shapes = [("canonical", canon)] + extra_text_shapes(lit, spelling, before, parts, others)
            for shape, ext in shapes:
                if only is not None and ext != only:
                    continue
                status = orc.judge(ext, classes)[0]
                if (shape == "canonical") != (status == "accepted") or status == "undecided":
                    continue                # e.g. '<unit> <unit>' that happens to be a declared unit name with a blank
                text = tag + "/" + ext
                inp = {"schema": version, "tag": tag, "classes": classes, "unit": spelling, "before": before,
                       "literal": lit, "text": text, "shape": shape, "extension": ext, "part": "extra_text"}
                if count:
                    w.case(key=(version, text), nontrivial=True,
                           sample={"schema": version, "text": text, "shape": shape})
                    _extra_stats[shape] = _extra_stats.get(shape, 0) + 1
                n += 1
                obs = observe(version, text)
                if not w.check("validate_exc" not in obs, "C11.total.validate_no_exception", inp, obs.get("validate_exc"),
                               "no exception"):
                    continue
                got = obs["issues"]
                errs = [c for c, sev in got if sev == "E"]
                if shape == "canonical":
                    names = all(not r[0]["symbol"] for r in readings)
                    clause = "C11.accept.prefix_unit_before_number" if before else \
                        "C11.accept.name_any_case_singular_plural" if names else "C11.accept.symbol_exact_with_prefix"
                    w.check(got == [], clause, inp, got, [])
                elif shape == "blanks":
                    w.check(bool(errs), L_BLANKS, inp, got, "an error-severity issue")
                else:
                    w.check(any(c in EXTRA_OK_CODES for c in errs), L_EXTRA, inp, got,
                            "UNITS_INVALID (or VALUE_INVALID) with error severity")
                    w.check("value_exc" not in obs and obs["value"] is None, "C11.conv.unrecognised_unit_is_none", inp,
                            obs.get("value_exc", obs["value"]), None)
    return n


# ----------------------------------------------------------------------------------------------------------------
# enumeration
# ----------------------------------------------------------------------------------------------------------------
def _case_variants(text, declared):
    out = [text.lower(), text[:1].upper() + text[1:].lower(), text.upper()]
    if declared not in out:
        out.append(declared)
    seen, res = set(), []
    for t in out:
        if t not in seen:
            seen.add(t)
            res.append(t)
    return res


def accepted_spellings(orc, classes, mods_filter=None):
    """-> list of (unit_text, before)"""
    out = []
    for c in classes:
        for u in orc.x["classes"][c]["units"]:
            if u["deprecated"]:
                continue
            mods = [None] + [m for m in orc.permitted_mods(u) if mods_filter is None or m["name"] in mods_filter]
            for m in mods:
                p = m["name"] if m else ""
                if u["symbol"]:
                    out.append((p + u["name"], u["before"]))
                else:
                    low = u["name"].lower()
                    for t in _case_variants(p + low, p + u["name"]):
                        out.append((t, u["before"]))
                    if low in PLURALS:
                        for t in _case_variants(p + PLURALS[low], p + PLURALS[low]):
                            out.append((t, u["before"]))
    seen, res = set(), []
    for t in out:
        if t not in seen:
            seen.add(t)
            res.append(t)
    return res


def rejected_candidates(orc, classes, mods_filter=None):
    """unit texts that the property does NOT accept for these classes (the oracle filters them again in judge)"""
    cand = []
    x = orc.x
    name_mods = [m for m in x["mods"] if "name" in m["kinds"] and (mods_filter is None or m["name"] in mods_filter)]
    sym_mods = [m for m in x["mods"] if "symbol" in m["kinds"] and (mods_filter is None or m["name"] in mods_filter)]
    for c in classes:
        for u in x["classes"][c]["units"]:
            n = u["name"]
            if " " in n:
                continue
            if u["symbol"]:
                perm = [None] + [m for m in orc.permitted_mods(u) if mods_filter is None or m["name"] in mods_filter]
                for m in perm:                                   # symbol in another letter case
                    t = (m["name"] if m else "") + n
                    cand += [t.lower(), t.upper(), t.swapcase()]
                cand.append(n + "s")                             # plural of a symbol
                cand += [m["name"] + n for m in name_mods[:3]]  # name prefix before a symbol
                if not u["si"]:
                    cand += [m["name"] + n for m in sym_mods]    # prefix on a unit that permits none
            else:
                cand += [m["name"] + n.lower() for m in sym_mods[:6]]   # symbol prefix before a name
                if not u["si"]:
                    cand += [m["name"] + n.lower() for m in name_mods]  # prefix on a unit that permits none
                cand += [n.lower() + "x", "x" + n.lower()]
    for c, cd in x["classes"].items():                           # units of classes the tag does not take
        if c not in classes:
            for u in cd["units"]:
                if " " not in u["name"]:
                    cand.append(u["name"])
    cand += ["foo", "units", "milli", "k", "#"]
    seen, res = set(), []
    for t in cand:
        if t and t not in seen:
            seen.add(t)
            res.append(t)
    return res


def run_schema(w, version, full, only_tag=None):
    orc = oracle(version)
    tags = [t for t in orc.x["tags"] if not t["deprecated"] and (only_tag is None or t["tag"] == only_tag)]
    if not full:
        # one tag per distinct set of unit classes, 4 prefixes of each kind, 3 literals
        seen, keep = set(), []
        for t in tags:
            k = tuple(t["classes"])
            if k not in seen:
                seen.add(k)
                keep.append(t)
        tags = keep
        names = [m["name"] for m in orc.x["mods"]]
        mods_filter = set(w.rng.sample(sorted(names), 8)) | {"milli", "m", "M", "u"}
        lits = ["3", "-1.5", "1e3"]
    else:
        mods_filter = None
        lits = LITERALS
    n = 0
    for t in tags:
        before_n = w.evaluations
        for unit_text, before in accepted_spellings(orc, t["classes"], mods_filter):
            eval_group(w, version, t["tag"], t["classes"], unit_text, before, lits)
            if before is False and unit_text in ("s", "m", "Hz", "g", "second", "dB"):   # unit standing before the number
                eval_group(w, version, t["tag"], t["classes"], unit_text, True, lits[:1])
            if before is True:                                                             # prefix-type unit after the number
                eval_group(w, version, t["tag"], t["classes"], unit_text, False, lits[:1])
        for unit_text in rejected_candidates(orc, t["classes"], mods_filter):
            eval_group(w, version, t["tag"], t["classes"], unit_text, False, lits[:2])
        eval_group(w, version, t["tag"], t["classes"], None, False, lits)
        eval_extra_text(w, version, t["tag"], t["classes"], lits[:2] if full else lits[:1], mods_filter)
        n += w.evaluations - before_n
    return n, len(tags)


def run(w: Workload):
    w.rule = ("for each schema: every non-deprecated value-taking tag with unit classes (read from the XML) x every unit of its "
              "classes x every permitted SI prefix (or none) x {lower, Capitalised, UPPER, as-declared} x {singular, plural} for "
              "names / exact text for symbols x numeric literals {3,-1.5,.5,1e3,+2,0}; plus rejected unit texts (symbol in another "
              "case, prefix of the wrong kind, prefix on a non-SI unit, plural of a symbol, units of other classes, garbage, unit on "
              "the wrong side of the number) and the bare number; extra text around a VALID unit: for every tag x every unit "
              "(declared spelling and with prefix milli/kilo resp. m/k) x {<n> <junk> <unit> for 5 junk words, <n> <unit> <unit>, "
              "<n> <other valid unit> <unit>, <n> <prefix> <unit>, two and three blanks, and the canonical <n> <unit>}; "
              "a case = one annotation text 'Tag/<number> <unit>', distinct by (schema, text)")
    try:
        full_versions = ["8.3.0"] if w.quick else STANDARD + LIBRARIES
        sampled = [v for v in STANDARD + LIBRARIES if v not in full_versions]
        for v in full_versions:
            n, nt = run_schema(w, v, True)
            w.part("schema %s: all unit tags" % v, cases=n,
                   bound="%d tags x all units x all permitted prefixes x case/plural spellings x 6 literals" % nt,
                   exhaustive=True)
        for v in sampled:
            n, nt = run_schema(w, v, False)
            w.part("schema %s: sample" % v, cases=n,
                   bound="one tag per distinct unit-class set (%d), all units, 12 of 40 prefixes (seeded), 3 literals" % nt,
                   exhaustive=False)
        for v in SYNTHETIC:
            n, nt = run_schema(w, v, True, only_tag="Weight")
            w.part("schema %s" % v, cases=n,
                   bound="8.3.0 with Weight/# given " + ("currencyUnits (prefix-type unit '$')" if "currency" in v else
                                                          "two unit classes (weightUnits, timeUnits)"),
                   exhaustive=True)
    finally:
        _cleanup()
    w.exhaustive = not w.quick
    w.part("extra text before a valid unit (included in the schema parts above)", cases=sum(_extra_stats.values()),
           bound="per shape: %s; junk words %s; expected: an error with code in %s (two/three blanks: any error), the "
                 "canonical form accepted" % (dict(_extra_stats), JUNK, list(EXTRA_OK_CODES)), exhaustive=False)
    w.part("totals by oracle verdict", cases=w.evaluations, bound="accepted / invalid / bare-number cases: %s" % dict(_stats),
           exhaustive=False)
    w.assumptions += [
        "ElementTree reads the schema XML faithfully; the (tag -> unit class), unit and prefix attributes are taken from the XML only",
        "conversionFactor text is a Python float literal with '^' allowed for 'e'; a prefix without factor counts as 1",
        "English plurals of unit names come from the hand-written table PLURALS; names outside it (degree-Celsius, uV, Volt) "
        "are tested in the singular only and their '+s/+es' forms are treated as undecided",
        "a unit text with two readings in one class (e.g. 'uV' = unit uV or micro+V in electricPotentialUnits) may convert by either",
        "issue codes %s concern tag placement/deprecation, not units, and are ignored in the verdict" % sorted(STRUCTURAL),
        "no bundled schema gives any tag currencyUnits or two unit classes: prefix-type units and multi-class tags are "
        "exercised on two synthetic copies of 8.3.0 (Weight/# re-pointed), loaded with load_schema from a temp file",
    ]
    w.not_covered += [
        "non-numeric values in front of a unit (value classes other than numericClass), placeholders '#'",
        "plural spellings of unit names that are not in the PLURALS table",
        "units reached through Def-expand/definition placeholders and through TabularInput (C07 covers the file path)",
        "deprecated tags and deprecated units (skipped)",
    ]


def replay(w: Workload, case: dict):
    inp = case["input"]
    if inp.get("part") == "extra_text":
        try:
            eval_extra_text(w, inp["schema"], inp["tag"], inp["classes"], [inp["literal"]], count=False,
                            only=inp["extension"])
            w.failures = [f for f in w.failures if f["clause"] == case["clause"]]
        finally:
            _cleanup()
        return
    try:
        lits = inp.get("literals") or LITERALS
        if inp.get("literal") and inp["literal"] not in lits:
            lits = [inp["literal"]] + lits
        eval_group(w, inp["schema"], inp["tag"], inp["classes"], inp["unit"], inp["before"], lits, count=False)
        w.failures = [f for f in w.failures if f["clause"] == case["clause"]]
    finally:
        _cleanup()


if __name__ == "__main__":
    main(run, "C11", replay)
