"""C11 — Units are accepted and converted exactly as the schema defines them (tier T3, bounded runtime workload).

Oracle side (this file): the unit classes, units, SI prefixes, their attributes and conversion-factor texts and the
(tag -> unit classes) relation are read with ElementTree straight from the bundled schema XML (never through
hed.schema).  From the PROPERTY TEXT the set of accepted spellings is built:
  * unit *name*  : singular or plural, any letter case, optionally preceded by an SI *name* prefix when the unit is an SI unit;
  * unit *symbol*: exactly as declared, optionally preceded by an SI *symbol* prefix when the unit is an SI unit;
  * prefix-type units stand before the number.
English plurals come from a hand-written table (PLURALS); unit names without an entry get no plural test.
Expected value in default units = float(number) * float(unit factor text) * float(prefix factor text).

Extra text around a valid unit ('3 4 m', '3 m m', '3 k Hz', '3 feet inches', two blanks) is "any other unit text": an error
is expected (C11.reject.extra_text_before_unit / C11.reject.extra_blank_before_unit), silence is a failure.

Numerals (part 'numerals'): what counts as "a number".  sign x mantissa x exponent shapes (SIGNS, MANTISSAS, EXPONENTS) are
crossed with unit kinds (valid, prefixed, plural, invalid, none) over every unit tag the LOADED schema reports (tags with a
unit class but no value class included).  A numeral is valid iff float() accepts it and it matches the decimal-numeral
grammar of the specification.  valid numeral + valid unit -> no issue, split = [numeral, unit], value = float(numeral) x
factors; invalid unit -> UNITS_INVALID whatever the numeral; no unit -> the UNITS_MISSING warning; ill-formed numeral on a
numericClass tag -> VALUE_INVALID, and the conversion is None (never an exception) when float() rejects the text.  A
mismatch on a valid numeral is blamed on the numeral (C11.numeral.valid_shape_accepted) only if the same tag and unit pass
with the numeral '1'; otherwise on the unit spelling clause.

Real side: HedValidator.validate(HedString(...)), HedTag.get_stripped_unit_value, HedTag.value_as_default_unit.
"""
import math
import multiprocessing
import os
import re
import shutil
import tempfile
import xml.etree.ElementTree as ET

from rt.common import Workload, main, schema, codes  # noqa: F401

STANDARD = ["8.0.0", "8.1.0", "8.2.0", "8.3.0"]
LIBRARIES = ["score_1.0.0", "score_1.1.0", "score_2.0.0", "testlib_1.0.2", "testlib_2.0.0", "testlib_2.1.0",
             "testlib_3.0.0"]
SYNTHETIC = ["synthetic:currency", "synthetic:multi"]
LITERALS = ["3", "-1.5", ".5", "1e3", "+2", "0"]

# hand-written English plurals of the unit names occurring in the bundled schemas (lower case)
PLURALS = {"second": "seconds", "day": "days", "month": "months", "minute": "minutes", "hour": "hours", "year": "years",
           "radian": "radians", "degree": "degrees", "meter": "meters", "metre": "metres", "foot": "feet",
           "inch": "inches", "mile": "miles", "gram": "grams", "pound": "pounds", "lb": "lbs", "byte": "bytes",
           "hertz": "hertz", "volt": "volts", "tesla": "teslas", "candela": "candelas", "dollar": "dollars",
           "euro": "euros", "point": "points"}

# issue codes that say nothing about the value/unit of a tag (placement rules of Duration/Delay, deprecation notices)
STRUCTURAL = {"TEMPORAL_TAG_ERROR", "TAG_GROUP_ERROR", "ELEMENT_DEPRECATED", "TAG_REQUIRES_CHILD"}

_tmpdir = None
_xml_cache = {}
_real_cache = {}


# ----------------------------------------------------------------------------------------------------------------
# independent reading of the schema XML
# ----------------------------------------------------------------------------------------------------------------
def _schema_data_dir():
    import hed.schema
    return os.path.join(os.path.dirname(hed.schema.__file__), "schema_data")


def _xml_path(version):
    if version.startswith("synthetic:"):
        return _synthetic_path(version)
    name = "HED" + version + ".xml" if version[0].isdigit() else "HED_" + version + ".xml"
    return os.path.join(_schema_data_dir(), name)


def _synthetic_path(version):
    """8.3.0 with the unit class of Weight/# replaced: by currencyUnits (prefix-type unit '$'), or by two classes"""
    global _tmpdir
    if _tmpdir is None:
        _tmpdir = tempfile.mkdtemp(prefix="c11_")
    path = os.path.join(_tmpdir, "HED_" + version.split(":")[1] + ".xml")
    if not os.path.exists(path):
        text = open(_xml_path("8.3.0"), encoding="utf-8").read()
        old = "<value>weightUnits</value>"
        assert text.count(old) == 1, "expected exactly one tag with weightUnits in 8.3.0"
        if version == "synthetic:currency":
            new = "<value>currencyUnits</value>"
        else:
            new = "<value>weightUnits</value>\n<value>timeUnits</value>"
        with open(path, "w", encoding="utf-8") as f:
            f.write(text.replace(old, new))
    return path


def _cleanup():
    global _tmpdir
    if _tmpdir and os.path.isdir(_tmpdir):
        shutil.rmtree(_tmpdir, ignore_errors=True)
    _tmpdir = None


def _attrs(el):
    d = {}
    for a in el.findall("attribute"):
        n = (a.findtext("name") or "").strip()
        vals = [v.text for v in a.findall("value")]
        d[n] = vals if vals else True
    return d


def _one(attrs, key):
    v = attrs.get(key)
    if v is None or v is True:
        return None
    return v[0]


def _factor(text):
    """conversionFactor text -> float; the schema notation allows '^' for the exponent mark"""
    if text is None:
        return None
    return float(text.replace("^", "e"))


def read_xml(version):
    """-> dict(classes, mods, tags) read from the XML file alone"""
    if version in _xml_cache:
        return _xml_cache[version]
    root = ET.parse(_xml_path(version)).getroot()
    classes = {}
    for uc in root.find("unitClassDefinitions").findall("unitClassDefinition"):
        cname = uc.findtext("name").strip()
        cattrs = _attrs(uc)
        units = []
        for u in uc.findall("unit"):
            a = _attrs(u)
            units.append({"name": u.findtext("name"), "symbol": "unitSymbol" in a, "si": "SIUnit" in a,
                          "before": "unitPrefix" in a, "factor_text": _one(a, "conversionFactor"),
                          "deprecated": "deprecatedFrom" in a, "cls": cname})
        classes[cname] = {"default": _one(cattrs, "defaultUnits"), "units": units}
    mods = []
    for m in root.find("unitModifierDefinitions").findall("unitModifierDefinition"):
        a = _attrs(m)
        kinds = []
        if "SIUnitModifier" in a:
            kinds.append("name")
        if "SIUnitSymbolModifier" in a:
            kinds.append("symbol")
        mods.append({"name": m.findtext("name"), "kinds": kinds, "factor_text": _one(a, "conversionFactor")})
    tags = []

    def walk(node, parent_name, parent_deprecated):
        name = node.findtext("name")
        a = _attrs(node)
        dep = parent_deprecated or "deprecatedFrom" in a
        if name == "#" and "unitClass" in a and a["unitClass"] is not True:
            ucs = []
            for v in a["unitClass"]:
                ucs += [x.strip() for x in v.split(",") if x.strip()]
            vcs = []
            if a.get("valueClass") not in (None, True):
                for v in a["valueClass"]:
                    vcs += [x.strip() for x in v.split(",") if x.strip()]
            tags.append({"tag": parent_name, "classes": ucs, "value_classes": vcs, "deprecated": dep})
        for child in node.findall("node"):
            walk(child, name, dep)

    for top in root.find("schema").findall("node"):
        walk(top, None, False)
    out = {"classes": classes, "mods": mods, "tags": tags}
    _xml_cache[version] = out
    return out


# ----------------------------------------------------------------------------------------------------------------
# oracle: accepted spellings from the property text
# ----------------------------------------------------------------------------------------------------------------
class Oracle:
    def __init__(self, version):
        self.version = version
        self.x = read_xml(version)
        self.tables = {c: self._table(c) for c in self.x["classes"]}

    def permitted_mods(self, unit):
        if not unit["si"]:
            return []
        kind = "symbol" if unit["symbol"] else "name"
        return [m for m in self.x["mods"] if kind in m["kinds"]]

    def _table(self, cname):
        exact, folded, undecided = {}, {}, set()
        for u in self.x["classes"][cname]["units"]:
            mods = [None] + self.permitted_mods(u)
            if u["symbol"]:
                for m in mods:
                    exact.setdefault((m["name"] if m else "") + u["name"], []).append((u, m))
            else:
                low = u["name"].lower()
                forms = [low]
                if low in PLURALS:
                    forms.append(PLURALS[low])
                for m in mods:
                    p = m["name"].lower() if m else ""
                    for f in forms:
                        folded.setdefault(p + f, []).append((u, m))
                    if low not in PLURALS:      # plural of this name is not decided by the oracle
                        undecided.update({p + low + "s", p + low + "es"})
        return exact, folded, undecided

    def interpretations(self, unit_text, classnames):
        """all (unit, prefix) readings the property text gives to unit_text; 'undecided' if it may be an unknown plural"""
        out = []
        und = False
        for c in classnames:
            exact, folded, undecided = self.tables[c]
            out += exact.get(unit_text, [])
            out += folded.get(unit_text.lower(), [])
            und = und or unit_text.lower() in undecided
        return out, und

    def factor(self, unit, mod):
        f = _factor(unit["factor_text"])
        if f is None:
            return None
        mf = _factor(mod["factor_text"]) if mod else 1.0
        if mf is None:
            mf = 1.0
        return f * mf

    def judge(self, extension, classnames):
        """-> (status, number, unit_text, readings)   status in accepted|invalid|bare|undecided"""
        if " " not in extension:
            return "bare", extension, None, []
        first, _, rest = extension.partition(" ")
        if _is_number(first):
            readings, und = self.interpretations(rest, classnames)
            readings = [r for r in readings if not r[0]["before"]]
            if readings:
                return "accepted", first, rest, readings
            return ("undecided" if und else "invalid"), first, rest, []
        head, _, last = extension.rpartition(" ")
        if _is_number(last):
            readings, und = self.interpretations(head, classnames)
            readings = [r for r in readings if r[0]["before"]]
            if readings:
                return "accepted", last, head, readings
            return "invalid", last, head, []
        return "invalid", None, None, []


def _is_number(text):
    try:
        float(text)
    except ValueError:
        return False
    return text.strip() == text and not any(ch.isalpha() and ch not in "eE" for ch in text)


_oracles = {}
_stats = {}


def oracle(version):
    if version not in _oracles:
        _oracles[version] = Oracle(version)
    return _oracles[version]


# ----------------------------------------------------------------------------------------------------------------
# real side
# ----------------------------------------------------------------------------------------------------------------
def real(version):
    if version not in _real_cache:
        from hed.validator import HedValidator
        if version.startswith("synthetic:"):
            from hed.schema import load_schema
            s = load_schema(_synthetic_path(version))
        else:
            s = schema(version)
        _real_cache[version] = (s, HedValidator(s))
    return _real_cache[version]


def observe(version, text):
    """run the real code on one annotation 'Tag/<extension>'"""
    from hed import HedString, HedTag
    from hed.errors.error_types import ErrorSeverity
    s, v = real(version)
    obs = {}
    try:
        issues = v.validate(HedString(text, s), allow_placeholders=False)
        obs["issues"] = sorted((i["code"], "E" if i["severity"] == ErrorSeverity.ERROR else "W") for i in issues
                               if i["code"] not in STRUCTURAL)
    except Exception as e:  # noqa
        obs["validate_exc"] = repr(e)[:200]
        obs["issues"] = None
    try:
        tag = HedTag(text, s)
        obs["split"] = list(tag.get_stripped_unit_value(tag.extension))
    except Exception as e:  # noqa
        obs["split"] = "EXC " + repr(e)[:200]
    try:
        obs["value"] = HedTag(text, s).value_as_default_unit()
    except Exception as e:  # noqa
        obs["value"] = None
        obs["value_exc"] = type(e).__name__ + ": " + str(e)[:160]
    return obs


def _close(a, b):
    return isinstance(a, float) and math.isclose(a, b, rel_tol=1e-12, abs_tol=0.0) or (a == b)


# ----------------------------------------------------------------------------------------------------------------
# one group = (schema, tag, extension pattern) x literals ; everything the property says is checked here
# ----------------------------------------------------------------------------------------------------------------
def eval_group(w, version, tag, classes, unit_text, before, literals, count=True):
    """unit_text None = bare number; before=True puts the unit text before the number"""
    orc = oracle(version)
    values = []
    for lit in literals:
        if unit_text is None:
            ext = lit
        elif before:
            ext = unit_text + " " + lit
        else:
            ext = lit + " " + unit_text
        text = tag + "/" + ext
        status, number, utext, readings = orc.judge(ext, classes)
        if status == "undecided":
            continue
        inp = {"schema": version, "tag": tag, "classes": classes, "unit": unit_text, "before": before,
               "literal": lit, "text": text}
        if count:
            w.case(key=(version, text), nontrivial=True,
                   sample={"schema": version, "text": text, "oracle": status})
            _stats[status] = _stats.get(status, 0) + 1
        obs = observe(version, text)
        if not w.check("validate_exc" not in obs, "C11.total.validate_no_exception", inp, obs.get("validate_exc"),
                       "no exception"):
            continue
        got = obs["issues"]
        err_codes = [c for c, sev in got if sev == "E"]
        if status == "accepted":
            names = all(not r[0]["symbol"] for r in readings)
            blank = " " in utext
            if before or any(r[0]["before"] for r in readings):
                clause = "C11.accept.prefix_unit_before_number"
            elif blank:
                clause = "C11.accept.unit_name_with_blank"
            elif names:
                clause = "C11.accept.name_any_case_singular_plural"
            else:
                clause = "C11.accept.symbol_exact_with_prefix"
            ok = w.check(got == [], clause, inp, got, [])
            if ok:
                w.check(obs["split"] == [number, utext], "C11.split.value_and_unit", inp, obs["split"], [number, utext])
            # conversion: only claimed when accepted (by the property AND by the validator) and a factor is declared
            factors = sorted({orc.factor(*r) for r in readings if orc.factor(*r) is not None})
            declared = [r for r in readings if r[0]["factor_text"] is not None]
            if ok and declared and len(declared) == len(readings):
                exp = [float(number) * f for f in factors]
                if "value_exc" in obs:
                    case_variant = names and utext != utext.lower()
                    if case_variant and obs["value_exc"].startswith("TypeError"):
                        w.fail("C11.conv.D5_name_not_lowercase_raises", inp, obs["value_exc"], exp)
                    else:
                        w.fail("C11.conv.defined_no_exception", inp, obs["value_exc"], exp)
                else:
                    val = obs["value"]
                    good = val is not None and any(_close(val, e) for e in exp)
                    w.check(good, "C11.conv.equals_number_times_factors", inp, val, exp)
                    if good:
                        values.append((lit, val))
            elif ok:
                w.check("value_exc" not in obs, "C11.conv.no_factor_no_exception", inp, obs.get("value_exc"), None)
        elif status == "invalid":
            w.check("UNITS_INVALID" in err_codes, "C11.reject.units_invalid", inp, got, "UNITS_INVALID error")
            w.check("value_exc" not in obs and obs["value"] is None, "C11.conv.unrecognised_unit_is_none", inp,
                    obs.get("value_exc", obs["value"]), None)
            if isinstance(obs["split"], list):
                w.check(obs["split"][1] is None, "C11.split.value_and_unit", inp, obs["split"], "[<extension>, None]")
        else:  # bare number
            w.check(got == [("UNITS_MISSING", "W")], "C11.bare.only_units_missing_warning", inp, got,
                    [["UNITS_MISSING", "W"]])
            dflt = None
            if len(classes) == 1:
                c = orc.x["classes"][classes[0]]
                dflt = next((u for u in c["units"] if u["name"] == c["default"]), None)
            if "value_exc" in obs:
                if dflt is not None and not dflt["symbol"] and dflt["name"] != dflt["name"].lower() \
                        and obs["value_exc"].startswith("TypeError"):
                    w.fail("C11.conv.D5_name_not_lowercase_raises", inp, obs["value_exc"], "no exception")
                elif dflt is None:
                    w.fail("C11.conv.bare_number_without_default_unit_no_exception", inp, obs["value_exc"], None)
                else:
                    w.fail("C11.conv.defined_no_exception", inp, obs["value_exc"], "no exception")
            elif dflt is not None and dflt["factor_text"] is not None:
                exp = float(lit) * _factor(dflt["factor_text"])
                good = obs["value"] is not None and _close(obs["value"], exp)
                w.check(good, "C11.conv.equals_number_times_factors", inp, obs["value"], exp)
                if good:
                    values.append((lit, obs["value"]))
    # linear in the number: value(a) * b == value(b) * a for all pairs; value('0') == 0
    for i in range(len(values)):
        for j in range(i + 1, len(values)):
            (la, va), (lb, vb) = values[i], values[j]
            lhs, rhs = va * float(lb), vb * float(la)
            w.check(math.isclose(lhs, rhs, rel_tol=1e-9, abs_tol=0.0) or lhs == rhs, "C11.conv.linear_in_number",
                    {"schema": version, "tag": tag, "classes": classes, "unit": unit_text, "before": before,
                     "literals": [la, lb]}, [va, vb], "value(a)*b == value(b)*a")


# ----------------------------------------------------------------------------------------------------------------
# extra text between the number and a VALID trailing unit: "any other unit text is reported as an invalid unit"
# ----------------------------------------------------------------------------------------------------------------
JUNK = ["4", "x", "of", "1e3", "-2.5"]
EXTRA_OK_CODES = ("UNITS_INVALID", "VALUE_INVALID")
L_EXTRA = "C11.reject.extra_text_before_unit"
L_BLANKS = "C11.reject.extra_blank_before_unit"
_extra_stats = {}


def valid_unit_spellings(orc, classes, mods_filter=None):
    """-> list of (text, before, (prefix text or None, bare unit text)) - one declared spelling per unit plus up to two
    prefixed spellings for SI units; units whose name contains a blank are left out"""
    out = []
    for c in classes:
        for u in orc.x["classes"][c]["units"]:
            if u["deprecated"] or " " in u["name"]:
                continue
            bare = u["name"]
            out.append((bare, u["before"], (None, bare)))
            want = ("m", "k") if u["symbol"] else ("milli", "kilo")
            for m in orc.permitted_mods(u):
                if m["name"] in want:
                    out.append((m["name"] + bare, u["before"], (m["name"], bare)))
    seen, res = set(), []
    for t in out:
        if t[0] not in seen:
            seen.add(t[0])
            res.append(t)
    return res


def extra_text_shapes(number, spelling, before, parts, others):
    """-> list of (shape, extension).  All contain a number and END (or, for prefix-type units, START) with a valid unit,
    but carry more text than '<number> <unit>'"""
    out = []
    if before:
        out += [("junk_between", "%s %s %s" % (spelling, j, number)) for j in JUNK[:3]]
        out.append(("two_units", "%s %s %s" % (spelling, spelling, number)))
        out.append(("two_numbers", "%s %s %s" % (spelling, number, JUNK[0])))
        out.append(("blanks", "%s  %s" % (spelling, number)))
        return out
    out += [("junk_between", "%s %s %s" % (number, j, spelling)) for j in JUNK]
    out.append(("two_units", "%s %s %s" % (number, spelling, spelling)))
    for o in others:
        out.append(("two_units", "%s %s %s" % (number, o, spelling)))
    prefix, bare = parts
    if prefix is not None:
        out.append(("blank_in_prefixed_unit", "%s %s %s" % (number, prefix, bare)))
    out.append(("blanks", "%s  %s" % (number, spelling)))
    out.append(("blanks", "%s   %s" % (number, spelling)))
    return out


def eval_extra_text(w, version, tag, classes, literals, mods_filter=None, count=True, only=None):
    """only: restrict to one (spelling, extension) pair (replay)"""
    orc = oracle(version)
    spellings = valid_unit_spellings(orc, classes, mods_filter)
    after = [sp for sp, before, _ in spellings if not before]
    n = 0
    for k, (spelling, before, parts) in enumerate(spellings):
        # two other valid units of the tag's classes to stand in front of this one (rotating through the list)
        others = [after[(k + 1) % len(after)], after[(k + len(after) // 2) % len(after)]] if len(after) > 1 else []
        others = [o for o in dict.fromkeys(others) if o != spelling]
        for lit in literals:
            canon = (spelling + " " + lit) if before else (lit + " " + spelling)
            st, _, _, readings = orc.judge(canon, classes)
            if st != "accepted":
                continue                    # not a spelling the property accepts: nothing to build on
            shapes = [("canonical", canon)] + extra_text_shapes(lit, spelling, before, parts, others)
            for shape, ext in shapes:
                if only is not None and ext != only:
                    continue
                status = orc.judge(ext, classes)[0]
                if (shape == "canonical") != (status == "accepted") or status == "undecided":
                    continue                # e.g. '<unit> <unit>' that happens to be a declared unit name with a blank
                text = tag + "/" + ext
                inp = {"schema": version, "tag": tag, "classes": classes, "unit": spelling, "before": before,
                       "literal": lit, "text": text, "shape": shape, "extension": ext, "part": "extra_text"}
                if count:
                    w.case(key=(version, text), nontrivial=True,
                           sample={"schema": version, "text": text, "shape": shape})
                    _extra_stats[shape] = _extra_stats.get(shape, 0) + 1
                n += 1
                obs = observe(version, text)
                if not w.check("validate_exc" not in obs, "C11.total.validate_no_exception", inp, obs.get("validate_exc"),
                               "no exception"):
                    continue
                got = obs["issues"]
                errs = [c for c, sev in got if sev == "E"]
                if shape == "canonical":
                    names = all(not r[0]["symbol"] for r in readings)
                    clause = "C11.accept.prefix_unit_before_number" if before else \
                        "C11.accept.name_any_case_singular_plural" if names else "C11.accept.symbol_exact_with_prefix"
                    w.check(got == [], clause, inp, got, [])
                elif shape == "blanks":
                    w.check(bool(errs), L_BLANKS, inp, got, "an error-severity issue")
                else:
                    w.check(any(c in EXTRA_OK_CODES for c in errs), L_EXTRA, inp, got,
                            "UNITS_INVALID (or VALUE_INVALID) with error severity")
                    w.check("value_exc" not in obs and obs["value"] is None, "C11.conv.unrecognised_unit_is_none", inp,
                            obs.get("value_exc", obs["value"]), None)
    return n


# ----------------------------------------------------------------------------------------------------------------
# numeral shapes: what counts as "a number" in front of (or without) a unit
# ----------------------------------------------------------------------------------------------------------------
SIGNS = ["", "+", "-"]
MANTISSAS = ["1", "1.", "1.5", ".5", "0", "007"]
EXPONENTS = ["", "e3", "E3", "e+3", "E+3", "e-3", "e+03", "e", "e+"]
UNIT_KINDS = ["valid", "prefixed", "plural", "invalid", "none"]
# the decimal-numeral grammar of the HED specification (numericClass): optional sign, digits with optional fraction (or a
# fraction alone), optional exponent with optional sign - written here from that description, ASCII digits
_NUMERAL = re.compile(r"[+-]?(?:[0-9]+(?:\.[0-9]*)?|\.[0-9]+)(?:[eE][+-]?[0-9]+)?")
L_NUM_OK = "C11.numeral.valid_shape_accepted"
L_NUM_BAD = "C11.numeral.invalid_shape_reported"
L_NUM_NONE = "C11.conv.not_a_number_is_none"
_num_stats = {}
_ref_cache = {}


def all_numerals():
    return [sg + m + e for sg in SIGNS for m in MANTISSAS for e in EXPONENTS]


def float_accepts(text):
    try:
        float(text)
    except ValueError:
        return False
    return True


def numeral_is_valid(text):
    """a numeral is valid iff Python's float() accepts it AND it matches the decimal-numeral grammar"""
    return float_accepts(text) and _NUMERAL.fullmatch(text) is not None


def schema_unit_tags(version):
    """ask the loaded schema (not the XML) which value-taking tags have unit classes:
    -> list of dict(tag, classes, value_classes, deprecated) in schema order"""
    s, _ = real(version)
    out = []
    for name, entry in s.tags.items():
        if not name.endswith("/#") or not entry.unit_classes:
            continue
        out.append({"tag": entry.short_tag_name, "classes": list(entry.unit_classes),
                    "value_classes": list(entry.value_classes), "deprecated": bool(entry.has_attribute("deprecatedFrom"))})
    return out


def numeral_unit_choices(orc, classes, rot):
    """-> {kind: (unit text, stands before the number)}: one unit text per kind for the tag's unit classes, chosen by the
    rotation number from the units / permitted prefixes / plurals the XML declares; a kind the classes cannot supply is
    left out.  'invalid' rotates over: garbage, a valid unit with a letter appended, a unit of a class the tag does not take."""
    units = [u for c in classes for u in orc.x["classes"][c]["units"] if not u["deprecated"] and " " not in u["name"]]
    out = {}
    if units:
        u = units[rot % len(units)]
        out["valid"] = (u["name"], u["before"])
        pref = [(u2, m) for u2 in units for m in orc.permitted_mods(u2)]
        if pref:
            u2, m = pref[(rot * 7) % len(pref)]
            out["prefixed"] = (m["name"] + u2["name"], u2["before"])
        plur = [u2 for u2 in units if not u2["symbol"] and u2["name"].lower() in PLURALS]
        if plur:
            u2 = plur[rot % len(plur)]
            out["plural"] = (PLURALS[u2["name"].lower()], u2["before"])
    foreign = [u["name"] for c, cd in orc.x["classes"].items() if c not in classes for u in cd["units"]
               if " " not in u["name"]]
    cands = ["foo"] + ([units[rot % len(units)]["name"] + "x"] if units else []) + \
        ([foreign[rot % len(foreign)]] if foreign else [])
    cands = [t for t in cands if orc.interpretations(t, classes) == ([], False)]
    if cands:
        out["invalid"] = (cands[rot % len(cands)], False)
    out["none"] = (None, False)
    # the kinds that claim acceptance must be spellings the property accepts (and only one way round)
    for kind in ("valid", "prefixed", "plural"):
        if kind in out:
            readings, und = orc.interpretations(out[kind][0], classes)
            if not readings or und or any(r[0]["before"] != out[kind][1] for r in readings):
                del out[kind]
    return out


def _numeral_text(tag, numeral, unit_text, before):
    if unit_text is None:
        return tag + "/" + numeral
    return tag + "/" + ((unit_text + " " + numeral) if before else (numeral + " " + unit_text))


def eval_numeral(w, version, t, numeral, kind, unit_text, before, count=True):
    """one annotation 'Tag/<numeral> <unit>' (or '<unit> <numeral>' for a prefix-type unit, or the bare numeral)"""
    orc = oracle(version)
    tag, classes, vcs = t["tag"], t["classes"], t["value_classes"]
    text = _numeral_text(tag, numeral, unit_text, before)
    valid = numeral_is_valid(numeral)
    numeric = "numericClass" in vcs
    inp = {"part": "numerals", "schema": version, "tag": tag, "classes": classes, "value_classes": vcs, "kind": kind,
           "unit": unit_text, "before": before, "numeral": numeral, "numeral_valid": valid, "text": text}
    if count:
        w.case(key=("num", version, text), nontrivial=True,
               sample={"schema": version, "text": text, "numeral_valid": valid, "unit_kind": kind})
        k = ("valid" if valid else "invalid") + " numeral/" + kind
        _num_stats[k] = _num_stats.get(k, 0) + 1
    obs = observe(version, text)
    if not w.check("validate_exc" not in obs, "C11.total.validate_no_exception", inp, obs.get("validate_exc"), "no exception"):
        return
    got = obs["issues"]
    errs = [c for c, sev in got if sev == "E"]
    unit_ok = kind in ("valid", "prefixed", "plural")
    readings = orc.interpretations(unit_text, classes)[0] if unit_ok else []

    def reference_ok():
        """does the same tag and unit pass with the plain numeral '1'?  (then a mismatch is about the numeral)"""
        key = (version, tag, unit_text, before)
        if key not in _ref_cache:
            o = observe(version, _numeral_text(tag, "1", unit_text, before))
            _ref_cache[key] = o.get("issues") == ([] if unit_text is not None else [("UNITS_MISSING", "W")])
        return _ref_cache[key]

    # ---- what the validator says
    if unit_ok:
        if valid:
            if got != []:
                if reference_ok():
                    clause = L_NUM_OK
                elif before:
                    clause = "C11.accept.prefix_unit_before_number"
                elif all(not r[0]["symbol"] for r in readings):
                    clause = "C11.accept.name_any_case_singular_plural"
                else:
                    clause = "C11.accept.symbol_exact_with_prefix"
                w.fail(clause, inp, got, [])
            else:
                w.check(obs["split"] == [numeral, unit_text], "C11.split.value_and_unit", inp, obs["split"],
                        [numeral, unit_text])
        elif numeric:
            w.check("VALUE_INVALID" in errs, L_NUM_BAD, inp, got, "VALUE_INVALID error")
    elif kind == "invalid":
        w.check("UNITS_INVALID" in errs, "C11.reject.units_invalid", inp, got, "UNITS_INVALID error")
        if valid:
            w.check("VALUE_INVALID" not in errs, L_NUM_OK, inp, got, "no VALUE_INVALID (the number is well-formed)")
        elif numeric:
            w.check("VALUE_INVALID" in errs, L_NUM_BAD, inp, got, "VALUE_INVALID error")
        w.check("value_exc" not in obs and obs["value"] is None, "C11.conv.unrecognised_unit_is_none", inp,
                obs.get("value_exc", obs["value"]), None)
        return
    else:   # bare numeral
        if valid:
            if got != [("UNITS_MISSING", "W")]:
                clause = L_NUM_OK if (reference_ok() and "VALUE_INVALID" in errs) else "C11.bare.only_units_missing_warning"
                w.fail(clause, inp, got, [["UNITS_MISSING", "W"]])
        else:
            w.check(("UNITS_MISSING", "W") in got, "C11.bare.only_units_missing_warning", inp, got,
                    "the UNITS_MISSING warning (next to the complaint about the number)")
            if numeric:
                w.check("VALUE_INVALID" in errs, L_NUM_BAD, inp, got, "VALUE_INVALID error")
    # ---- what the conversion says
    if not float_accepts(numeral):
        w.check("value_exc" not in obs and obs["value"] is None, L_NUM_NONE, inp, obs.get("value_exc", obs["value"]), None)
        return
    if not valid:
        return
    if unit_ok:
        declared = [r for r in readings if r[0]["factor_text"] is not None]
        if not declared or len(declared) != len(readings):
            w.check("value_exc" not in obs, "C11.conv.no_factor_no_exception", inp, obs.get("value_exc"), None)
            return
        exp = sorted({float(numeral) * orc.factor(*r) for r in readings})
    else:
        dflt = None
        if len(classes) == 1:
            c = orc.x["classes"][classes[0]]
            dflt = next((u for u in c["units"] if u["name"] == c["default"]), None)
        if dflt is None or dflt["factor_text"] is None:
            w.check("value_exc" not in obs, "C11.conv.no_factor_no_exception" if dflt is not None else
                    "C11.conv.bare_number_without_default_unit_no_exception", inp, obs.get("value_exc"), None)
            return
        exp = [float(numeral) * _factor(dflt["factor_text"])]
    if "value_exc" in obs:
        w.fail("C11.conv.defined_no_exception", inp, obs["value_exc"], exp)
    else:
        val = obs["value"]
        w.check(val is not None and any(_close(val, e) for e in exp), "C11.conv.equals_number_times_factors", inp, val, exp)


def run_numerals(w, version, mode, only_tag=None):
    """EVERY unit tag of the schema (asked of the loaded schema) x numerals x all unit kinds.
    mode 'full': all numerals for every tag;
    mode 'tags': all numerals for every tag WITHOUT a value class, for the others one numeral per exponent shape (sign and
                 mantissa rotate with the tag, so that the tags of a schema together see every sign and mantissa);
    mode 'classes': as 'tags', and all numerals also for the first tag of every distinct set of unit classes"""
    orc = oracle(version)
    tags = [t for t in schema_unit_tags(version) if not t["deprecated"] and (only_tag is None or t["tag"] == only_tag)]
    tags = [t for t in tags if all(c in orc.x["classes"] for c in t["classes"])]
    numerals = all_numerals()
    n0 = w.evaluations
    seen_sets = set()
    for ti, t in enumerate(tags):
        no_vc = not t["value_classes"]
        key = tuple(t["classes"])
        first_of_set = key not in seen_sets
        seen_sets.add(key)
        if mode == "full" or no_vc or (mode == "classes" and first_of_set):
            chosen = list(enumerate(numerals))
        else:
            chosen = []
            for ei, e in enumerate(EXPONENTS):
                r = ti * len(EXPONENTS) + ei
                num = SIGNS[r % 3] + MANTISSAS[(r // 3) % 6] + e
                chosen.append((numerals.index(num), num))
        for ni, num in chosen:
            for kind, (unit_text, before) in numeral_unit_choices(orc, t["classes"], ni + ti).items():
                eval_numeral(w, version, t, num, kind, unit_text, before)
    return w.evaluations - n0, len(tags), [t["tag"] for t in tags if not t["value_classes"]], len(seen_sets)


# ----------------------------------------------------------------------------------------------------------------
# enumeration
# ----------------------------------------------------------------------------------------------------------------
def _case_variants(text, declared):
    out = [text.lower(), text[:1].upper() + text[1:].lower(), text.upper()]
    if declared not in out:
        out.append(declared)
    seen, res = set(), []
    for t in out:
        if t not in seen:
            seen.add(t)
            res.append(t)
    return res


def accepted_spellings(orc, classes, mods_filter=None):
    """-> list of (unit_text, before)"""
    out = []
    for c in classes:
        for u in orc.x["classes"][c]["units"]:
            if u["deprecated"]:
                continue
            mods = [None] + [m for m in orc.permitted_mods(u) if mods_filter is None or m["name"] in mods_filter]
            for m in mods:
                p = m["name"] if m else ""
                if u["symbol"]:
                    out.append((p + u["name"], u["before"]))
                else:
                    low = u["name"].lower()
                    for t in _case_variants(p + low, p + u["name"]):
                        out.append((t, u["before"]))
                    if low in PLURALS:
                        for t in _case_variants(p + PLURALS[low], p + PLURALS[low]):
                            out.append((t, u["before"]))
    seen, res = set(), []
    for t in out:
        if t not in seen:
            seen.add(t)
            res.append(t)
    return res


def rejected_candidates(orc, classes, mods_filter=None):
    """unit texts that the property does NOT accept for these classes (the oracle filters them again in judge)"""
    cand = []
    x = orc.x
    name_mods = [m for m in x["mods"] if "name" in m["kinds"] and (mods_filter is None or m["name"] in mods_filter)]
    sym_mods = [m for m in x["mods"] if "symbol" in m["kinds"] and (mods_filter is None or m["name"] in mods_filter)]
    for c in classes:
        for u in x["classes"][c]["units"]:
            n = u["name"]
            if " " in n:
                continue
            if u["symbol"]:
                perm = [None] + [m for m in orc.permitted_mods(u) if mods_filter is None or m["name"] in mods_filter]
                for m in perm:                                   # symbol in another letter case
                    t = (m["name"] if m else "") + n
                    cand += [t.lower(), t.upper(), t.swapcase()]
                cand.append(n + "s")                             # plural of a symbol
                cand += [m["name"] + n for m in name_mods[:3]]  # name prefix before a symbol
                if not u["si"]:
                    cand += [m["name"] + n for m in sym_mods]    # prefix on a unit that permits none
            else:
                cand += [m["name"] + n.lower() for m in sym_mods[:6]]   # symbol prefix before a name
                if not u["si"]:
                    cand += [m["name"] + n.lower() for m in name_mods]  # prefix on a unit that permits none
                cand += [n.lower() + "x", "x" + n.lower()]
    for c, cd in x["classes"].items():                           # units of classes the tag does not take
        if c not in classes:
            for u in cd["units"]:
                if " " not in u["name"]:
                    cand.append(u["name"])
    cand += ["foo", "units", "milli", "k", "#"]
    seen, res = set(), []
    for t in cand:
        if t and t not in seen:
            seen.add(t)
            res.append(t)
    return res


def run_schema(w, version, full, only_tag=None):
    orc = oracle(version)
    tags = [t for t in orc.x["tags"] if not t["deprecated"] and (only_tag is None or t["tag"] == only_tag)]
    if not full:
        # one tag per distinct set of unit classes, 4 prefixes of each kind, 3 literals
        seen, keep = set(), []
        for t in tags:
            k = tuple(t["classes"])
            if k not in seen:
                seen.add(k)
                keep.append(t)
        tags = keep
        names = [m["name"] for m in orc.x["mods"]]
        mods_filter = set(w.rng.sample(sorted(names), 8)) | {"milli", "m", "M", "u"}
        lits = ["3", "-1.5", "1e3"]
    else:
        mods_filter = None
        lits = LITERALS
    n = 0
    for t in tags:
        before_n = w.evaluations
        for unit_text, before in accepted_spellings(orc, t["classes"], mods_filter):
            eval_group(w, version, t["tag"], t["classes"], unit_text, before, lits)
            if before is False and unit_text in ("s", "m", "Hz", "g", "second", "dB"):   # unit standing before the number
                eval_group(w, version, t["tag"], t["classes"], unit_text, True, lits[:1])
            if before is True:                                                             # prefix-type unit after the number
                eval_group(w, version, t["tag"], t["classes"], unit_text, False, lits[:1])
        for unit_text in rejected_candidates(orc, t["classes"], mods_filter):
            eval_group(w, version, t["tag"], t["classes"], unit_text, False, lits[:2])
        eval_group(w, version, t["tag"], t["classes"], None, False, lits)
        eval_extra_text(w, version, t["tag"], t["classes"], lits[:2] if full else lits[:1], mods_filter)
        n += w.evaluations - before_n
    return n, len(tags)


def _numerals_job(args):
    version, mode, only_tag, tier, seed = args
    w2 = Workload("C11", tier, seed)
    _num_stats.clear()
    try:
        n, nt, novc, nsets = run_numerals(w2, version, mode, only_tag)
    finally:
        _cleanup()
    return {"version": version, "mode": mode, "n": n, "nt": nt, "novc": novc, "nsets": nsets, "failures": w2.failures,
            "per_clause": w2._per_clause, "evaluations": w2.evaluations, "distinct": list(w2.distinct),
            "samples": w2.samples[:1], "stats": dict(_num_stats)}


def _merge_job(w, r):
    w.evaluations += r["evaluations"]
    w.distinct.update(tuple(k) if isinstance(k, list) else k for k in r["distinct"])
    if len(w.samples) < 12:
        w.samples.extend(r["samples"])
    for clause, cnt in r["per_clause"].items():
        w._per_clause[clause] = w._per_clause.get(clause, 0) + cnt
    for rec in r["failures"]:
        if sum(1 for f in w.failures if f["clause"] == rec["clause"]) < w.max_failures_per_clause:
            w.failures.append(rec)
    for k, v in r["stats"].items():
        _num_stats[k] = _num_stats.get(k, 0) + v


def run(w: Workload):
    w.rule = ("for each schema: every non-deprecated value-taking tag with unit classes (read from the XML) x every unit of its "
              "classes x every permitted SI prefix (or none) x {lower, Capitalised, UPPER, as-declared} x {singular, plural} for "
              "names / exact text for symbols x numeric literals {3,-1.5,.5,1e3,+2,0}; plus rejected unit texts (symbol in another "
              "case, prefix of the wrong kind, prefix on a non-SI unit, plural of a symbol, units of other classes, garbage, unit on "
              "the wrong side of the number) and the bare number; extra text around a VALID unit: for every tag x every unit "
              "(declared spelling and with prefix milli/kilo resp. m/k) x {<n> <junk> <unit> for 5 junk words, <n> <unit> <unit>, "
              "<n> <other valid unit> <unit>, <n> <prefix> <unit>, two and three blanks, and the canonical <n> <unit>}; "
              "numerals: for every unit tag the loaded schema reports (all bundled schemas; including tags with a unit class but "
              "no value class) x sign {none,+,-} x mantissa {1, 1., 1.5, .5, 0, 007} x exponent {none, e3, E3, e+3, E+3, e-3, "
              "e+03, e, e+} (quick: all 162 for one tag per unit-class set of 8.3.0 and for the tags without a value class, 9 "
              "per other tag) x {valid unit, prefixed unit, plural, invalid unit, no unit}; "
              "a case = one annotation text 'Tag/<number> <unit>', distinct by (schema, text)")
    # numeral shapes (sign x mantissa x exponent) x unit kinds over every unit tag of every bundled schema: one job per
    # schema, run by a small pool next to the parts below (each job has its own Workload; merged at the end)
    jobs = [(v, "full" if not w.quick else ("classes" if v == "8.3.0" else "tags"), None, w.tier, w.seed)
            for v in ["8.3.0"] + [x for x in STANDARD + LIBRARIES if x != "8.3.0"]]
    jobs += [(v, "full", "Weight", w.tier, w.seed) for v in SYNTHETIC]
    pool = multiprocessing.Pool(min(6 if w.quick else 12, max(1, multiprocessing.cpu_count() - 2)))
    numerals_async = pool.map_async(_numerals_job, jobs, chunksize=1)
    try:
        full_versions = ["8.3.0"] if w.quick else STANDARD + LIBRARIES
        sampled = [v for v in STANDARD + LIBRARIES if v not in full_versions]
        for v in full_versions:
            n, nt = run_schema(w, v, True)
            w.part("schema %s: all unit tags" % v, cases=n,
                   bound="%d tags x all units x all permitted prefixes x case/plural spellings x 6 literals" % nt,
                   exhaustive=True)
        for v in sampled:
            n, nt = run_schema(w, v, False)
            w.part("schema %s: sample" % v, cases=n,
                   bound="one tag per distinct unit-class set (%d), all units, 12 of 40 prefixes (seeded), 3 literals" % nt,
                   exhaustive=False)
        for v in SYNTHETIC:
            n, nt = run_schema(w, v, True, only_tag="Weight")
            w.part("schema %s" % v, cases=n,
                   bound="8.3.0 with Weight/# given " + ("currencyUnits (prefix-type unit '$')" if "currency" in v else
                                                          "two unit classes (weightUnits, timeUnits)"),
                   exhaustive=True)
        # numeral shapes: computed meanwhile by the pool started at the top
        for r in numerals_async.get():
            _merge_job(w, r)
            v, mode = r["version"], r["mode"]
            if v in SYNTHETIC:
                w.part("numerals, schema %s" % v, cases=r["n"], bound="Weight/# (see above) x all 162 numerals x unit kinds; "
                       "the prefix-type unit stands before the numeral", exhaustive=True)
                continue
            w.part("numerals, schema %s" % v, cases=r["n"],
                   bound="every non-deprecated unit tag the loaded schema reports (%d; without a value class: %s) x %s x unit "
                         "kinds {valid unit, valid prefixed unit, plural, invalid unit, none} (units rotate through the tag's "
                         "classes)" % (r["nt"], r["novc"] or "none",
                                       "all 162 numerals" if mode == "full" else
                                       "all 162 numerals for the tags without a value class%s, one numeral per exponent shape "
                                       "(9; sign and mantissa rotating) for the other tags"
                                       % (" and for one tag of each of the %d distinct unit-class sets" % r["nsets"]
                                          if mode == "classes" else "")),
                   exhaustive=(mode == "full"))
    finally:
        pool.terminate()
        pool.join()
        _cleanup()
    w.exhaustive = not w.quick
    w.part("numerals: totals (included in the 'numerals' parts above)", cases=sum(_num_stats.values()),
           bound="numerals = sign {none,+,-} x mantissa %s x exponent %s (valid iff float() accepts it and it matches the "
                 "decimal-numeral grammar: 126 valid, 36 not); cases by numeral verdict / unit kind: %s"
                 % (MANTISSAS, EXPONENTS, dict(_num_stats)), exhaustive=False)
    w.part("extra text before a valid unit (included in the schema parts above)", cases=sum(_extra_stats.values()),
           bound="per shape: %s; junk words %s; expected: an error with code in %s (two/three blanks: any error), the "
                 "canonical form accepted" % (dict(_extra_stats), JUNK, list(EXTRA_OK_CODES)), exhaustive=False)
    w.part("totals by oracle verdict", cases=w.evaluations, bound="accepted / invalid / bare-number cases: %s" % dict(_stats),
           exhaustive=False)
    w.assumptions += [
        "ElementTree reads the schema XML faithfully; the (tag -> unit class), unit and prefix attributes are taken from the XML only",
        "conversionFactor text is a Python float literal with '^' allowed for 'e'; a prefix without factor counts as 1",
        "English plurals of unit names come from the hand-written table PLURALS; names outside it (degree-Celsius, uV, Volt) "
        "are tested in the singular only and their '+s/+es' forms are treated as undecided",
        "a unit text with two readings in one class (e.g. 'uV' = unit uV or micro+V in electricPotentialUnits) may convert by either",
        "issue codes %s concern tag placement/deprecation, not units, and are ignored in the verdict" % sorted(STRUCTURAL),
        "no bundled schema gives any tag currencyUnits or two unit classes: prefix-type units and multi-class tags are "
        "exercised on two synthetic copies of 8.3.0 (Weight/# re-pointed), loaded with load_schema from a temp file",
    ]
    w.not_covered += [
        "non-numeric values in front of a unit (value classes other than numericClass), placeholders '#'",
        "an ill-formed numeral on a tag that has a unit class but NO value class (Sampling-rate): the schema puts no rule on "
        "the value, no verdict is required (observed: 'Sampling-rate/1e Hz' is accepted silently); texts float() accepts "
        "but the grammar does not (inf, nan, 1_0, digits outside ASCII such as '\u0661'): only the enumerated shapes are judged "
        "(observed: 'Duration/\u0661 s' is accepted and converts to 1.0 - the word pattern's \\d is not limited to 0-9)",
        "plural spellings of unit names that are not in the PLURALS table",
        "units reached through Def-expand/definition placeholders and through TabularInput (C07 covers the file path)",
        "deprecated tags and deprecated units (skipped)",
    ]


def replay(w: Workload, case: dict):
    inp = case["input"]
    if inp.get("part") == "numerals":
        try:
            t = {"tag": inp["tag"], "classes": inp["classes"], "value_classes": inp["value_classes"]}
            eval_numeral(w, inp["schema"], t, inp["numeral"], inp["kind"], inp["unit"], inp["before"], count=False)
            w.failures = [f for f in w.failures if f["clause"] == case["clause"]]
        finally:
            _cleanup()
        return
    if inp.get("part") == "extra_text":
        try:
            eval_extra_text(w, inp["schema"], inp["tag"], inp["classes"], [inp["literal"]], count=False,
                            only=inp["extension"])
            w.failures = [f for f in w.failures if f["clause"] == case["clause"]]
        finally:
            _cleanup()
        return
    try:
        lits = inp.get("literals") or LITERALS
        if inp.get("literal") and inp["literal"] not in lits:
            lits = [inp["literal"]] + lits
        eval_group(w, inp["schema"], inp["tag"], inp["classes"], inp["unit"], inp["before"], lits, count=False)
        w.failures = [f for f in w.failures if f["clause"] == case["clause"]]
    finally:
        _cleanup()


if __name__ == "__main__":
    main(run, "C11", replay)
