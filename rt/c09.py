"""C09 (tier T3, bounded): definitions expand to their declared content and shrink back losslessly.

Parts
  accept   : generated definition groups (good and bad by construction) -> DefinitionDict.check_for_definitions
             accepts exactly the good ones, rejects with >=1 DEFINITION_INVALID issue and an unchanged map otherwise;
             duplicates (case-insensitive) are reported and ignored.  Placeholder definitions are also generated with the
             '#' tag at depth 1, 2, 3 of the content (rt/c09_depth.py), good and faulty, and the accepted ones are used once.
  ops      : annotations using Def/Name[/v] at depth <= 3  x  every operation sequence of length <= 4 (quick <= 3) over
             {expand, shrink, copy, validate, str} applied to ONE HedString object, compared after every step with a
             small tree model written from the property text.
  copyops  : the same annotations; operations on the original, then HedString.copy(), then operations on EITHER object
             (expand, shrink, validate, copying every nested group / Def tag).  After every step the object operated on has
             the model's text, the other object is untouched (text, node objects, parent pointers, expansion flags, cached
             expansions), the two trees share no node object, and every child's _parent is its container.
  defexpand: hand-written Def-expand groups: every sibling order of the correct content must validate, every mutated
             content must be rejected.
  column   : df_util.expand_defs / shrink_defs (column-wise variants) agree with the object-wise operations.
  namespace: every part above (except duplicate) runs again in the configurations CONFIGS: the schema loaded under a namespace
             prefix (load_schema_version('ts:8.3.0'), load_schema(path, schema_namespace='ts')) and the schema group
             ['8.3.0', 'sc:score_2.0.0'] with definitions/annotations written un-prefixed, with sc:, or mixed.  Every tag carries
             its prefix (ts:Def/A, (ts:Definition/A, (ts:Red, ts:Blue))); the oracle is the same tree model with the prefixes
             added (Def <-> Def-expand keeps the tag's prefix, declared content keeps its own), same clause labels, the
             configuration name is part of the failing input.

The oracle never looks at DefinitionEntry.contents / HedTag._expandable etc.; the definitions are kept a second time
as plain nested Python lists (SPEC_DEFS) from which the expected trees are computed.
"""
import itertools
import multiprocessing
import os
import re
import signal

from rt.common import Workload, main, schema

# --------------------------------------------------------------------------------------------------------------
# tiny tree model: an annotation is a list of nodes, a node is a str (tag) or a list (group)
# --------------------------------------------------------------------------------------------------------------


def parse(text):
    """'a,(b,(c))' -> ['a', ['b', ['c']]]   (tags never contain parentheses or commas here)"""
    stack = [[]]
    cur = ""
    for ch in text:
        if ch in ",()":
            if cur.strip():
                stack[-1].append(_canon_tag(cur.strip()))
            cur = ""
            if ch == "(":
                stack.append([])
            elif ch == ")":
                g = stack.pop()
                stack[-1].append(g)
        else:
            cur += ch
    if cur.strip():
        stack[-1].append(_canon_tag(cur.strip()))
    assert len(stack) == 1, text
    return stack[0]


_NS = re.compile(r"^([A-Za-z]+:)?(.*)$", re.S)


def split_ns(t):
    """'ts:Def/A' -> ('ts:', 'Def/A'); 'Def/A' -> ('', 'Def/A')   (a schema namespace prefix is letters + ':')"""
    m = _NS.match(t)
    return m.group(1) or "", m.group(2)


def _canon_tag(t):
    ns, body = split_ns(t)
    low = body.casefold()
    if low.startswith("def/"):
        body = "Def/" + body[4:]
    elif low.startswith("def-expand/"):
        body = "Def-expand/" + body[11:]
    return ns + body


def is_def_tag(t):
    return split_ns(t)[1].startswith("Def/")


def is_defexpand_tag(t):
    return split_ns(t)[1].startswith("Def-expand/")


def unparse(nodes, top=True):
    s = ",".join(n if isinstance(n, str) else unparse(n, False) for n in nodes)
    return s if top else "(" + s + ")"


def is_defexpand_group(node):
    return isinstance(node, list) and any(isinstance(c, str) and is_defexpand_tag(c) for c in node)


def deep_sorted(node):
    if isinstance(node, str):
        return node
    return sorted((deep_sorted(c) for c in node), key=repr)


def norm(nodes):
    """order is significant everywhere except inside Def-expand groups (content compared up to sibling order)"""
    out = []
    for n in nodes:
        if isinstance(n, str):
            out.append(n)
        elif is_defexpand_group(n):
            out.append(("DX", deep_sorted(n)))
        else:
            out.append(norm(n))
    return out


def has_defexpand(nodes):
    for n in nodes:
        if isinstance(n, list) and (is_defexpand_group(n) or has_defexpand(n)):
            return True
    return False


def subst(node, value):
    if isinstance(node, str):
        return node.replace("#", value)
    return [subst(c, value) for c in node]


def expansion_of(tag, spec_defs):
    """the property's expansion of one tag '[ns:]Def/Name[/v]' (or 'Def-expand/...'), None if it has none.  The
    Def-expand tag is the Def tag under its other name (same namespace prefix); the content is the declared one"""
    ns, body = split_ns(tag)
    rest = body.split("/", 1)[1]
    name, _, value = rest.partition("/")
    d = spec_defs.get(name.casefold())
    if d is None or d["takes"] != bool(value):
        return None
    grp = [ns + "Def-expand/" + rest]
    if d["content"] is not None:
        grp.append(subst(d["content"], value))
    return grp


def model_expand(nodes, spec_defs):
    out = []
    for n in nodes:
        if isinstance(n, str):
            e = expansion_of(n, spec_defs) if is_def_tag(n) else None
            out.append(e if e is not None else n)
        elif is_defexpand_group(n):
            out.append(n)           # already expanded: nothing inside is touched
        else:
            out.append(model_expand(n, spec_defs))
    return out


def model_shrink(nodes):
    out = []
    for n in nodes:
        if isinstance(n, str):
            out.append(n)
        elif is_defexpand_group(n):
            ns, body = split_ns([c for c in n if isinstance(c, str) and is_defexpand_tag(c)][0])
            out.append(ns + "Def/" + body[len("Def-expand/"):])
        else:
            out.append(model_shrink(n))
    return out


def all_orders(node):
    """all sibling orders of a nested list (at every level)"""
    if isinstance(node, str):
        yield node
        return
    child_variants = [list(all_orders(c)) for c in node]
    for combo in itertools.product(*child_variants):
        for perm in itertools.permutations(combo):
            yield list(perm)


# --------------------------------------------------------------------------------------------------------------
# the definition sets (kept twice: as text for the real code, as nested lists for the oracle)
# --------------------------------------------------------------------------------------------------------------
SPEC_DEFS = {
    "a": {"name": "A", "takes": False, "content": ["Red", "Blue"]},                        # plain (declared unsorted)
    "b": {"name": "B", "takes": True, "content": ["Label/#", ["Item", "Green"]]},          # '/#', nested content
    "c": {"name": "C", "takes": True, "content": ["Speed/# mph", "Blue"]},                 # unit-carrying placeholder
    "d": {"name": "D", "takes": True, "content": ["White", ["Distance/#"]]},               # value brings its own unit
    "e": {"name": "E", "takes": False, "content": None},                                   # no content group
    "n": {"name": "N", "takes": False, "content": ["Black", ["Yellow", ["Purple"]]]},      # nested plain
}


# --------------------------------------------------------------------------------------------------------------
# configurations: the schema the annotations are read with, and the namespace prefix every tag is written with.
# The oracle of a prefixed configuration is the un-prefixed behaviour with the prefix added to every tag (the prefix
# is part of the tag's text; Def <-> Def-expand keeps it, declared content keeps its own).
# --------------------------------------------------------------------------------------------------------------
_SEP = re.compile(r"([,()])")


class Config:
    def __init__(self, name, what, loader, pfx="", def_pfx=None, tag_pfx=None):
        self.name, self.what, self._loader, self.pfx = name, what, loader, pfx
        self._def_pfx = def_pfx or {}      # definition name (case-folded) -> prefix of its Definition/Def/Def-expand tag
        self._tag_pfx = tag_pfx or {}      # first level of any other tag (case-folded) -> prefix
        self._schema = self._dd = self._spec = None

    def schema(self):
        if self._schema is None:
            self._schema = self._loader()
        return self._schema

    def prefix_of(self, tag):
        low = tag.casefold()
        for head in ("def/", "def-expand/", "definition/"):
            if low.startswith(head):
                return self._def_pfx.get(tag[len(head):].split("/")[0].casefold(), self.pfx)
        return self._tag_pfx.get(low.split("/")[0], self.pfx)

    def tag(self, t):
        return self.prefix_of(t) + t

    def text(self, text):
        """every tag of an annotation text (or of a template with the slots X, Y) gets its prefix"""
        if not (self.pfx or self._def_pfx or self._tag_pfx):
            return text
        out = []
        for piece in _SEP.split(text):
            core = piece.strip()
            if core and core not in ",()XY":
                k = piece.index(core)
                piece = piece[:k] + self.tag(core) + piece[k + len(core):]
            out.append(piece)
        return "".join(out)

    def tree(self, node):
        if isinstance(node, str):
            return self.tag(node)
        return [self.tree(c) for c in node]

    def spec_defs(self):
        """SPEC_DEFS as written in this configuration"""
        if self._spec is None:
            self._spec = {k: dict(d, content=None if d["content"] is None else self.tree(d["content"]),
                                  pfx=self._def_pfx.get(k, self.pfx)) for k, d in SPEC_DEFS.items()}
        return self._spec

    def def_dict(self):
        if self._dd is None:
            from hed.models import DefinitionDict
            self._dd = DefinitionDict(def_strings(self.spec_defs()), self.schema())
        return self._dd


def _xml_830():
    import hed.schema
    return os.path.join(os.path.dirname(hed.schema.__file__), "schema_data", "HED8.3.0.xml")


_loaded = {}


def _load(key, make):
    if key not in _loaded:
        _loaded[key] = make()
    return _loaded[key]


def _ns_version():
    from hed.schema import load_schema_version
    return _load("ts:8.3.0", lambda: load_schema_version("ts:8.3.0"))


def _ns_path():
    from hed.schema import load_schema
    return _load("path ts", lambda: load_schema(_xml_830(), schema_namespace="ts"))


def _group():
    from hed.schema import load_schema_version
    return _load("group", lambda: load_schema_version(["8.3.0", "sc:score_2.0.0"]))


CONFIGS = {c.name: c for c in [
    Config("plain", "load_schema_version('8.3.0'), tags without a prefix", schema),
    Config("ns_version", "load_schema_version('ts:8.3.0'), every tag written ts:Tag", _ns_version, "ts:"),
    Config("ns_path", "load_schema(<HED8.3.0.xml>, schema_namespace='ts'), every tag written ts:Tag", _ns_path, "ts:"),
    Config("group_std", "schema group ['8.3.0', 'sc:score_2.0.0'], definitions and annotations in the un-prefixed member",
           _group, ""),
    Config("group_lib", "schema group ['8.3.0', 'sc:score_2.0.0'], every tag written sc:Tag", _group, "sc:"),
    Config("group_mixed", "schema group ['8.3.0', 'sc:score_2.0.0']: definitions B, D, E are written (and used) as "
           "sc:Definition/sc:Def, A, C, N un-prefixed; the tags Blue, Item, Distance, Black, Purple, Square are written "
           "with sc:, all others without - inside definitions and outside", _group, "",
           def_pfx={"b": "sc:", "d": "sc:", "e": "sc:"},
           tag_pfx={k: "sc:" for k in ("blue", "item", "distance", "black", "purple", "square")}),
]}
NS_CONFIGS = [n for n in CONFIGS if n != "plain"]
_cur = {"cfg": CONFIGS["plain"]}


def use_config(name):
    _cur["cfg"] = CONFIGS[name or "plain"]
    return _cur["cfg"]


def cfg():
    return _cur["cfg"]


def cur_schema():
    return cfg().schema()


def spec_defs():
    return cfg().spec_defs()


def def_strings(spec_defs):
    out = []
    for d in spec_defs.values():
        nm = d.get("pfx", "") + "Definition/" + d["name"] + ("/#" if d["takes"] else "")
        if d["content"] is None:
            out.append(f"({nm})")
        else:
            out.append(f"({nm}, {unparse([d['content']])})")
    return out


def def_dict():
    """the dictionary of SPEC_DEFS in the current configuration.  A definition the real code refuses is REPORTED by run()
    (check_spec_defs) - the other parts go on with what was accepted and report what follows from the gap"""
    return cfg().def_dict()


def check_spec_defs(w):
    """every definition of SPEC_DEFS is good by the property text: each must be accepted on its own"""
    texts = def_strings(spec_defs())
    for key, text in zip(SPEC_DEFS, texts):
        case = {"part": "accept", "text": text, "name": SPEC_DEFS[key]["name"] + ("/#" if SPEC_DEFS[key]["takes"] else ""),
                "accept": True, "top_level": True, "ambiguous": False, "shape": "plain", "origin": "SPEC_DEFS",
                "config": cfg().name}
        w.case(("accept", cfg().name, text), nontrivial=True, sample=case)
        check_accept(w, case)
    missing = sorted(set(SPEC_DEFS) - set(def_dict().defs))
    w.check(not missing, "C09.accept.good_definition_added",
            {"part": "spec_defs", "definitions": texts, "config": cfg().name},
            observed={"missing from DefinitionDict(list_of_strings)": missing}, expected=sorted(SPEC_DEFS))
    return len(SPEC_DEFS)


# --------------------------------------------------------------------------------------------------------------
# part "accept"
# --------------------------------------------------------------------------------------------------------------
# (text, number of '#', every '#' sits alone on a value-taking tag, contains Def/Def-expand/Definition)
CONTENTS = [
    (None, 0, True, False),
    ("(Red, Blue)", 0, True, False),
    ("(Red, (Blue, (Green)))", 0, True, False),
    ("(Label/#)", 1, True, False),
    ("(Item, (Label/#, Green))", 1, True, False),
    ("(Speed/# mph, Blue)", 1, True, False),
    ("(Red/#)", 1, False, False),
    ("(Label/#, Speed/#)", 2, True, False),
    ("(Label/##)", 2, False, False),
    ("(Label/#, (Red, Speed/# mph))", 2, True, False),
    ("(Def/X, Red)", 0, True, True),
    ("(Red, (Blue, (Def/X/1)))", 0, True, True),
    ("((Def-expand/X, (Red)), Blue)", 0, True, True),
    ("(Definition/X, Red)", 0, True, True),
    ("(Red, (Definition/X, (Blue)))", 0, True, True),
    ("(Label/#, (Def/X))", 1, True, True),
]
NAMES = [("A", False, True), ("A/#", True, True), ("Abc", False, True), ("A/B", False, False), ("A/B/#", True, False),
         ("A#", False, False), ("A#/#", True, False)]
SHAPES = ["plain", "extra_tag_after", "extra_tag_before", "two_groups", "nested", "with_neighbours"]


def gen_definition_cases(quick):
    for (nm, takes, name_ok), (ctext, nhash, on_value_tag, has_def), shape in itertools.product(NAMES, CONTENTS, SHAPES):
        if shape == "two_groups" and ctext is None:
            continue
        body = f"Definition/{nm}" + (f", {ctext}" if ctext else "")
        top_level = True
        structure_ok = True
        if shape == "plain":
            text = f"({body})"
        elif shape == "extra_tag_after":
            text = f"(Definition/{nm}, Square" + (f", {ctext})" if ctext else ")")
            structure_ok = False
        elif shape == "extra_tag_before":
            text = f"(Square, {body})"
            structure_ok = False
        elif shape == "two_groups":
            text = f"({body}, (Circle))"
            structure_ok = False
        elif shape == "nested":
            text = f"(({body}))"
            top_level = False
        else:
            text = f"Square, ({body}), (Circle, Triangle)"
        ambiguous = (not takes) and nhash >= 2      # the statement's iff can be read both ways: not judged
        placeholder_ok = (nhash == 1 and on_value_tag) if takes else (nhash == 0)
        accept = top_level and structure_ok and name_ok and (not has_def) and placeholder_ok
        yield {"part": "accept", "text": cfg().text(text), "name": nm, "accept": accept, "top_level": top_level,
               "ambiguous": ambiguous, "shape": shape, "config": cfg().name}


DEPTH_NAMES = [("Speed/#", True), ("Abc", False)]


def gen_depth_cases():
    """placeholder tag at depth 1, 2, 3 of the content (rt/c09_depth.py): good fillers, and every faulty variant (two '#',
    '#' on a non-value tag, no '#', name without '/#' but content with '#') at every depth"""
    from rt import c09_depth as D
    for nm, takes in DEPTH_NAMES:
        singles = [(c, [d] * max(1, n), lay, n, onv, v) for c, d, lay, n, onv, v in D.single_slot_contents()]
        doubles = [(c, list(ds), lay, n, onv, v) for c, ds, lay, n, onv, v in D.two_slot_contents()]
        for ctext, depths, layout, nhash, on_value_tag, value in singles + doubles:
            placeholder_ok = (nhash == 1 and on_value_tag) if takes else (nhash == 0)
            case = {"part": "accept", "text": cfg().text(f"(Definition/{nm}, {ctext})"), "name": nm,
                    "accept": placeholder_ok,
                    "top_level": True, "ambiguous": (not takes) and nhash >= 2, "shape": "plain",
                    "origin": "depth", "layout": layout, "hash_depths": D.depth_of_hash(ctext),
                    "content": cfg().text(ctext), "config": cfg().name}
            if placeholder_ok and takes:
                case["use_value"] = value
            yield case


def check_use_of_accepted(w, case, dd):
    """an accepted '/#' definition is usable: Def/Name/v validates and expands to the content with '#' replaced by v"""
    from hed.models import HedString
    sch = cur_schema()
    name = case["name"][:-2]
    v = case["use_value"]
    use = cfg().tag(f"Def/{name}/{v}")
    content = parse(case["content"])[0]
    expected = [[cfg().tag(f"Def-expand/{name}/{v}"), subst(content, v)]]
    try:
        issues = HedString(use, sch, dd).validate(allow_placeholders=False)
        errs = [(i["code"], i["message"][:100]) for i in issues if i.get("severity", 1) == 1]
        obs = str(HedString(use, sch, dd).expand_defs())
    except Exception as e:  # noqa
        w.fail("C09.accept.accepted_definition_is_usable", dict(case, use=use), observed=f"{type(e).__name__}: {e}"[:200],
               expected="no exception")
        return
    w.check(not errs and norm(parse(obs)) == norm(expected), "C09.accept.accepted_definition_is_usable", dict(case, use=use),
            observed={"errors": errs, "expanded": obs}, expected={"errors": [], "expanded": unparse(expected)})


def check_accept(w, case):
    from hed.models import DefinitionDict, HedString
    sch = cur_schema()
    text = case["text"]
    stripped = case["name"][:-2] if case["name"].endswith("/#") else case["name"]
    # a dictionary that already holds an unrelated entry: the whole map must be unchanged on rejection
    dd = DefinitionDict([cfg().text("(Definition/Other, (Green))")], sch)
    before = dict(dd.defs)
    try:
        issues = dd.check_for_definitions(HedString(text, sch))
    except Exception as e:  # noqa
        w.fail("C09.accept.total", case, observed=f"{type(e).__name__}: {e}", expected="no exception")
        return
    key = stripped.casefold()
    added = [k for k in dd.defs if k not in before]
    unchanged = all(dd.defs.get(k) is v for k, v in before.items())
    w.check(unchanged, "C09.accept.frame_other_entries", case, observed=sorted(dd.defs), expected=sorted(before))
    if case["ambiguous"]:
        return
    if case["accept"]:
        ok = added == [key] and not issues
        w.check(ok, "C09.accept.good_definition_added", case, observed={"added": added, "issues": _codes(issues)},
                expected={"added": [key], "issues": []})
        if ok:
            ent = dd.defs[key]
            takes = case["name"].endswith("/#")
            w.check(ent.takes_value == takes and ent.name == stripped, "C09.accept.entry_fields", case,
                    observed=[ent.name, ent.takes_value], expected=[stripped, takes])
            if case.get("use_value") is not None:
                check_use_of_accepted(w, case, dd)
    else:
        w.check(added == [], "C09.accept.bad_definition_not_added", case, observed={"added": added},
                expected={"added": []})
        if case["top_level"]:
            w.check(any(i["code"] == "DEFINITION_INVALID" for i in issues), "C09.accept.bad_definition_reported", case,
                    observed=_codes(issues), expected=["DEFINITION_INVALID", "..."])


def gen_duplicate_cases():
    first = [("A", "(Red)"), ("A/#", "(Label/#)"), ("Abc", None)]
    for (n1, c1) in first:
        base = n1[:-2] if n1.endswith("/#") else n1
        for n2 in [base, base.lower(), base.upper(), base + "/#", base.lower() + "/#", base + "x"]:
            takes2 = n2.endswith("/#")
            c2 = "(Speed/# mph)" if takes2 else "(Blue, Green)"
            for how in ["two_calls", "one_string", "merge_dicts"]:
                yield {"part": "duplicate", "d1": f"(Definition/{n1}" + (f", {c1})" if c1 else ")"),
                       "d2": f"(Definition/{n2}, {c2})", "n1": n1, "n2": n2, "how": how,
                       "dup": (n2[:-2] if takes2 else n2).casefold() == base.casefold()}


def check_duplicate(w, case):
    from hed.models import DefinitionDict, HedString
    sch = schema()
    try:
        if case["how"] == "two_calls":
            dd = DefinitionDict()
            i1 = dd.check_for_definitions(HedString(case["d1"], sch))
            first_entry = dict(dd.defs)
            i2 = dd.check_for_definitions(HedString(case["d2"], sch))
        elif case["how"] == "one_string":
            dd = DefinitionDict()
            i1 = []
            first_entry = None
            i2 = dd.check_for_definitions(HedString(case["d1"] + ", " + case["d2"], sch))
        else:
            a = DefinitionDict()
            i1 = a.check_for_definitions(HedString(case["d1"], sch))
            b = DefinitionDict()
            i1 += b.check_for_definitions(HedString(case["d2"], sch))
            first_entry = dict(a.defs)
            dd = DefinitionDict([a, b])
            i2 = dd.issues
    except Exception as e:  # noqa
        w.fail("C09.accept.total", case, observed=f"{type(e).__name__}: {e}", expected="no exception")
        return
    k1 = (case["n1"][:-2] if case["n1"].endswith("/#") else case["n1"]).casefold()
    k2 = (case["n2"][:-2] if case["n2"].endswith("/#") else case["n2"]).casefold()
    if case["dup"]:
        kept_first = sorted(dd.defs) == [k1] and dd.defs[k1].takes_value == case["n1"].endswith("/#") and \
            (first_entry is None or dd.defs[k1] is first_entry[k1])
        w.check(kept_first, "C09.duplicate.ignored_first_kept", case,
                observed={k: str(v.contents) for k, v in dd.defs.items()}, expected=f"only {k1} with the first contents")
        w.check(len(i2) == 1 and not i1, "C09.duplicate.reported_once", case, observed=_codes(i1) + _codes(i2),
                expected="exactly one issue")
    else:
        w.check(sorted(dd.defs) == sorted([k1, k2]) and not i1 and not i2, "C09.duplicate.distinct_names_both_kept", case,
                observed={"defs": sorted(dd.defs), "issues": _codes(i1) + _codes(i2)}, expected=sorted([k1, k2]))


def _codes(issues):
    return [i.get("code") for i in issues]


# --------------------------------------------------------------------------------------------------------------
# part "ops": operation sequences on one object
# --------------------------------------------------------------------------------------------------------------
OPS = ["expand", "shrink", "copy", "validate", "str"]
# (use text, valid use)
USES = [("Def/A", True), ("def/a", True), ("Def/B/x", True), ("Def/b/12", True), ("Def/C/3", True), ("Def/D/5 m", True),
        ("Def/E", True), ("Def/N", True),
        ("Def/Zz", False), ("Def/A/5", False), ("Def/B", False)]
TEMPLATES1 = ["X", "X, Square", "(X, Square)", "(Square, (X, Circle))", "((Square, (X)), Circle)", "(Square, ((X)))"]
TEMPLATES2 = ["X, (Y, Square)", "(X, (Y, (Square)))", "Square, ((X, Circle), (Y, Triangle))"]


def gen_annotations(quick, reduced=0):
    """(family, text, valid) in the current configuration.  family 'def': written with Def tags; 'pre': the reparsed
    text of the expanded form; 'mixed': one Def next to one pre-expanded group.
    reduced = k > 0 (prefixed configurations): all one-use annotations, every k-th of the two-use ones."""
    c = cfg()
    anns = []
    uses1 = USES
    for t in TEMPLATES1:
        for u, ok in uses1:
            anns.append(("def", c.text(t.replace("X", u)), ok))
    pairs = list(itertools.product(USES, USES))
    if quick:
        keep = [USES[0], USES[2], USES[4], USES[6], USES[8]]
        pairs = [(a, b) for a, b in itertools.product(keep, keep)]
    no = 0
    for t in TEMPLATES2:
        for (u1, ok1), (u2, ok2) in pairs:
            no += 1
            if reduced and no % reduced:
                continue
            anns.append(("def", c.text(t.replace("X", u1).replace("Y", u2)), ok1 and ok2))
    return anns


def derive_pre_and_mixed(def_anns, quick):
    """pre-expanded annotations are produced by the real expand_defs (relational: validation/shrink must agree with
    what expansion itself produces)"""
    from hed.models import HedString
    sch, dd = cur_schema(), def_dict()
    T = cfg().tag
    out = []
    seen = set()
    step = 3 if quick else 1
    for i, (fam, text, ok) in enumerate(def_anns):
        if not ok or i % step:
            continue
        try:
            exp = str(HedString(text, sch, dd).expand_defs())
        except Exception:  # noqa - reported by the ops part on the same annotation
            continue
        if exp not in seen and "Def-expand/" in exp:
            seen.add(exp)
            out.append(("pre", exp, True))
    # mixed: first slot stays a Def tag, second is written expanded
    for (u1, ok1), (u2, ok2) in itertools.product(USES[:8:2], USES[:8]):
        try:
            g = str(HedString(T(u2), sch, dd).expand_defs())
        except Exception:  # noqa
            continue
        out.append(("mixed", f"{T(u1)}, ({g}, {T('Square')})", True))
        out.append(("mixed", f"({T('Circle')}, {g}), (({T(u1)}), {T('Square')})", True))
    return out


def all_sequences(maxlen):
    for n in range(maxlen + 1):
        yield from itertools.product(OPS, repeat=n)


class _Timeout(Exception):
    pass


def _alarm(signum, frame):
    raise _Timeout()


def run_sequence(text, family, valid, ops, failures):
    """apply ops to one object, compare with the model after every step.  failures: list to append
    (clause, step, observed, expected).  Returns number of steps performed."""
    from hed.models import HedString
    sch, dd = cur_schema(), def_dict()
    model = parse(text)
    origin_has_dx = has_defexpand(model)
    h = HedString(text, sch, dd)
    held = []   # (object, expected normal form, step) kept aside by copy steps; must never change afterwards
    try:
        s0 = str(h)
    except Exception as e:  # noqa
        failures.append(("C09.str.total", -1, f"{type(e).__name__}", "string"))
        return 0
    if norm(parse(s0)) != norm(model):
        failures.append(("C09.str.initial_form", -1, s0, unparse(model)))
        return 0
    mutated = False
    n = 0
    for step, op in enumerate(ops):
        n += 1
        label = "C09.%s.pure" % op
        try:
            if op == "expand":
                now_dx = has_defexpand(model)
                if not mutated:
                    label = "C09.expand.replaces_exactly_defs"
                elif not now_dx and not origin_has_dx:
                    label = "C09.expand.replaces_exactly_defs"
                elif now_dx:
                    label = "C09.D9.expand_when_already_expanded"      # idempotence: expected no change
                else:
                    label = "C09.D9.reexpand_after_shrink_of_preexpanded"
                model = model_expand(model, spec_defs())
                r = h.expand_defs()
                mutated = True
                if r is not h:
                    failures.append(("C09.expand.returns_self", step, repr(r)[:80], "self"))
            elif op == "shrink":
                label = "C09.shrink.restores_def_tags"
                model = model_shrink(model)
                r = h.shrink_defs()
                mutated = True
                if r is not h:
                    failures.append(("C09.expand.returns_self", step, repr(r)[:80], "self"))
            elif op == "copy":
                label = "C09.copy.equal_and_independent"
                c = h.copy()
                # alternate which of the two objects the rest of the sequence works on
                if step % 2 == 0:
                    held.append((h, norm(model), step))
                    h = c
                else:
                    held.append((c, norm(model), step))
            elif op == "validate":
                issues = h.validate(allow_placeholders=False)
                errs = [i for i in issues if i.get("severity", 1) == 1]
                if valid and errs:
                    failures.append(("C09.validate.accepts_own_expansion", step,
                                     [(i["code"], i["message"][:100]) for i in errs], []))
                if not valid and not errs:
                    failures.append(("C09.validate.flags_bad_use", step, [], "at least one error"))
            elif op == "str":
                s1 = str(h)
                s2 = str(h)
                if s1 != s2:
                    failures.append(("C09.str.pure", step, [s1, s2], "same text twice"))
            obs = str(h)
        except RecursionError:
            failures.append((label, step, "RecursionError (cyclic tree)", unparse(model)))
            return n
        except _Timeout:
            raise
        except Exception as e:  # noqa
            failures.append((label, step, f"{type(e).__name__}: {str(e)[:120]}", unparse(model)))
            return n
        if norm(parse(obs)) != norm(model):
            failures.append((label, step, obs, unparse(model)))
            return n    # object and model have diverged; later steps would only repeat the finding
        if op == "shrink" and norm(model) == norm(parse(s0)) and obs != s0:
            failures.append(("C09.roundtrip.shrink_of_expand_is_identity", step, obs, s0))
    for obj, expected, step in held:
        try:
            obs = norm(parse(str(obj)))
        except RecursionError:
            obs = "RecursionError"
        if obs != expected:
            failures.append(("C09.copy.equal_and_independent", step, str(obs)[:200], str(expected)[:200]))
    return n


# --------------------------------------------------------------------------------------------------------------
# part "copyops": the sequence continues on the copy AS WELL AS on the original
# --------------------------------------------------------------------------------------------------------------
COPY_PREFIX_OPS = ["expand", "shrink", "validate"]
COPY_SUFFIX_OPS = ["expand", "shrink", "validate", "copyparts"]
COPY_TARGETS = ["orig", "copy"]


def copy_prefixes(max_prefix):
    """operations on the original before it is copied.  max_prefix == 2: every sequence of length <= 2 over
    {expand, shrink, validate}; max_prefix == 1 (quick tier): every sequence of length <= 2 over {expand, shrink} and the
    four sequences that place one validate next to a state change (validate alone is pure text-wise: the ops part
    enumerates it in all positions)."""
    if max_prefix >= 2:
        for p in range(max_prefix + 1):
            yield from itertools.product(COPY_PREFIX_OPS, repeat=p)
    else:
        for p in range(3):
            yield from itertools.product(["expand", "shrink"], repeat=p)
        yield from [("validate",), ("expand", "validate"), ("validate", "expand"), ("shrink", "validate")]


def copy_sequences(max_prefix, max_suffix):
    """(prefix on the original) ; copy ; (suffix of (target, op) over both objects)"""
    acts = list(itertools.product(COPY_TARGETS, COPY_SUFFIX_OPS))
    for prefix in copy_prefixes(max_prefix):
        for k in range(max_suffix + 1):
            for suffix in itertools.product(acts, repeat=k):
                yield prefix, suffix


def _expand_label(mutated, model, origin_has_dx):
    now_dx = has_defexpand(model)
    if not mutated or (not now_dx and not origin_has_dx):
        return "C09.expand.replaces_exactly_defs"
    if now_dx:
        return "C09.D9.expand_when_already_expanded"          # idempotence: expected no change
    return "C09.D9.reexpand_after_shrink_of_preexpanded"


def _shape(snap):
    """snapshot without object identities (what a copy must have in common with its original)"""
    out = []
    for rec in snap:
        if rec[0] == "G":
            out.append(("G", rec[3]))
        else:
            out.append(("T", rec[3], rec[4], None if rec[5] is None else rec[5][2]))
    return out


def _is_def_tag(node):
    return getattr(node, "short_base_tag", None) in ("Def", "Def-expand")


def run_copy_sequence(text, family, valid, prefix, suffix, failures):
    """prefix on the original, one HedString.copy(), then suffix steps on either object.  After every step:
    the object operated on has the model's text; the other object is unchanged (text, node objects, parents, flags,
    cached expansions); the two trees share no node object; every child's _parent is its container."""
    from hed.models import HedString
    from hed.models.hed_group import HedGroup
    from rt import c09_struct as S
    sch, dd = cur_schema(), def_dict()
    model0 = parse(text)
    origin_has_dx = has_defexpand(model0)
    reported = set()

    def once(clause, step, obs, exp):
        if clause not in reported:       # one record per clause and sequence
            reported.add(clause)
            failures.append((clause, step, obs, exp))

    try:
        h = HedString(text, sch, dd)
        s0 = str(h)
    except Exception as e:  # noqa - reported by the ops part
        return 0
    if norm(parse(s0)) != norm(model0):
        return 0                         # reported by the ops part (C09.str.initial_form)
    objs = {"orig": {"h": h, "model": model0, "mutated": False}}

    def operate(st, op, step):
        """one of expand/shrink/validate/copyparts on st; False if the sequence cannot go on"""
        h = st["h"]
        label = "C09.%s.pure" % op
        try:
            if op == "expand":
                label = _expand_label(st["mutated"], st["model"], origin_has_dx)
                st["model"] = model_expand(st["model"], spec_defs())
                r = h.expand_defs()
                st["mutated"] = True
                if r is not h:
                    once("C09.expand.returns_self", step, repr(r)[:80], "self")
            elif op == "shrink":
                label = "C09.shrink.restores_def_tags"
                st["model"] = model_shrink(st["model"])
                r = h.shrink_defs()
                st["mutated"] = True
                if r is not h:
                    once("C09.expand.returns_self", step, repr(r)[:80], "self")
            elif op == "validate":
                issues = h.validate(allow_placeholders=False)
                errs = [i for i in issues if i.get("severity", 1) == 1]
                if valid and errs:
                    once("C09.validate.accepts_own_expansion", step, [(i["code"], i["message"][:100]) for i in errs], [])
                if not valid and not errs:
                    once("C09.validate.flags_bad_use", step, [], "at least one error")
            elif op == "copyparts":
                label = "C09.copy.independent_of_original"
                before = S.snapshot(h)
                for node in S.visible(h)[1:]:
                    if not (isinstance(node, HedGroup) or _is_def_tag(node)):
                        continue
                    parent = node._parent
                    t = str(node)
                    c = node.copy()
                    if node._parent is not parent:
                        once("C09.copy.original_keeps_its_parent", step,
                             f"after {S.describe(node)}.copy(): _parent is " +
                             ("None" if node._parent is None else S.describe(node._parent)),
                             "the same container as before: " + S.describe(parent))
                    if str(c) != t:
                        once("C09.copy.equal_and_independent", step, str(c), t)
                    sh = S.shared_nodes(h, c)
                    if sh:
                        once("C09.copy.trees_disjoint", step, {"copied_part": t, "shared": sh}, "no shared node object")
                d = S.snapshot_diff(before, S.snapshot(h))
                if d:
                    once("C09.copy.independent_of_original", step, "copying parts changed the source: " + d, "unchanged")
            obs = str(h)
        except RecursionError:
            once(label, step, "RecursionError (cyclic tree)", unparse(st["model"]))
            return False
        except _Timeout:
            raise
        except Exception as e:  # noqa
            once(label, step, f"{type(e).__name__}: {str(e)[:120]}", unparse(st["model"]))
            return False
        if norm(parse(obs)) != norm(st["model"]):
            once(label, step, obs, unparse(st["model"]))
            return False
        if op == "shrink" and norm(st["model"]) == norm(parse(s0)) and obs != s0:
            once("C09.roundtrip.shrink_of_expand_is_identity", step, obs, s0)
        return True

    def structure(step, who_changed=None):
        a, b = objs["orig"]["h"], objs["copy"]["h"]
        try:
            sh = S.shared_nodes(a, b)
            if sh:
                once("C09.copy.trees_disjoint", step, {"shared": sh}, "original and copy share no node object "
                     "(tags, groups, cached expansions, parents)")
            for nm, o in (("original", a), ("copy", b)):
                pf = S.parent_faults(o)
                if pf:
                    once("C09.copy.parents_consistent", step, {nm: pf}, "every child's _parent is its container")
        except RecursionError:
            once("C09.copy.parents_consistent", step, "RecursionError (cyclic tree)", "a tree")

    n = 0
    for step, op in enumerate(prefix):
        n += 1
        if not operate(objs["orig"], op, step):
            return n
    # ---- the copy
    step = len(prefix)
    n += 1
    a = objs["orig"]
    try:
        before = S.snapshot(a["h"])
        text_before = str(a["h"])
        c = a["h"].copy()
        after = S.snapshot(a["h"])
        text_c = str(c)
        shape_c = _shape(S.snapshot(c))
    except _Timeout:
        raise
    except (Exception, RecursionError) as e:  # noqa
        once("C09.copy.equal_and_independent", step, f"{type(e).__name__}: {str(e)[:120]}", "a copy")
        return n
    d = S.snapshot_diff(before, after)
    if d or str(a["h"]) != text_before:
        once("C09.copy.independent_of_original", step, "copy() changed the original: " + str(d), "unchanged")
    if text_c != text_before or type(c) is not type(a["h"]):
        once("C09.copy.equal_and_independent", step, text_c, text_before)
    elif shape_c != _shape(before):
        once("C09.copy.equal_and_independent", step, shape_c, _shape(before))
    objs["copy"] = {"h": c, "model": a["model"], "mutated": a["mutated"]}
    structure(step)
    # ---- both objects live on
    for k, (who, op) in enumerate(suffix):
        step = len(prefix) + 1 + k
        n += 1
        x = objs[who]
        other = "copy" if who == "orig" else "orig"
        y = objs[other]
        try:
            snap_y = S.snapshot(y["h"])
            text_y = str(y["h"])
        except RecursionError:
            once("C09.copy.independent_of_original", step, "RecursionError (cyclic tree)", "a tree")
            return n
        ok = operate(x, op, step)
        try:
            d = S.snapshot_diff(snap_y, S.snapshot(y["h"]))
            t2 = str(y["h"])
        except RecursionError:
            d, t2 = "RecursionError (cyclic tree)", None
        if d or t2 != text_y:
            name = {"orig": "the original", "copy": "the copy"}
            once("C09.copy.independent_of_original", step,
                 f"{op} on {name[who]} changed {name[other]}: " + (d or f"text {text_y!r} -> {t2!r}"),
                 f"{name[other]} unchanged: {text_y}")
        structure(step)
        if not ok:
            return n
    return n


def _copyops_worker(args):
    text, family, valid, max_prefix, max_suffix, timeout, cname = args
    use_config(cname)
    cur_schema()
    out = []
    nseq = 0
    signal.signal(signal.SIGALRM, _alarm)
    for prefix, suffix in copy_sequences(max_prefix, max_suffix):
        nseq += 1
        fl = []
        signal.alarm(timeout)
        try:
            run_copy_sequence(text, family, valid, prefix, suffix, fl)
        except _Timeout:
            fl.append(("C09.ops.terminates", len(prefix) + 1 + len(suffix), f"no result after {timeout}s", "termination"))
        finally:
            signal.alarm(0)
        for clause, step, obs, exp in fl:
            out.append((clause, {"part": "copyops", "config": cname, "annotation": text, "family": family, "valid": valid,
                                 "prefix": list(prefix), "suffix": [list(s) for s in suffix],
                                 "ops": list(prefix) + ["copy"] + [f"{o}@{t}" for t, o in suffix],
                                 "failed_at_step": step}, obs, exp))
    return cname, nseq, out


def _ops_worker(args):
    text, family, valid, maxlen, timeout, cname = args
    use_config(cname)
    cur_schema()
    out = []
    nseq = 0
    signal.signal(signal.SIGALRM, _alarm)
    for ops in all_sequences(maxlen):
        nseq += 1
        fl = []
        signal.alarm(timeout)
        try:
            run_sequence(text, family, valid, ops, fl)
        except _Timeout:
            fl.append(("C09.ops.terminates", len(ops), f"no result after {timeout}s", "termination"))
        finally:
            signal.alarm(0)
        for clause, step, obs, exp in fl:
            out.append((clause, {"part": "ops", "config": cname, "annotation": text, "family": family, "valid": valid,
                                 "ops": list(ops), "failed_at_step": step}, obs, exp))
    return cname, nseq, out


def _single_use(text, fam):
    return fam == "def" and len(re.findall(r"(?i)\bdef/", text)) == 1


def select_copy_annotations(jobs, quick):
    """annotations of the copyops part: every single-use annotation, and every sixth of the others"""
    out = []
    k = 0
    for text, fam, ok, *_ in jobs:
        if not _single_use(text, fam):
            k += 1
            if quick and k % 6:
                continue
        out.append((text, fam, ok))
    return out


def _minimal_first(records):
    # shortest op sequences first so that the (capped) stored failures are the minimal ones
    return sorted(records, key=lambda r: (len(r[1]["ops"]), len(r[1]["annotation"]), r[1]["annotation"], r[1]["ops"]))


# --------------------------------------------------------------------------------------------------------------
# part "defexpand": hand-written Def-expand groups
# --------------------------------------------------------------------------------------------------------------
DX_USES = ["A", "a", "B/x", "b/12", "C/3", "D/5 m", "E", "N"]
WRAPS = ["X", "(X, Square)", "(Square, (Circle, X))"]


def gen_defexpand_cases(quick):
    c, sd = cfg(), spec_defs()
    T = c.tag
    for use in DX_USES:
        exp = expansion_of(T("Def/" + use), sd)
        tag = exp[0]
        content = exp[1] if len(exp) > 1 else None
        goods = []
        if content is None:
            goods.append([tag])
        else:
            for perm in all_orders(content):
                goods.append([tag, perm])
                goods.append([perm, tag])
        for wrap in WRAPS:
            for g in goods:
                yield {"part": "defexpand", "text": c.text(wrap).replace("X", unparse([g])), "use": use, "correct": True,
                       "config": c.name}
        # mutations of the content: every one differs from the expansion as a multiset tree
        bads = []
        if content is None:
            bads.append([tag, [T("Red")]])
        else:
            bads.append([tag])                                             # content group missing
            bads.append([tag, content + [T("Triangle")]])                  # one tag too many
            bads.append([tag, content[1:]] if len(content) > 1 else [tag, [T("Triangle")]])   # one child missing
            bads.append([tag, [T("Triangle")] + content[1:]])              # first child replaced
            bads.append([tag, [content]])                                  # extra nesting level
            flat = _flatten(content)
            if flat != content:
                bads.append([tag, flat])                                   # nesting removed
            if "/" in use:
                v = use.split("/", 1)[1]
                other = "y" if v != "y" else "z"
                if use.casefold().startswith("b"):
                    bads.append([tag, subst(sd["b"]["content"], other)])                 # another value plugged in
                bads.append([tag, sd[use[0].casefold()]["content"]])                     # '#' left in place
        for b in bads:
            for wrap in WRAPS[:2]:
                yield {"part": "defexpand", "text": c.text(wrap).replace("X", unparse([b])), "use": use, "correct": False,
                       "config": c.name}


def _flatten(node):
    out = []
    for c in node:
        if isinstance(c, str):
            out.append(c)
        else:
            out.extend(_flatten(c))
    return out


def check_defexpand(w, case, own_order_texts):
    from hed.models import HedString
    from hed.validator import HedValidator
    sch, dd = cur_schema(), def_dict()
    text = case["text"]
    try:
        issues = HedValidator(sch, dd).validate(HedString(text, sch, dd), allow_placeholders=False)
    except Exception as e:  # noqa
        w.fail("C09.validate.total", case, observed=f"{type(e).__name__}: {e}", expected="no exception")
        return
    bad = [i for i in issues if i["code"] in ("DEF_EXPAND_INVALID",)]
    if case["correct"]:
        own = norm_text(text) in own_order_texts
        clause = "C09.validate.accepts_own_expansion" if own else "C09.D8.defexpand_accepted_in_any_sibling_order"
        w.check(not bad, clause, case, observed=[(i["code"], i["message"][:120]) for i in bad], expected=[])
        other = [i for i in issues if i not in bad and i.get("severity", 1) == 1]
        w.check(not other, "C09.validate.no_other_issue_on_correct_group", case,
                observed=[(i["code"], i["message"][:120]) for i in other], expected=[])
    else:
        # rejected = any error; normally DEF_EXPAND_INVALID (a left-over '#' is already refused as PLACEHOLDER_INVALID)
        w.check(any(i.get("severity", 1) == 1 for i in issues), "C09.validate.rejects_wrong_content", case,
                observed=_codes(issues), expected=["DEF_EXPAND_INVALID"])


def norm_text(text):
    return unparse(parse(text))


def own_expansion_texts():
    """the texts the real expand_defs produces for each use inside each wrap (the order the code itself emits)"""
    from hed.models import HedString
    sch, dd = cur_schema(), def_dict()
    out = set()
    for use in DX_USES:
        for wrap in WRAPS:
            try:
                out.add(norm_text(str(HedString(cfg().text(wrap.replace("X", "Def/" + use)), sch, dd).expand_defs())))
            except Exception:  # noqa
                pass
    return out


# --------------------------------------------------------------------------------------------------------------
# part "column"
# --------------------------------------------------------------------------------------------------------------
def check_column(w, texts):
    import pandas as pd
    from hed.models import HedString, df_util
    sch, dd = cur_schema(), def_dict()
    case = {"part": "column", "texts": texts, "config": cfg().name}
    try:
        expected_exp = [str(HedString(t, sch, dd).expand_defs()) for t in texts]
        ser = pd.Series(list(texts))
        df_util.expand_defs(ser, sch, dd)
        w.check(list(ser) == expected_exp, "C09.column.expand_agrees_with_object", case, observed=list(ser)[:5],
                expected=expected_exp[:5])
        df = pd.DataFrame({"HED": list(texts), "other": list(texts)})
        df_util.expand_defs(df, sch, dd, columns=["HED"])
        w.check(list(df["HED"]) == expected_exp and list(df["other"]) == list(texts),
                "C09.column.expand_agrees_with_object", case, observed=list(df["HED"])[:5], expected=expected_exp[:5])
        expected_shr = [str(HedString(t, sch, dd).shrink_defs()) for t in expected_exp]
        ser2 = pd.Series(list(expected_exp))
        df_util.shrink_defs(ser2, sch)
        w.check(list(ser2) == expected_shr, "C09.column.shrink_agrees_with_object", case, observed=list(ser2)[:5],
                expected=expected_shr[:5])
        back = [norm(parse(t)) for t in ser2]
        orig = [norm(parse(t)) for t in texts]
        w.check(back == orig, "C09.column.roundtrip", case, observed=list(ser2)[:5], expected=list(texts)[:5])
        # the same columns written in another letter case (tag names, Def and Def-expand included, are case-insensitive): the column-wise
        # operations still agree with the object-wise ones, as a Series and as a DataFrame column
        for how in ("lower", "upper", "swapcase"):
            try:
                v_exp = [getattr(t, how)() for t in expected_exp]
                v_def = [getattr(t, how)() for t in texts]
                want_shr = [str(HedString(t, sch, dd).shrink_defs()) for t in v_exp]
                want_exp = [str(HedString(t, sch, dd).expand_defs()) for t in v_def]
            except Exception:  # noqa  (the object-wise operation does not take this spelling: nothing to compare with)
                continue
            c2 = dict(case, letter_case=how)
            s3 = pd.Series(list(v_exp))
            df_util.shrink_defs(s3, sch)
            d3 = pd.DataFrame({"HED": list(v_exp), "other": list(v_exp)})
            df_util.shrink_defs(d3, sch, columns=["HED"])
            w.check(list(s3) == want_shr and list(d3["HED"]) == want_shr and list(d3["other"]) == v_exp,
                    "C09.column.shrink_agrees_with_object", c2, observed=[list(s3)[:5], list(d3["HED"])[:5]], expected=want_shr[:5])
            s4 = pd.Series(list(v_def))
            df_util.expand_defs(s4, sch, dd)
            d4 = pd.DataFrame({"HED": list(v_def), "other": list(v_def)})
            df_util.expand_defs(d4, sch, dd, columns=["HED"])
            w.check(list(s4) == want_exp and list(d4["HED"]) == want_exp and list(d4["other"]) == v_def,
                    "C09.column.expand_agrees_with_object", c2, observed=[list(s4)[:5], list(d4["HED"])[:5]], expected=want_exp[:5])
    except Exception as e:  # noqa
        w.fail("C09.column.total", case, observed=f"{type(e).__name__}: {str(e)[:200]}", expected="no exception")


# --------------------------------------------------------------------------------------------------------------
def run(w: Workload):
    w.rule = ("accept: product of 7 definition names x 16 content groups x 6 group shapes (good/bad known by construction), "
              "placeholder definitions with the '#' tag at depth 1, 2, 3 of the content (21 layouts x good and faulty fillers x "
              "names with/without '/#'), "
              "plus duplicate pairs over case variants and three ways of adding; ops: every annotation built from 9 "
              "templates (depth<=3) x 11 Def uses (6 definitions: plain, '/#', nested, unit-carrying, contentless; "
              "case variants; 3 ill-formed uses), their expanded and mixed forms, x EVERY operation sequence of length "
              "<=4 (quick <=3) over {expand,shrink,copy,validate,str} on one object, checked against a tree model after "
              "each step; copyops: the same annotations (quick: all single-use ones and a sixth of the others) x <=2 operations "
              "on the original, copy(), <=2 operations (thorough: all single-use annotations, half of them with <=3, and half of the others) addressed to the original or "
              "the copy, "
              "with text, identity-snapshot, disjointness and parent-pointer checks after each step; defexpand: every sibling order of every correct Def-expand group and 6-8 mutations each; "
              "a case is distinct by its text (+ op sequence); "
              "namespace configurations: the accept (a share of the product, all placeholder-depth cases), ops, copyops, defexpand "
              "and column generators run again with the schema loaded under a namespace prefix (load_schema_version('ts:8.3.0'), "
              "load_schema(path, schema_namespace='ts'), the group ['8.3.0','sc:score_2.0.0'] with definitions in either or both "
              "namespaces) and every tag written with its prefix; oracle = the un-prefixed tree model with the prefixes added")
    schema()
    for cname in NS_CONFIGS:            # loaded once here, inherited by the pool workers
        CONFIGS[cname].schema()
    use_config("plain")
    # ---- accept
    n = 0
    for case in gen_definition_cases(w.quick):
        n += 1
        w.case(("accept", case["text"]), nontrivial=True, sample=case)
        check_accept(w, case)
    w.part("accept", cases=n, bound="7 names x 16 contents x 6 shapes of one definition group", exhaustive=True)
    n = 0
    by_depth = {}
    for case in gen_depth_cases():
        n += 1
        w.case(("accept", case["text"]), nontrivial=True, sample=case)
        check_accept(w, case)
        k = ("good" if case["accept"] else "ambiguous" if case["ambiguous"] else "faulty") + "@depth" + \
            "+".join(str(d) for d in case["hash_depths"])
        by_depth[k] = by_depth.get(k, 0) + 1
    w.part("accept: placeholder depth", cases=n, bound="2 names (with and without '/#') x [14 one-slot layouts (slot at depth "
           "1, 2, 3 of the content: alone, next to tags, next to / inside sibling groups) x (4 value-taking placeholder tags + "
           "5 faulty fillers: two '#', '##', '#' on a non-value tag (2), no '#') + 7 two-slot layouts (depth pairs 1+1 .. 3+3) x "
           "2 x 3 second fillers]; accepted '/#' definitions are also used once (Def/Name/v validates and expands to the "
           "content with v plugged in); cases by verdict and depth of the '#': %s" % dict(sorted(by_depth.items())),
           exhaustive=True)
    n = check_spec_defs(w)
    w.part("accept: the definitions used by the other parts", cases=n, bound="the %d definitions of SPEC_DEFS, one by one and "
           "as one list" % n, exhaustive=True)
    def_dict()
    n = 0
    for case in gen_duplicate_cases():
        n += 1
        w.case(("dup", case["d1"], case["d2"], case["how"]), sample=case)
        check_duplicate(w, case)
    w.part("duplicate", cases=n, bound="3 first definitions x 6 second names x 3 ways of adding", exhaustive=True)
    # ---- accept under a namespace: the product is dealt out over the configurations (quick: every second case),
    #      the placeholder-depth cases (with the use of the accepted definition) and SPEC_DEFS run in every configuration
    n = 0
    gens = {}
    for cname in NS_CONFIGS:
        use_config(cname)
        gens[cname] = list(gen_definition_cases(w.quick))
    for i in range(len(gens[NS_CONFIGS[0]])):
        if w.quick and i % 2:
            continue
        cname = NS_CONFIGS[(i // 2 if w.quick else i) % len(NS_CONFIGS)]
        use_config(cname)
        case = gens[cname][i]
        n += 1
        w.case(("accept", cname, case["text"]), nontrivial=True, sample=case)
        check_accept(w, case)
    for cname in NS_CONFIGS:
        use_config(cname)
        for case in gen_depth_cases():
            n += 1
            w.case(("accept", cname, case["text"]), nontrivial=True, sample=case)
            check_accept(w, case)
        n += check_spec_defs(w)
    use_config("plain")
    w.part("accept under a schema namespace", cases=n, bound="the 7 x 16 x 6 product dealt out over the %d namespace "
           "configurations%s; all placeholder-depth cases and the 6 definitions of SPEC_DEFS in every configuration; every "
           "tag (Definition, content, neighbours) written with its prefix" %
           (len(NS_CONFIGS), " (quick: every second case)" if w.quick else ""), exhaustive=not w.quick)

    # ---- ops  (plain configuration, then the namespace configurations: same generator, every tag prefixed)
    maxlen = 3 if w.quick else 4
    anns = gen_annotations(w.quick)
    anns += derive_pre_and_mixed(anns, w.quick)
    seen = set()
    jobs = []
    for fam, text, ok in anns:
        if text in seen:
            continue
        seen.add(text)
        jobs.append((text, fam, ok, maxlen, 20, "plain"))
    ns_anns = {}
    ns_jobs = []
    for k, cname in enumerate(NS_CONFIGS):
        use_config(cname)
        a = gen_annotations(w.quick, reduced=3 if w.quick else 4)
        a += derive_pre_and_mixed(a, w.quick)
        ns_anns[cname] = a
        seen = set()
        one = other = 0
        for fam, text, ok in a:
            if text in seen:
                continue
            seen.add(text)
            if w.quick:             # quick: every configuration gets every second one-use annotation (3 of the 6 templates
                if _single_use(text, fam):      # x all 11 uses, alternating) and a tenth of the others (dealt out)
                    one += 1
                    if ((one - 1) // len(USES)) % 2 != k % 2:
                        continue
                else:
                    other += 1
                    if other % (2 * len(NS_CONFIGS)) != k:
                        continue
            ns_jobs.append((text, fam, ok, maxlen, 20, cname))
    use_config("plain")
    records = []
    nseq = {}
    with multiprocessing.Pool(min(14, max(1, multiprocessing.cpu_count() - 2))) as pool:
        for cname, k, out in pool.imap(_ops_worker, jobs + ns_jobs, chunksize=2):
            nseq[cname] = nseq.get(cname, 0) + k
            records.extend(out)
    fams = {}
    ns_fams = {}
    for text, fam, ok, _, _, cname in jobs + ns_jobs:
        if cname == "plain":
            fams[fam] = fams.get(fam, 0) + 1
        else:
            ns_fams.setdefault(cname, {})
            ns_fams[cname][fam] = ns_fams[cname].get(fam, 0) + 1
        for ops in all_sequences(maxlen):
            w.case(("ops", text, ops) if cname == "plain" else ("ops", cname, text, ops), nontrivial=len(ops) > 0,
                   sample={"config": cname, "annotation": text, "family": fam, "ops": list(ops)})
    for clause, inp, obs, exp in _minimal_first(records):
        w.fail(clause, inp, observed=obs, expected=exp)
    w.part("ops", cases=nseq.get("plain", 0), bound=f"{len(jobs)} annotations {fams} (depth<=3, <=2 Def uses) x all "
           f"{sum(5 ** i for i in range(maxlen + 1))} operation sequences of length<={maxlen}", exhaustive=True)
    w.part("ops under a schema namespace", cases=sum(v for c, v in nseq.items() if c != "plain"),
           bound=f"the same annotations with every tag carrying its namespace prefix, in {len(NS_CONFIGS)} configurations "
           f"(annotations by family: {ns_fams}): every one-use annotation (6 templates x 11 uses), every "
           f"{3 if w.quick else 4}th of the two-use ones, their expanded and mixed forms"
           f"{' (quick: per configuration 3 of the 6 one-use templates x all 11 uses, alternating, and a tenth of the others)' if w.quick else ''} x all "
           f"operation sequences of length<={maxlen}; configurations: " +
           "; ".join(f"{c} = {CONFIGS[c].what}" for c in NS_CONFIGS), exhaustive=True)

    # ---- copyops
    # quick: the selected annotations with suffix <= 2; thorough: every single-use annotation (every second one with
    # suffix <= 3) and every second of the others (budget: the thorough tier must fit 15 min on a loaded machine)
    max_prefix = 1 if w.quick else 2
    if w.quick:
        cjobs = [(text, fam, ok, max_prefix, 2, 20, "plain") for text, fam, ok in select_copy_annotations(jobs, True)]
    else:
        cjobs = []
        k1 = k2 = 0
        for text, fam, ok, *_ in jobs:
            if _single_use(text, fam):
                k1 += 1
                cjobs.append((text, fam, ok, max_prefix, 3 if k1 % 2 else 2, 20, "plain"))
            else:
                k2 += 1
                if k2 % 2:
                    cjobs.append((text, fam, ok, max_prefix, 2, 20, "plain"))
    # namespace configurations: one-use annotations; quick: 4 per configuration (uses and templates rotate), thorough: all
    ns_cjobs = []
    for k, cname in enumerate(NS_CONFIGS):
        single = [j for j in ns_jobs if j[5] == cname and _single_use(j[0], j[1])]
        if w.quick:
            nu = len(USES)
            by_use = {}
            for j in single:
                by_use.setdefault(next(i for i, (u, _) in enumerate(USES) if CONFIGS[cname].tag(u) in j[0]), []).append(j)
            picks = []
            for i, u in enumerate([(0, 5), (2, 6), (4, 8), (5, 7), (2, 0)][k]):   # two uses per configuration
                picks.append(by_use[u][(i + k) % len(by_use[u])])
            single = picks
        ns_cjobs += [(j[0], j[1], j[2], max_prefix, 2, 20, cname) for j in single]
    seqs_by_len = {k: list(copy_sequences(max_prefix, k)) for k in (2, 3)}
    records = []
    nseq = {}
    with multiprocessing.Pool(min(14, max(1, multiprocessing.cpu_count() - 2))) as pool:
        for cname, k, out in pool.imap(_copyops_worker, cjobs + ns_cjobs, chunksize=1):
            nseq[cname] = nseq.get(cname, 0) + k
            records.extend(out)
    cf = {}
    for text, fam, ok, _, ms, _, cname in cjobs + ns_cjobs:
        if cname == "plain":
            cf[fam] = cf.get(fam, 0) + 1
        for prefix, suffix in seqs_by_len[ms]:
            w.case(("copyops", text, prefix, suffix) if cname == "plain" else ("copyops", cname, text, prefix, suffix),
                   nontrivial=True, sample={"config": cname, "annotation": text, "family": fam, "prefix": list(prefix),
                                            "suffix": [list(x) for x in suffix]})
    for clause, inp, obs, exp in _minimal_first(records):
        w.fail(clause, inp, observed=obs, expected=exp)
    n3 = sum(1 for j in cjobs if j[4] == 3)
    w.part("copyops", cases=nseq.get("plain", 0), bound=f"{len(cjobs)} annotations {cf} x all sequences: {len(list(copy_prefixes(max_prefix)))} "
           f"prefixes of <= 2 operations of {{expand,shrink,validate}} on the original (quick: at most one validate, next to an "
           f"expand/shrink), copy(), <= 2 ({len(seqs_by_len[2])} sequences; for {n3} of the "
           f"annotations <= 3, {len(seqs_by_len[3])} sequences) operations of {{expand,shrink,validate,"
           f"copy every nested group and Def tag}} each addressed to the original or to the copy", exhaustive=True)
    w.part("copyops under a schema namespace", cases=sum(v for c, v in nseq.items() if c != "plain"),
           bound=f"{len(ns_cjobs)} one-use annotations with prefixed tags ({'2 per configuration, uses and templates rotating' if w.quick else 'all of every configuration'}) "
           f"x the same {len(seqs_by_len[2])} sequences (prefix, copy(), <= 2 operations on either object)", exhaustive=True)

    # ---- defexpand
    n = 0
    ndx = {}
    for cname in ["plain"] + NS_CONFIGS:
        use_config(cname)
        own = own_expansion_texts()
        for case in gen_defexpand_cases(w.quick):
            ndx[cname] = ndx.get(cname, 0) + 1
            w.case(("dx", case["text"]) if cname == "plain" else ("dx", cname, case["text"]), sample=case)
            check_defexpand(w, case, own)
    use_config("plain")
    w.part("defexpand", cases=ndx["plain"], bound="8 uses x all sibling orders of the content (both tag positions) x 3 wraps; "
           "6-8 content mutations x 2 wraps", exhaustive=True)
    w.part("defexpand under a schema namespace", cases=sum(v for c, v in ndx.items() if c != "plain"),
           bound=f"the same groups with every tag prefixed, in each of the {len(NS_CONFIGS)} namespace configurations",
           exhaustive=True)

    # ---- column
    texts = [t for fam, t, ok in anns if fam == "def" and ok]
    w.case(("column", len(texts)), sample={"column_rows": len(texts)})
    check_column(w, texts)
    w.part("column", cases=len(texts), bound="all valid Def-form annotations as one Series / one DataFrame column",
           exhaustive=False)
    ncol = 0
    for cname in NS_CONFIGS:
        use_config(cname)
        texts = [t for fam, t, ok in ns_anns[cname] if fam == "def" and ok]
        ncol += len(texts)
        w.case(("column", cname, len(texts)), sample={"config": cname, "column_rows": len(texts)})
        check_column(w, texts)
    use_config("plain")
    w.part("column under a schema namespace", cases=ncol, bound="the valid Def-form annotations of every namespace "
           "configuration as one Series / one DataFrame column", exhaustive=False)

    w.exhaustive = True
    w.not_covered += [
        "definitions with unique/required tags in the content (not in the property text) and the reading of the "
        "placeholder rule for a non-'/#' name with two or more '#' (statement ambiguous: generated, only totality and "
        "frame are checked; observed: '(Definition/A, (Label/#, Speed/#))' is accepted)",
        "DefinitionDict(list_of_strings).issues: the constructor drops the issues returned by check_for_definitions; "
        "reporting is observed at check_for_definitions' return value and at .issues of merged dictionaries",
        "annotations with more than two Def uses or depth > 3; operation sequences longer than 4",
        "def_expand_gather / process_def_expands (reconstruction of definitions from Def-expand groups)",
        "value/unit validity of the plugged value (C11)",
        "a definition written in one namespace and used through a Def tag of another one (which prefix the expansion "
        "carries is not stated); namespace prefixes other than 'ts:' / 'sc:'; duplicate detection under a namespace",
        "parent pointers are checked on the original and on one HedString.copy() of it (copyops part); copies of copies, "
        "_original_children contents and get_as_original() are only observed through str() and later operations",
    ]
    w.assumptions += [
        "sibling order inside an expanded content group is not significant (the property compares 'up to sibling order'); "
        "outside Def-expand groups the order and text of str() must be exactly preserved",
        "str(HedString) is the observation; tag prefixes Def/ and Def-expand/ are case-normalised by str()",
        "pre-expanded annotations of the ops part are the reparsed output of the real expand_defs (relational)",
    ]


def replay(w: Workload, case: dict):
    inp = case["input"]
    part = inp.get("part")
    schema()
    use_config(inp.get("config") if part != "duplicate" else "plain")
    def_dict()
    if part == "accept":
        check_accept(w, inp)
    elif part == "spec_defs":
        check_spec_defs(w)
    elif part == "duplicate":
        check_duplicate(w, inp)
    elif part == "ops":
        fl = []
        signal.signal(signal.SIGALRM, _alarm)
        signal.alarm(30)
        try:
            run_sequence(inp["annotation"], inp["family"], inp["valid"], tuple(inp["ops"]), fl)
        except _Timeout:
            fl.append(("C09.ops.terminates", len(inp["ops"]), "timeout", "termination"))
        finally:
            signal.alarm(0)
        for clause, step, obs, exp in fl:
            d = dict(inp)
            d["failed_at_step"] = step
            w.fail(clause, d, observed=obs, expected=exp)
    elif part == "copyops":
        fl = []
        signal.signal(signal.SIGALRM, _alarm)
        signal.alarm(30)
        try:
            run_copy_sequence(inp["annotation"], inp["family"], inp["valid"], tuple(inp["prefix"]),
                              tuple(tuple(x) for x in inp["suffix"]), fl)
        except _Timeout:
            fl.append(("C09.ops.terminates", len(inp["ops"]), "timeout", "termination"))
        finally:
            signal.alarm(0)
        for clause, step, obs, exp in fl:
            d = dict(inp)
            d["failed_at_step"] = step
            w.fail(clause, d, observed=obs, expected=exp)
    elif part == "defexpand":
        check_defexpand(w, inp, own_expansion_texts())
    elif part == "column":
        check_column(w, inp["texts"])


if __name__ == "__main__":
    main(run, "C09", replay)
