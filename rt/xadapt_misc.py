"""Adapters / proxies (part `misc`) between the contract vocabulary and the real objects, for the concrete cross-check of rt/conc.py.

Conventions used by every adapter here
* keys of the case dict that start with '_' are labels for the report (`_case`), never passed to the function;
* all entries run with "share": True (the clause namespace sees the live objects, i.e. the post-state); a mutated parameter gets its
  pre-state from the adapter through args["__pre__"] = {param: snapshot} (read by old(...));
* ghost variables of a contract are injected as extra keys of args (they land in the clause namespace).
Bounded cross-check only -- never counted as proof."""
from rt.adapters import AttrDict, _wrap, _Obj, _recording_format_error

SUFFIX = "  Problem spans string indexes: "


def _clean(args):
    return {k: v for k, v in args.items() if not k.startswith("_")}


def plain(fn, args):
    return fn(**_clean(args))


def issues(fn, args):
    """the function returns issue dicts: readable as objects (Issue model), with the internal kind recorded"""
    with _recording_format_error():
        return _wrap(fn(**_clean(args)))


# ----------------------------------------------------------------------------------------------------------------- C10
def onset_handler(fn, args):
    """OnsetValidator._handle_onset_or_offset mutates self._onsets: old(self._onsets) is the table at entry"""
    a = _clean(args)
    args["__pre__"] = {"self": _Obj(_onsets=dict(a["self"]._onsets))}
    with _recording_format_error():
        return _wrap(fn(**a))


# ----------------------------------------------------------------------------------------------------------------- C12
class _Absent:
    def __repr__(self):
        return "<absent>"


ABSENT = _Absent()


class IssueView(AttrDict):
    """a real issue dict read through the Issue class model: keys as fields, has_<key>, and the ghost fields span_start / span_end =
    where ErrorHandler._get_tag_span_to_error_object (the trusted helper the contract names) locates the issue's tag"""

    MODEL_FIELDS = ("code", "severity", "message", "kind", "source_tag", "index_in_tag", "index_in_tag_end", "char_index", "msg_char_index",
                    "char_index_end", "source_string", "def_name", "tag_text")

    def __getattr__(self, k):
        try:
            return AttrDict.__getattr__(self, k)
        except AttributeError:
            if k in IssueView.MODEL_FIELDS:
                # in the model every field always has a value and has_<field> says whether the key is there; the value of a missing
                # key is this token: equal to itself only (so "untouched" holds iff the key is missing before and after), no arithmetic
                return ABSENT
            raise

    def _span(self):
        from hed.errors.error_reporter import ErrorHandler
        return ErrorHandler._get_tag_span_to_error_object(self)

    @property
    def span_start(self):
        return self._span()[0]

    @property
    def span_end(self):
        return self._span()[1]

    def snapshot(self):
        return IssueView(self)          # shallow: the source tag / string objects are the same, the scalar fields are frozen

    def __repr__(self):
        d = {k: (str(v) if k in ("source_tag", "ec_HedString") else v) for k, v in self.items()}
        return "Issue" + repr(d)


def decorate_one(fn, args):
    """ErrorHandler._update_error_with_char_pos(error_object): pre-state snapshot for old(...); ghost suffix_added = how many more
    times the location suffix occurs in the message after the call"""
    eo = args["error_object"]
    if not isinstance(eo, IssueView) and isinstance(eo, dict):       # (a replayed plain dict)
        eo = args["error_object"] = IssueView(eo)
    args["__pre__"] = {"error_object": eo.snapshot()}
    before = eo["message"].count(SUFFIX)
    try:
        return fn(eo)
    finally:
        args["suffix_added"] = eo["message"].count(SUFFIX) - before


def decorate_list(fn, args):
    """ErrorHandler.add_context_and_filter(self, issues) edits the list in place: old(issues) = the list at entry (same issue objects)"""
    lst = args["issues"]
    lst[:] = [x if isinstance(x, IssueView) or not isinstance(x, dict) else IssueView(x) for x in lst]
    args["__pre__"] = {"issues": IdList(lst)}
    try:
        return fn(args["self"], lst)
    finally:
        # `x in issues`: the very issue object (identity), as in the model; a plain dict the code might put there is shown as an Issue too
        args["issues"] = IdList(x if isinstance(x, AttrDict) else IssueView(x) for x in lst)


# ----------------------------------------------------------------------------------------------------------------- identity membership
class IdList(list):
    """a real list read the way the class models read it: `x in lst` on object references is membership by IDENTITY (in the model `==`
    between HedTag / Issue references is identity; CPython's list.__contains__ would fall back to the structural __eq__ of the real class)"""

    def __contains__(self, x):
        return any(y is x for y in self)


class SearchResultView:
    """a real SearchResult whose tag list answers `in` by identity; everything else is forwarded"""

    def __init__(self, real):
        self.__dict__["_real"] = real

    @property
    def tags(self):
        return IdList(self._real.tags)

    def __getattr__(self, k):
        return getattr(self._real, k)

    def __repr__(self):
        return f"SearchResult({self._real.group}, {[str(t) for t in self._real.tags]})"


def search_result(fn, args):
    """SearchResult methods: operands and result are shown to the clauses as SearchResultView (identity membership of tags)"""
    from hed.models.query_util import SearchResult
    a = _clean(args)
    try:
        r = fn(**a)
    finally:
        for k, v in a.items():
            if isinstance(v, SearchResult):
                args[k] = SearchResultView(v)
            elif isinstance(v, list):
                args[k] = IdList(v)
    return SearchResultView(r) if isinstance(r, SearchResult) else r
