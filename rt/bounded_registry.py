"""contract id -> descriptors of the bounded concrete search (see pyvc.contract.apply_bounded_registry).  Pure data."""
BOUNDED = {
}

# ---- part: tags (rt/xgens_tags.py, rt/xadapt_tags.py, views in rt/views.py) -- C01 per-tag rules, C03 resolution, C04.tag_eq, C13
BOUNDED.update({
    "C04.tag_eq": {"cases": "rt.xgens_tags.tag_eq_cases", "adapter": "rt.xadapt_tags.tag_eq", "share": True},
    "C13.set_schema_prefix": {"cases": "rt.xgens_tags.set_prefix_cases", "adapter": "rt.xadapt_tags.set_prefix", "share": True},
    "C01.check_tag_requires_child": {"cases": "rt.xgens_tags.one_tag_cases", "adapter": "rt.xadapt_tags.tag_rule", "share": True},
    "C01.check_tag_exists_in_schema": {"cases": "rt.xgens_tags.one_tag_cases", "adapter": "rt.xadapt_tags.tag_rule", "share": True},
    "C01.check_tag_is_deprecated": {"cases": "rt.xgens_tags.deprecated_cases", "adapter": "rt.xadapt_tags.tag_validator_method", "share": True},
    "C01.check_for_placeholder": {"cases": "rt.xgens_tags.placeholder_cases", "adapter": "rt.xadapt_tags.tag_rule", "share": True},
    "C01.check_invalid_chars": {"cases": "rt.xgens_tags.invalid_chars_cases", "adapter": "rt.xadapt_tags.invalid_chars", "share": True},
    "C01.check_tag_level_issue": {"cases": "rt.xgens_tags.tag_level_cases", "adapter": "rt.xadapt_tags.tag_level", "share": True},
    "C01.run_individual_tag_validators": {"cases": "rt.xgens_tags.individual_cases", "adapter": "rt.xadapt_tags.tag_validator_method", "share": True},
    "C03.find_tag_entry": {"cases": "rt.xgens_tags.find_tag_entry_cases", "adapter": "rt.xadapt_tags.find_entry", "share": True},
    "C03.find_tag_subfunction": {"cases": "rt.xgens_tags.find_sub_cases", "adapter": "rt.xadapt_tags.find_sub", "share": True},
    "C13.check_invalid_prefix_issues": {"cases": "rt.xgens_tags.prefix_cases", "adapter": "rt.xadapt_tags.tag_rule", "share": True},
    "C13.schema_for_namespace": {"cases": "rt.xgens_tags.schema_for_namespace_cases", "adapter": "rt.xadapt_tags.method", "share": True},
    "C13.group_find_tag_entry": {"cases": "rt.xgens_tags.group_find_cases", "adapter": "rt.xadapt_tags.find_entry", "share": True},
})

# ---- part: misc (rt/xgens_misc.py, rt/xadapt_misc.py, views in rt/views.py) -- C07 span, C09 def contents, C10, C11, C12 decoration, C14 units, C15, C16
# (C14.conversion_factor is deliberately absent: 'nan' mismatch between contract and code, see rt/xgens_misc.py:FACTOR_TEXTS_NAN)
BOUNDED.update({
    "C11.get_conversion_factor": {"cases": "rt.xgens_misc.conversion_factor_lookup_cases", "adapter": "rt.xadapt_misc.plain", "share": True},
    "C11.get_derivative_unit_entry": {"cases": "rt.xgens_misc.derivative_unit_entry_cases", "adapter": "rt.xadapt_misc.plain", "share": True},
    "C11.get_tag_units_portion": {"cases": "rt.xgens_misc.tag_units_portion_cases", "adapter": "rt.xadapt_misc.plain", "share": True},
    "C11.value_as_default_unit": {"cases": "rt.xgens_misc.default_unit_cases", "adapter": "rt.xadapt_misc.plain", "share": True},
    "C14.unit_exists": {"cases": "rt.xgens_misc.unit_exists_cases", "adapter": "rt.xadapt_misc.issues", "share": True},
    "C15.has_same_tags": {"cases": "rt.xgens_misc.search_result_pairs", "adapter": "rt.xadapt_misc.search_result", "share": True},
    "C15.merge_and_result": {"cases": "rt.xgens_misc.search_result_pairs", "adapter": "rt.xadapt_misc.search_result", "share": True},
    "C15.search_result_init": {"cases": "rt.xgens_misc.search_result_init_cases", "adapter": "rt.xadapt_misc.search_result", "share": True},
    "C12.error_handler_init": {"cases": "rt.xgens_misc.error_handler_init_cases", "adapter": "rt.xadapt_misc.plain", "share": True},
    "C16.is_sidecar_for": {"cases": "rt.xgens_misc.sidecar_for_cases", "adapter": "rt.xadapt_misc.plain", "share": True},
    "C16.get_sidecar_for_obj": {"cases": "rt.xgens_misc.sidecar_dir_cases", "adapter": "rt.xadapt_misc.plain", "share": True},
    "C10.handle_onset_or_offset": {"cases": "rt.xgens_misc.onset_handler_cases", "adapter": "rt.xadapt_misc.onset_handler", "share": True},
    "C10.validate_temporal_relations": {"cases": "rt.xgens_misc.temporal_relation_cases", "adapter": "rt.xadapt_misc.issues", "share": True},
    "C12.update_error_with_char_pos": {"cases": "rt.xgens_misc.issue_decoration_cases", "adapter": "rt.xadapt_misc.decorate_one", "share": True},
    "C12.add_context_and_filter": {"cases": "rt.xgens_misc.issue_list_cases", "adapter": "rt.xadapt_misc.decorate_list", "share": True},
    "C09.validate_def_contents": {"cases": "rt.xgens_misc.def_content_cases", "adapter": "rt.xadapt_misc.issues", "share": True},
    "C07.get_org_span_from_strings": {"cases": "rt.xgens_misc.org_span_cases", "adapter": "rt.xadapt_misc.plain", "share": True},
})

BOUNDED.update({
    # concrete side of the ownership contract of HedTag.__deepcopy__ (real tags from parsed / expanded annotations; identity checks in the adapter)
    "C09.tag_deepcopy": {"cases": "rt.gens.tag_deepcopy_cases", "adapter": "rt.adapters.tag_deepcopy", "share": True},
})

BOUNDED.update({
    # includes NaN / inf / overflow texts (the symbolic model's reals have no NaN: this search is the only check of that corner)
    "C14.conversion_factor": {"cases": "rt.xgens_misc.conversion_factor_cases_with_nan", "adapter": "rt.xadapt_misc.issues", "share": True},
})
