"""contract id -> descriptors of the bounded concrete search (see pyvc.contract.apply_bounded_registry).  Pure data."""
BOUNDED = {
}
