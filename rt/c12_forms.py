"""C12 helper: annotations whose faulty tag is written in SHORT, LONG, PARTIALLY LONG and MIXED-CASE form (and with a
namespace prefix), and the independent reading of "the message quotes the fragment the offsets select".

Every tag of HED has one long form  Root/.../Parent/Name  and may be written with any suffix of that path (the short form
is the last node alone).  The offsets of an issue (index_in_tag, char_index) are relative to the text AS WRITTEN, so a
message that quotes a fragment must cut it from the text as written too - whatever form the annotator chose.
The long paths below are hand-written (8.3.0); `preconditions` confirms with the real code that every suffix of every path
is a valid spelling, so that the only fault of a generated annotation is the tail appended to it.
"""

# short name -> (long path, kind of tail it takes, a valid tail)
PATHS = {
    "Label": ("Property/Informational-property/Label", "name_value", "/abc"),
    "Building": ("Item/Object/Man-made-object/Building", "extension", ""),
    "Red": ("Property/Sensory-property/Sensory-attribute/Visual-attribute/Color/CSS-color/Red-color/Red", "extension", ""),
    "Weight": ("Property/Data-property/Data-value/Physical-value/Weight", "numeric_value", "/3 kg"),
    "Object": ("Item/Object", "extension", ""),
}

# faulty tails: each draws at least one issue that names a fragment of the tag (sub-tag span)
TAILS = {
    "name_value": ["/a$b", "/a b@c", "/é x", "/#", "/ab!", "/"],
    "extension": ["/Hut!", "/Blue", "/", "//Hut", "/ Hut", "/Hut/Small", "/Zork", "/Zork/Blah", "/Hu$t/Ab@c", "/Zork/"],
    "numeric_value": ["/3$ kg", "/#", "/3 kg/"],
}

# faults inside the path itself (a mistyped node in front of / between valid nodes)
BROKEN_PATHS = ["Itemx/Object", "Item/Objectx/Man-made-object", "Item/Objectx/Man-made-object/Building",
                "Attribute/Informational-property/Label/x", "Property/Informational-propertyx/Label/x",
                "Item//Object/Man-made-object", "Item/Object/ Man-made-object/Building", "Item/Object/Man-made-object /Building",
                "Property/Informationalx/Label/a$b"]

CONTEXTS = ["%s", "Green, %s", "(Green, (%s))", "  %s ", "%s, Blue/Apple"]


def suffix_forms(path):
    """all spellings of a tag: every suffix of its long path (first = long form, last = short form)"""
    parts = path.split("/")
    return ["/".join(parts[k:]) for k in range(len(parts))]


def case_variants(form, thorough):
    """(label, text): the form as declared, all lower case, node-wise alternating case; thorough: also upper case"""
    nodes = form.split("/")
    alt = "/".join(n.upper() if k % 2 else n.lower() for k, n in enumerate(nodes))
    out = [("declared", form), ("lower", form.lower()), ("alternating", alt)]
    if thorough:
        out.append(("upper", form.upper()))
    seen, res = set(), []
    for label, f in out:
        if f not in seen:
            seen.add(f)
            res.append((label, f))
    return res


def form_kind(form, path):
    if form == path:
        return "long"
    if "/" not in form:
        return "short"
    return "partial"


def atoms(thorough):
    """-> list of dict(text, short, form: long|partial|short, case: declared|lower|alternating|upper, tail)"""
    out = []
    for short, (path, kind, _valid) in PATHS.items():
        for form in suffix_forms(path):
            fk = form_kind(form, path)
            for tail in TAILS[kind]:
                for label, cv in case_variants(form, thorough):
                    out.append({"text": cv + tail, "short": short, "form": fk, "case": label, "tail": tail})
    for b in BROKEN_PATHS:
        out.append({"text": b, "short": None, "form": "broken_path", "case": "declared", "tail": ""})
        out.append({"text": b.lower(), "short": None, "form": "broken_path", "case": "lower", "tail": ""})
    return out


def with_namespace(text, ns):
    """prefix every tag of an annotation with the namespace (own tokenizer: tags are the runs between , ( ) )"""
    out = []
    cur = ""
    for ch in text + ",":
        if ch in ",()":
            if cur.strip():
                lead = len(cur) - len(cur.lstrip(" "))
                cur = cur[:lead] + ns + cur[lead:]
            out.append(cur)
            out.append(ch)
            cur = ""
        else:
            cur += ch
    return "".join(out)[:-1]


def valid_spellings():
    """(text) of every suffix form with its valid tail: must validate without error (generator precondition)"""
    out = []
    for short, (path, kind, valid) in PATHS.items():
        for form in suffix_forms(path):
            out.append(form + valid)
    return out


# ------------------------------------------------------------------------------------------------------------------
# the reading of "the message quotes the located fragment"
# ------------------------------------------------------------------------------------------------------------------
def quoting_patterns(fragment, tag_text):
    """the ways a message can quote a fragment of a tag next to the tag as written (the wordings of the tag-level rules:
    'X' in T ...; ... 'X' in tag 'T' ...; In 'T', 'X' ...; and the whole tag 'T' when the fragment is the whole tag)"""
    pats = ["'%s' in %s" % (fragment, tag_text), "'%s' in tag '%s'" % (fragment, tag_text),
            "In '%s', '%s'" % (tag_text, fragment)]
    if fragment == tag_text:
        pats += ["'%s'" % tag_text, '"%s"' % tag_text]
    return pats


def quotes_fragment(message, fragment, tag_text):
    """None: the message does not name the tag as written (not judged here); else whether it quotes the fragment"""
    if tag_text not in message:
        return None
    return any(p in message for p in quoting_patterns(fragment, tag_text))
