"""Structure observations on HedString/HedGroup/HedTag trees for the C09 workload and the C09.tag_deepcopy adapter.

Nothing here decides what the *text* of an annotation should be (that is the tree model of rt/c09.py); these helpers only
look at object identity: which node objects belong to a tree, who is whose parent, and whether two trees share a node.
A "tree" is everything reachable from a root through children, _original_children, _parent and a tag's cached expansion
(_expandable, a HedGroup holding the tag itself plus a copy of the definition content)."""


def _classes():
    from hed.models.hed_group import HedGroup
    from hed.models.hed_tag import HedTag
    return HedGroup, HedTag


def reach(*roots):
    """{id: node} of every HedTag/HedGroup reachable from the roots"""
    HedGroup, HedTag = _classes()
    seen = {}
    stack = list(roots)
    while stack:
        n = stack.pop()
        if n is None or id(n) in seen:
            continue
        if isinstance(n, HedTag):
            seen[id(n)] = n
            stack.append(n._parent)
            stack.append(n._expandable)
        elif isinstance(n, HedGroup):
            seen[id(n)] = n
            stack.extend(n.children)
            if n._original_children is not n.children:
                stack.extend(n._original_children)
            stack.append(n._parent)
    return seen


def describe(node):
    HedGroup, HedTag = _classes()
    try:
        text = str(node)
    except RecursionError:
        text = "<cyclic>"
    return ("tag " if isinstance(node, HedTag) else "group ") + text[:80]


def shared_nodes(root_a, root_b, limit=4):
    """descriptions of nodes that belong to both trees ([] = identity-disjoint)"""
    ra = reach(root_a)
    rb = reach(root_b)
    common = [ra[i] for i in ra if i in rb]
    return [describe(n) for n in common[:limit]]


def visible(root):
    """nodes of the visible tree (children only), pre-order, root first"""
    HedGroup, HedTag = _classes()
    out = []
    stack = [root]
    guard = 0
    while stack:
        n = stack.pop()
        out.append(n)
        guard += 1
        if guard > 5000:
            raise RecursionError("cyclic tree")
        if isinstance(n, HedGroup):
            stack.extend(reversed(n.children))
    return out


def parent_faults(root, limit=3):
    """children of the visible tree whose _parent is not their container; also inside cached expansions that are not
    currently part of the tree (there only the content, the tag itself legitimately keeps its real parent)"""
    HedGroup, HedTag = _classes()
    faults = []
    if root._parent is not None:
        faults.append("root has a parent: " + describe(root._parent))
    for n in visible(root):
        if isinstance(n, HedGroup):
            for c in n.children:
                if c._parent is not n:
                    faults.append(f"{describe(c)}: _parent is " +
                                  ("None" if c._parent is None else describe(c._parent)) + f", container is {describe(n)}")
        else:
            exp = n._expandable
            if exp is not None and n._parent is not exp:
                for sub in exp.children:
                    if sub is n:
                        continue
                    if sub._parent is not exp:
                        faults.append(f"cached expansion of {describe(n)}: content {describe(sub)} has another parent")
                    else:
                        for g in visible(sub):
                            if isinstance(g, HedGroup):
                                for c in g.children:
                                    if c._parent is not g:
                                        faults.append(f"cached expansion of {describe(n)}: {describe(c)} has another parent")
        if len(faults) >= limit:
            break
    return faults[:limit]


def _pid(n):
    return None if n._parent is None else id(n._parent)


def snapshot(root):
    """identity + text picture of a tree: equal snapshots <=> same node objects, same parents, same tag texts,
    same expansion flags, same cached expansions (object, parent, text, node objects)"""
    HedGroup, HedTag = _classes()
    out = []
    for n in visible(root):
        if isinstance(n, HedGroup):
            out.append(("G", id(n), _pid(n), len(n.children)))
        else:
            exp = n._expandable
            if exp is None:
                cache = None
            else:
                cache = (id(exp), _pid(exp), _safe_str(exp), tuple(id(x) for x in visible(exp)))
            out.append(("T", id(n), _pid(n), _safe_str(n), bool(n._expanded), cache))
    return out


def _safe_str(n):
    try:
        return str(n)
    except RecursionError:
        return "<cyclic>"


def snapshot_diff(before, after):
    """short description of the first difference"""
    if len(before) != len(after):
        return f"number of nodes {len(before)} -> {len(after)}"
    for i, (b, a) in enumerate(zip(before, after)):
        if b != a:
            what = []
            names = ("kind", "object", "parent", "children") if b[0] == "G" else \
                ("kind", "object", "parent", "text", "expanded", "cached expansion")
            for nm, x, y in zip(names, b, a):
                if x != y:
                    if nm in ("text", "expanded", "children"):
                        what.append(f"{nm}: {x!r} -> {y!r}")
                    elif nm == "cached expansion":
                        if x is None or y is None:
                            what.append(f"cached expansion {'appeared' if x is None else 'disappeared'}")
                        else:
                            sub = [k for k, u, v in zip(("object", "parent", "text", "nodes"), x, y) if u != v]
                            what.append("cached expansion changed in " + "/".join(sub) +
                                        (f" ({x[2]!r} -> {y[2]!r})" if x[2] != y[2] else ""))
                    else:
                        what.append(f"{nm} object changed")
            txt = b[3] if b[0] == "T" else "group"
            return f"node #{i} ({txt}): " + "; ".join(what)
    return None
