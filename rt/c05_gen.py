"""Generator of schema edits for the C05 workload.

An edited schema is produced by editing the XML text of a bundled schema with xml.etree (never with the writers of
/repo) and loading the result with the real loader.  Every edit is drawn from random.Random(case_seed), so a case is
replayable from (schema version, file form, case_seed).  Each op returns a *spec* of what the loaded schema must then
contain (checked by clause C05.edit.applied - this pins the reader against the generator, so that a symmetric
writer/reader omission cannot hide).

Generated material stays inside what the schema rules allow (names over the name class, descriptions over the
text class of the schema generation, references to existing tags/classes, attributes declared for the section), so the
edited schema has no compliance issue that its base does not have.
"""
import random
from xml.etree import ElementTree as ET

NONASCII_WORDS = ["Größe", "café", "naïve", "日本語", "Ελληνικά", "piñata", "façade", "œuvre", "Ångström"]
WORDS = ["alpha", "Beta", "gamma", "item", "of", "the", "value", "A", "x1", "42", "3.5", "rate", "per", "Event", "unit"]
PUNCT_NEW = list("!\"#$%&'()*+-./:;<=>?@\\^_`|~,")      # printable ASCII minus []{}  (comma allowed in descriptions)
PUNCT_OLD = list("-_:;,./()+^")                         # legacy description class (plus blank, alphanumerics)


class Inv:
    """static facts about a base schema needed to draw legal edits (read off the loaded schema object once)"""
    def __init__(self, s):
        self.gen83 = bool(s.schema_83_props)
        self.library = s.library
        self.partnered = bool(s.with_standard)
        self.shorts = {e.short_tag_name.casefold() for e in s.tags.values()}
        self.ref_tags = sorted(e.short_tag_name for e in s.tags.values() if not e.name.endswith("#")
                               and "deprecatedFrom" not in e.attributes)
        self.base_tags = sorted(e.short_tag_name for e in s.tags.values()
                                if not e.name.endswith("#") and "inLibrary" not in e.attributes
                                and "deprecatedFrom" not in e.inherited_attributes and e.takes_value_child_entry is None)
        self.base_tag_long = {e.short_tag_name: e.name for e in s.tags.values()}
        referenced = set()
        for e in s.tags.values():
            for a in ("suggestedTag", "relatedTag", "rooted", "isPartOf"):
                v = e.attributes.get(a)
                if isinstance(v, str):
                    referenced.update(x.casefold() for x in v.split(","))
        self.referenced = referenced
        self.unit_classes = sorted(c.name for c in s.unit_classes.values() if "deprecatedFrom" not in c.attributes)
        self.std_unit_classes = {c.name for c in s.unit_classes.values() if "inLibrary" not in c.attributes}
        self.value_classes = sorted(c.name for c in s.value_classes.values() if "deprecatedFrom" not in c.attributes)
        self.other_names = {sec: {e.name for e in s[key].values()} for sec, key in _keys().items()}
        self.default_units = {c.attributes.get("defaultUnits") for c in s.unit_classes.values()}
        # top-level standard nodes without extensionAllowed (their subtree is kept in file order by the schema object)
        self.plain_roots = {e.short_tag_name for e in s.tags.values() if "/" not in e.name and "extensionAllowed" not in e.attributes}
        adefs = {a.name: set(a.attributes) for a in s.attributes.values()}
        self.adefs = adefs

        def declared(sec):
            out = set()
            for n, props in adefs.items():
                if "deprecatedFrom" in props:
                    continue
                if self.gen83:
                    dom = {"tags": "tagDomain", "units": "unitDomain", "unitClasses": "unitClassDomain",
                           "unitModifiers": "unitModifierDomain", "valueClasses": "valueClassDomain"}[sec]
                    if dom in props or "elementDomain" in props:
                        out.add(n)
                else:
                    marks = {"units": "unitProperty", "unitClasses": "unitClassProperty",
                             "unitModifiers": "unitModifierProperty", "valueClasses": "valueClassProperty"}
                    if sec == "tags":
                        if not any(m in props for m in marks.values()):
                            out.add(n)
                    elif marks[sec] in props or "elementProperty" in props:
                        out.add(n)
            return out
        is_bool = (lambda n: "boolRange" in adefs[n]) if self.gen83 else (lambda n: "boolProperty" in adefs[n])
        self.tag_bool = sorted(n for n in declared("tags") if is_bool(n) and n not in ("takesValue",))
        self.tag_declared = declared("tags")
        self.unit_declared = declared("units")
        self.mod_declared = declared("unitModifiers")
        self.vc_declared = declared("valueClasses")
        self.uc_declared = declared("unitClasses")
        self.bool_prop = "boolRange" if self.gen83 else "boolProperty"
        self.tag_dom_prop = "tagDomain" if self.gen83 else None


def _keys():
    from hed.schema.hed_schema_constants import HedSectionKey as K
    return {"units": K.Units, "unitClasses": K.UnitClasses, "unitModifiers": K.UnitModifiers,
            "valueClasses": K.ValueClasses, "attributes": K.Attributes, "properties": K.Properties}


# -------------------------------------------------------------------------------------------- text material

def gen_description(rng, gen83, shape="plain"):
    """a description over the allowed class of the schema generation; never blank at either end, never starting with a
    double quote, never containing a literal nowiki tag (those shapes are exercised by the narrow defect clauses)"""
    n = rng.randint(1, 9)
    parts = []
    for _ in range(n):
        r = rng.random()
        if r < 0.55:
            parts.append(rng.choice(WORDS))
        elif r < 0.70:
            parts.append(rng.choice(NONASCII_WORDS))
        elif r < 0.85:
            p = rng.choice(PUNCT_NEW if gen83 else PUNCT_OLD)
            parts.append(rng.choice(WORDS) + p + (rng.choice(WORDS) if rng.random() < 0.6 else ""))
        else:
            if gen83:
                parts.append(rng.choice(['"%s"' % rng.choice(WORDS), "a=b", "x = y", "it's", "<b>", "1 < 2 & 3 > 2", "50%", "C:\\dir",
                                         "key=\"v\"", "(see: p. 3)", "a,b,c", "e.g., this", "#1", "* star", "''q''", "a \\n b"]))
            else:
                parts.append(rng.choice(["(see: p. 3)", "a,b,c", "e.g., this", "1/2", "x+y", "a_b", "10^3", "a; b"]))
    text = " ".join(parts).strip()
    if rng.random() < 0.15:
        text = text.replace(" ", "  ", 1)
    while text.startswith('"') or not text:
        text = "Q" + text
    for bad in ("<nowiki>", "</nowiki>"):
        text = text.replace(bad, "nowiki")
    return text


def gen_name(rng, inv, taken, kind="tag"):
    """a fresh name over the name class: tags start with an upper-case letter or digit"""
    for _ in range(100):
        if kind == "tag":
            first = rng.choice("ZQXW789")
            body_chars = "abcdefghijklmnopqrstuvwxyzABCDEFGHIJKLMNOPQRSTUVWXYZ0123456789-" + ("_." if inv.gen83 else "")
            body = "".join(rng.choice(body_chars) for _ in range(rng.randint(2, 10)))
            if rng.random() < 0.2:
                body += rng.choice(["é", "ß", "ø", "日本", "Ω"])
            if rng.random() < 0.15:
                body += rng.choice(["-item", "-2", "1"])
            name = first + body
        else:
            name = "zq" + "".join(rng.choice("abcdefghijklmnopqrstuvwxyz") for _ in range(rng.randint(2, 7)))
            if kind == "class":
                name += rng.choice(["Units", "Class", "Kind"])
            if kind == "symbol":
                name = rng.choice("ZQ") + name[2:4]
        if name.casefold() not in taken and not name.endswith((".", "-", "_")):
            taken.add(name.casefold())
            return name
    raise RuntimeError("no fresh name")


# -------------------------------------------------------------------------------------------- XML helpers

def _name(el):
    return el.find("name").text


def _attrs(el, tag="attribute"):
    out = {}
    for a in el.findall(tag):
        vals = [v.text for v in a.findall("value")]
        out[_name(a)] = ",".join(vals) if vals else True
    return out


def _set_attr(el, name, value, tag="attribute"):
    for a in list(el.findall(tag)):
        if _name(a) == name:
            el.remove(a)
    if value is None:
        return
    a = ET.SubElement(el, tag)
    ET.SubElement(a, "name").text = name
    if value is not True:
        for v in value.split(","):
            ET.SubElement(a, "value").text = v


def _set_desc(el, text):
    d = el.find("description")
    if text is None:
        if d is not None:
            el.remove(d)
        return
    if d is None:
        d = ET.Element("description")
        el.insert(1, d)         # after <name>
    d.text = text


def _new(parent, tag, name, desc=None, attrs=None, attr_tag="attribute", index=None):
    el = ET.Element(tag)
    ET.SubElement(el, "name").text = name
    if desc:
        ET.SubElement(el, "description").text = desc
    for k, v in (attrs or {}).items():
        _set_attr(el, k, v, attr_tag)
    if index is None:
        parent.append(el)
    else:
        parent.insert(index, el)
    return el


class Editor:
    """applies 1..3 random ops to the XML tree of a base schema"""
    def __init__(self, root, inv, form, rng):
        self.root, self.inv, self.form, self.rng = root, inv, form, rng
        self.lib_attr = {"inLibrary": inv.library} if (inv.partnered and form == "merged") else {}
        self.lib_only = inv.partnered           # in partnered schemas only the library's own entries may be edited
        self.taken = set(inv.shorts)
        self.taken_other = {n.casefold() for s in inv.other_names.values() for n in s}
        self.specs = []
        self.ops = []
        self.removed = set()
        self.used_refs = set()
        self.schema_el = root.find("schema")
        self._index_nodes()

    # ---- bookkeeping
    def _index_nodes(self):
        self.nodes = []         # (element, parent element, short name, is_placeholder)
        self.parent = {}

        def walk(el):
            for n in el.findall("node"):
                self.parent[n] = el
                self.nodes.append(n)
                walk(n)
        walk(self.schema_el)

    def _editable(self, el):
        if not self.lib_only or self.form == "unmerged":
            return True
        return "inLibrary" in _attrs(el)

    def _has_placeholder(self, el):
        return any(_name(c) == "#" for c in el.findall("node"))

    def _deprecated(self, el):
        while el is not None and el.tag == "node":
            if "deprecatedFrom" in _attrs(el):
                return True
            el = self.parent.get(el)
        return False

    def _parents(self):
        return [n for n in self.nodes if _name(n) != "#" and self._editable(n) and not self._has_placeholder(n)
                and not self._deprecated(n)]

    def _expect_attrs(self, attrs):
        out = dict(attrs)
        if self.inv.partnered or (self.inv.library and not self.inv.partnered):
            out["inLibrary"] = self.inv.library
        return out

    def _tag_attrs(self, n_max=3):
        """0..3 attributes that are declared for nodes, with legal values (incl. multi-valued ones)"""
        rng, inv = self.rng, self.inv
        out = {}
        k = rng.choice([0, 1, 1, 2, 2, 3])
        pool = list(inv.tag_bool)
        for a in ("suggestedTag", "relatedTag"):
            if a in inv.tag_declared:
                pool += [a, a]
        rng.shuffle(pool)
        for a in pool[:min(k, n_max)]:
            if a in ("suggestedTag", "relatedTag"):
                m = rng.choice([1, 2, 2, 3, 4])
                out[a] = self._refs(m)
            else:
                out[a] = True
        return out

    def _refs(self, m):
        pool = [t for t in self.inv.ref_tags if t.casefold() not in self.removed]
        out = self.rng.sample(pool, min(m, len(pool)))
        self.used_refs.update(t.casefold() for t in out)
        return ",".join(out)

    def _is_own(self, el, sec):
        """may this element of the file be edited (in a partnered schema: only the library's own entries)"""
        if not self.lib_only:
            return True
        atag = "property" if sec in ("attributes", "properties") else "attribute"
        if self.form == "merged":
            return "inLibrary" in _attrs(el, atag)
        if sec == "unitClasses":
            return any(c.tag not in ("name", "unit") for c in el)       # not a name-only wrapper of a standard class
        return True

    def _desc(self, p_none=0.25):
        if self.rng.random() < p_none:
            return None
        return gen_description(self.rng, self.inv.gen83)

    def _section(self, cont, create_after=None):
        el = self.root.find(cont)
        if el is None:
            el = ET.Element(cont)
            order = ["prologue", "schema", "unitClassDefinitions", "unitModifierDefinitions", "valueClassDefinitions",
                     "schemaAttributeDefinitions", "propertyDefinitions", "epilogue"]
            pos = 0
            for i, child in enumerate(list(self.root)):
                if child.tag in order and order.index(child.tag) < order.index(cont):
                    pos = i + 1
            self.root.insert(pos, el)
        return el

    # ---- ops on nodes
    def op_add_node(self):
        parents = self._parents()
        top = not parents or (not self.lib_only and self.rng.random() < 0.1) or \
            (self.lib_only and self.form == "unmerged" and self.rng.random() < 0.15)
        name = gen_name(self.rng, self.inv, self.taken)
        attrs, desc = self._tag_attrs(), self._desc()
        if top:
            par, pshort = self.schema_el, None
        else:
            par = self.rng.choice(parents)
            pshort = _name(par)
        el = _new(par, "node", name, desc, dict(attrs, **self.lib_attr))
        self.parent[el] = par
        self.nodes.append(el)
        self.specs.append({"kind": "tag", "short": name, "parent": pshort, "attrs": self._expect_attrs(attrs), "desc": desc})
        self.ops.append("add node %s under %s attrs=%s desc=%r" % (name, pshort, attrs, desc))
        return el

    def op_add_value_node(self):
        el = self.op_add_node()
        inv, rng = self.inv, self.rng
        attrs = {"takesValue": True}
        if inv.value_classes and rng.random() < 0.85:
            attrs["valueClass"] = ",".join(rng.sample(inv.value_classes, rng.choice([1, 1, 2, min(3, len(inv.value_classes))])))
        if inv.unit_classes and rng.random() < 0.5:
            attrs["unitClass"] = ",".join(rng.sample(inv.unit_classes, rng.choice([1, 2, 3])))
        desc = self._desc()
        child = _new(el, "node", "#", desc, dict(attrs, **self.lib_attr))
        self.parent[child] = el
        self.nodes.append(child)
        self.specs.append({"kind": "tag", "short": _name(el) + "/#", "parent": _name(el), "attrs": self._expect_attrs(attrs),
                           "desc": desc, "placeholder_of": _name(el)})
        self.ops.append("add placeholder under %s attrs=%s desc=%r" % (_name(el), attrs, desc))

    def op_remove_node(self):
        cands = []
        for n in self.nodes:
            if _name(n) == "#" or not self._editable(n) or self._deprecated(n):
                continue
            kids = n.findall("node")
            if any(_name(k) != "#" for k in kids):
                continue
            if _name(n).casefold() in self.inv.referenced or _name(n).casefold() in self.used_refs or "rooted" in _attrs(n):
                continue
            if any(s.get("short") == _name(n) or s.get("parent") == _name(n) for s in self.specs):
                continue
            cands.append(n)
        if not cands:
            return self.op_add_node()
        n = self.rng.choice(cands)
        self.parent[n].remove(n)
        self.removed.add(_name(n).casefold())
        self.nodes = [x for x in self.nodes if x is not n and self.parent.get(x) is not n]
        self.specs.append({"kind": "removed_tag", "short": _name(n)})
        self.ops.append("remove node %s" % _name(n))

    def op_reattribute(self):
        rng, inv = self.rng, self.inv
        cands = [n for n in self.nodes if self._editable(n) and not self._deprecated(n)]
        if not cands:
            return self.op_add_node()
        n = rng.choice(cands)
        cur = _attrs(n)
        changed = {}
        if _name(n) == "#":
            if inv.value_classes:
                changed["valueClass"] = ",".join(rng.sample(inv.value_classes, rng.choice([1, 2, min(3, len(inv.value_classes))])))
            if inv.unit_classes and rng.random() < 0.6:
                changed["unitClass"] = ",".join(rng.sample(inv.unit_classes, rng.choice([1, 2, 3]))) if rng.random() < 0.8 else None
        else:
            for _ in range(rng.choice([1, 2, 3])):
                a = rng.choice(inv.tag_bool + [x for x in ("suggestedTag", "relatedTag") if x in inv.tag_declared] * 2)
                if a in ("suggestedTag", "relatedTag"):
                    if a in cur and rng.random() < 0.3:
                        changed[a] = None
                    else:
                        changed[a] = self._refs(rng.choice([1, 2, 3, 5]))
                else:
                    changed[a] = None if a in cur else True
        for a, v in changed.items():
            _set_attr(n, a, v)
        final = _attrs(n)
        final.pop("inLibrary", None)
        short = _name(n) if _name(n) != "#" else _name(self.parent[n]) + "/#"
        d = n.find("description")
        self.specs.append({"kind": "tag", "short": short, "parent": None if self.parent[n] is self.schema_el else _name(self.parent[n]),
                           "attrs": self._expect_attrs(final), "desc": (d.text if d is not None else None) or None,
                           "placeholder_of": _name(self.parent[n]) if _name(n) == "#" else None, "existing": True,
                           "skip_parent": True})
        self.ops.append("re-attribute %s: %s" % (short, changed))

    def op_rooted(self):
        """a library node that hangs below a node of the partnered standard schema"""
        rng, inv = self.rng, self.inv
        base = rng.choice(inv.base_tags)
        name = gen_name(rng, inv, self.taken)
        attrs, desc = self._tag_attrs(2), self._desc()
        attrs = dict(attrs, rooted=base)
        if self.form == "unmerged":
            el = _new(self.schema_el, "node", name, desc, attrs)
            self.parent[el] = self.schema_el
        else:
            long_name = inv.base_tag_long[base]
            par = self.schema_el
            for part in long_name.split("/"):
                par = [c for c in par.findall("node") if _name(c) == part][0]
            el = _new(par, "node", name, desc, dict(attrs, **self.lib_attr))
            self.parent[el] = par
        self.nodes.append(el)
        self.specs.append({"kind": "tag", "short": name, "parent": base, "attrs": self._expect_attrs(attrs), "desc": desc})
        self.ops.append("add rooted node %s below standard node %s attrs=%s" % (name, base, attrs))
        for _ in range(rng.choice([0, 1, 2])):
            cname = gen_name(rng, inv, self.taken)
            cattrs, cdesc = self._tag_attrs(2), self._desc()
            c = _new(el, "node", cname, cdesc, dict(cattrs, **self.lib_attr))
            self.parent[c] = el
            self.nodes.append(c)
            self.specs.append({"kind": "tag", "short": cname, "parent": name, "attrs": self._expect_attrs(cattrs), "desc": cdesc})
            self.ops.append("add node %s under rooted %s" % (cname, name))

    # ---- ops on units and classes
    def _unit_attrs(self, symbol):
        rng, inv = self.rng, self.inv
        attrs = {}
        if symbol and "unitSymbol" in inv.unit_declared:
            attrs["unitSymbol"] = True
        if "SIUnit" in inv.unit_declared and rng.random() < 0.5:
            attrs["SIUnit"] = True
        if "conversionFactor" in inv.unit_declared and rng.random() < 0.7:
            attrs["conversionFactor"] = rng.choice(["1.0", "1000.0", "0.001", "2.54e-2", "60", "10e-6"])
        if "unitPrefix" in inv.unit_declared and rng.random() < 0.15:
            attrs["unitPrefix"] = True
        return attrs

    def op_add_unit(self):
        rng, inv = self.rng, self.inv
        cont = self._section("unitClassDefinitions")
        cname = rng.choice(inv.unit_classes)
        cel = [c for c in cont.findall("unitClassDefinition") if _name(c) == cname]
        if cel:
            cel = cel[0]
        else:
            cel = _new(cont, "unitClassDefinition", cname)      # unmerged library file: standard class listed by name only
        symbol = rng.random() < 0.4
        uname = gen_name(rng, inv, self.taken_other, "symbol" if symbol else "unit")
        attrs, desc = self._unit_attrs(symbol), self._desc(0.4)
        _new(cel, "unit", uname, desc, dict(attrs, **self.lib_attr))
        self.specs.append({"kind": "units", "name": uname, "attrs": self._expect_attrs(attrs), "desc": desc, "unit_class": cname})
        self.ops.append("add unit %s to class %s attrs=%s desc=%r" % (uname, cname, attrs, desc))

    def op_add_unit_class(self):
        rng, inv = self.rng, self.inv
        cont = self._section("unitClassDefinitions")
        cname = gen_name(rng, inv, self.taken_other, "class")
        u1 = gen_name(rng, inv, self.taken_other, "unit")
        cattrs = {"defaultUnits": u1} if "defaultUnits" in inv.uc_declared else {}
        cdesc = self._desc()
        cel = _new(cont, "unitClassDefinition", cname, cdesc, dict(cattrs, **self.lib_attr))
        self.specs.append({"kind": "unitClasses", "name": cname, "attrs": self._expect_attrs(cattrs), "desc": cdesc})
        for uname, symbol in [(u1, False)] + [(gen_name(rng, inv, self.taken_other, "symbol"), True)] * rng.choice([0, 1]):
            attrs, desc = self._unit_attrs(symbol), self._desc(0.4)
            _new(cel, "unit", uname, desc, dict(attrs, **self.lib_attr))
            self.specs.append({"kind": "units", "name": uname, "attrs": self._expect_attrs(attrs), "desc": desc, "unit_class": cname})
        self.ops.append("add unit class %s with default unit %s" % (cname, u1))

    def op_remove_unit(self):
        if self.lib_only:
            return self.op_add_unit()
        cont = self.root.find("unitClassDefinitions")
        cands = []
        for c in cont.findall("unitClassDefinition"):
            units = c.findall("unit")
            for u in units:
                derived_default = any(isinstance(d, str) and d.casefold().endswith(_name(u).casefold())
                                      for d in self.inv.default_units)      # e.g. default 'fT' is derived from unit 'T'
                if not derived_default and len(units) > 1 and "deprecatedFrom" not in _attrs(u) \
                        and not any(s.get("name") == _name(u) for s in self.specs):
                    cands.append((c, u))
        if not cands:
            return self.op_add_unit()
        c, u = self.rng.choice(cands)
        c.remove(u)
        self.specs.append({"kind": "removed", "section": "units", "name": _name(u)})
        self.ops.append("remove unit %s from %s" % (_name(u), _name(c)))

    def op_add_value_class(self):
        rng, inv = self.rng, self.inv
        cont = self._section("valueClassDefinitions")
        name = gen_name(rng, inv, self.taken_other, "class")
        attrs = {}
        if "allowedCharacter" in inv.vc_declared:
            pool = ["letters", "digits", "blank", "hyphen", "period", "colon", "underscore", "plus", "slash", "T", "e", "E", "Z",
                    "semicolon", "dollar", "caret", "uppercase", "lowercase", "single-quote", "double-quote", "equals",
                    "comma", "text", "nonascii", "alphanumeric", "printable"]
            attrs["allowedCharacter"] = ",".join(rng.sample(pool, rng.choice([1, 2, 3, 4, 6])))
        desc = self._desc()
        _new(cont, "valueClassDefinition", name, desc, dict(attrs, **self.lib_attr))
        self.specs.append({"kind": "valueClasses", "name": name, "attrs": self._expect_attrs(attrs), "desc": desc})
        self.ops.append("add value class %s attrs=%s desc=%r" % (name, attrs, desc))

    def op_add_modifier(self):
        rng, inv = self.rng, self.inv
        cont = self._section("unitModifierDefinitions")
        name = gen_name(rng, inv, self.taken_other, "unit")
        attrs = {rng.choice(["SIUnitModifier", "SIUnitSymbolModifier"]): True}
        if "conversionFactor" in inv.mod_declared:
            attrs["conversionFactor"] = rng.choice(["100.0", "10e-7", "1e5", "0.5"])
        desc = self._desc()
        _new(cont, "unitModifierDefinition", name, desc, dict(attrs, **self.lib_attr))
        self.specs.append({"kind": "unitModifiers", "name": name, "attrs": self._expect_attrs(attrs), "desc": desc})
        self.ops.append("add unit modifier %s attrs=%s" % (name, attrs))

    def op_add_attribute_def(self):
        """declare a new boolean node attribute and use it on a new node"""
        rng, inv = self.rng, self.inv
        cont = self._section("schemaAttributeDefinitions")
        name = "zq" + "".join(rng.choice("abcdefghijklmnopqrstuvwxyzABCDEFGH") for _ in range(rng.randint(3, 8)))
        if name.casefold() in self.taken_other:
            name += "Q"
        self.taken_other.add(name.casefold())
        props = {inv.bool_prop: True}
        if inv.tag_dom_prop:
            props[inv.tag_dom_prop] = True
        elif "nodeProperty" in inv.other_names["properties"]:
            props["nodeProperty"] = True
        desc = self._desc()
        _new(cont, "schemaAttributeDefinition", name, desc, dict(props, **self.lib_attr), attr_tag="property")
        self.specs.append({"kind": "attributes", "name": name, "attrs": self._expect_attrs(props), "desc": desc})
        self.ops.append("declare node attribute %s props=%s" % (name, props))
        el = self.op_add_node()
        _set_attr(el, name, True)
        self.specs[-1]["attrs"][name] = True

    # ---- descriptions and texts
    def op_description(self):
        rng = self.rng
        pools = []
        nodes = [n for n in self.nodes if self._editable(n) and not self._deprecated(n)]
        if nodes:
            pools.append(("tag", nodes))
        for sec, cont, elname in (("unitClasses", "unitClassDefinitions", "unitClassDefinition"),
                                  ("unitModifiers", "unitModifierDefinitions", "unitModifierDefinition"),
                                  ("valueClasses", "valueClassDefinitions", "valueClassDefinition"),
                                  ("attributes", "schemaAttributeDefinitions", "schemaAttributeDefinition"),
                                  ("properties", "propertyDefinitions", "propertyDefinition")):
            c = self.root.find(cont)
            if c is None:
                continue
            atag = "property" if sec in ("attributes", "properties") else "attribute"
            els = [e for e in c.findall(elname) if self._is_own(e, sec) and "deprecatedFrom" not in _attrs(e, atag)]
            if els:
                pools.append((sec, els))
            if sec == "unitClasses":
                units = [u for e in c.findall(elname) for u in e.findall("unit")
                         if self._is_own(u, "units") and "deprecatedFrom" not in _attrs(u)]
                if units:
                    pools.append(("units", units))
        if not pools:
            return self.op_add_node()
        sec, els = rng.choice(pools)
        el = rng.choice(els)
        desc = self._desc(0.2)
        _set_desc(el, desc)
        atag = "property" if sec in ("attributes", "properties") else "attribute"
        attrs = _attrs(el, atag)
        attrs.pop("inLibrary", None)
        if sec == "tag":
            short = _name(el) if _name(el) != "#" else _name(self.parent[el]) + "/#"
            self.specs.append({"kind": "tag", "short": short, "parent": None, "attrs": self._expect_attrs(attrs), "desc": desc,
                               "placeholder_of": _name(self.parent[el]) if _name(el) == "#" else None, "existing": True,
                               "skip_parent": True})
        else:
            self.specs.append({"kind": sec, "name": _name(el), "attrs": self._expect_attrs(attrs), "desc": desc, "existing": True})
        self.ops.append("set description of %s %s to %r" % (sec, _name(el), desc))

    def op_texts(self):
        rng = self.rng
        which = rng.choice(["prologue", "epilogue"])
        lines = []
        for _ in range(rng.choice([1, 2, 3])):
            lines.append(" ".join(rng.choice(WORDS + NONASCII_WORDS[:3]) for _ in range(rng.randint(1, 8))) + ".")
        text = "\n".join(lines)
        el = self.root.find(which)
        if el is None:
            el = ET.Element(which)
            if which == "prologue":
                self.root.insert(0, el)
            else:
                self.root.append(el)
        el.text = text
        self.specs.append({"kind": "text", "which": which, "text": text})
        self.ops.append("set %s to %r" % (which, text))

    # ---- driver
    def run(self, n_ops):
        rng = self.rng
        table = [(self.op_add_node, 5), (self.op_add_value_node, 4), (self.op_remove_node, 3), (self.op_reattribute, 5),
                 (self.op_add_unit, 3), (self.op_add_unit_class, 2), (self.op_remove_unit, 1), (self.op_add_value_class, 2),
                 (self.op_add_modifier, 1), (self.op_add_attribute_def, 2), (self.op_description, 4), (self.op_texts, 1)]
        if self.inv.partnered:
            table.append((self.op_rooted, 5))
        ops = [f for f, wgt in table for _ in range(wgt)]
        for _ in range(n_ops):
            rng.choice(ops)()
        return self.specs, self.ops


def make_edit(base_xml, inv, form, case_seed):
    """-> (edited xml text, specs, op descriptions)"""
    rng = random.Random(case_seed)
    root = ET.fromstring(base_xml)
    ed = Editor(root, inv, form, rng)
    specs, ops = ed.run(rng.choice([1, 2, 2, 3, 3]))
    return ET.tostring(root, encoding="unicode"), specs, ops
