"""Common scaffolding for the property-level bounded workloads (tier T3, run under /venv/bin/python).

A workload module rt/cNN.py defines

    def run(w: Workload): ...   # enumerate cases, call w.case(...) / w.fail(...)
    if __name__ == "__main__": main(run, "CNN")

and is started by checks/check.py as   /venv/bin/python -m rt.cNN --tier quick|thorough --seed N
The LAST stdout line is one JSON object (see Workload.result).  T3 results are *bounded* evidence: they are
reported under coverage.bounded and never counted as proof obligations.
"""
import argparse
import json
import os
import random
import sys
import time
import traceback

VERIF = os.path.dirname(os.path.dirname(os.path.abspath(__file__)))
if VERIF not in sys.path:
    sys.path.insert(0, VERIF)


class Workload:
    def __init__(self, prop, tier, seed):
        self.prop = prop
        self.tier = tier
        self.quick = tier == "quick"
        self.seed = seed
        self.rng = random.Random(seed)
        self.evaluations = 0
        self.distinct = set()
        self.failures = []
        self.samples = []
        self.bounded = []
        self.assumptions = []
        self.not_covered = []
        self.rule = ""
        self.exhaustive = False
        self.t0 = time.time()
        self._fail_keys = set()
        self.max_failures_per_clause = 3
        self._per_clause = {}

    # -- bookkeeping ------------------------------------------------------------------
    def case(self, key, nontrivial=True, sample=None):
        """count one evaluated case; key identifies it (distinctness); sample is a JSON-able description"""
        self.evaluations += 1
        if nontrivial:
            self.distinct.add(key if isinstance(key, (str, int, tuple)) else repr(key))
        if sample is not None and len(self.samples) < 8 and (self.evaluations % 53 == 1):
            self.samples.append(sample)

    def fail(self, clause, input, observed=None, expected=None, **extra):
        """record a contract-clause failure on a concrete case.  clause: stable label such as
        'C06.cat.na_is_absent'.  input must be JSON-able and sufficient to replay."""
        n = self._per_clause.get(clause, 0)
        self._per_clause[clause] = n + 1
        if n >= self.max_failures_per_clause:
            return
        rec = {"clause": clause, "input": _js(input), "observed": _js(observed), "expected": _js(expected)}
        rec.update({k: _js(v) for k, v in extra.items()})
        self.failures.append(rec)

    def check(self, cond, clause, input, observed=None, expected=None, **extra):
        if not cond:
            self.fail(clause, input, observed, expected, **extra)
        return cond

    def part(self, name, cases, bound, exhaustive=False, **extra):
        """describe one bounded part of the workload for the evidence file"""
        d = {"part": name, "tier": "T3-runtime", "cases": cases, "bound": bound, "exhaustive_within_bound": exhaustive}
        d.update(extra)
        self.bounded.append(d)

    def result(self):
        return {"property": self.prop, "tier": self.tier, "seed": self.seed, "evaluations": self.evaluations,
                "distinct_nontrivial": len(self.distinct), "rule": self.rule, "samples": self.samples,
                "failures": self.failures, "failure_counts": self._per_clause, "bounded": self.bounded,
                "exhaustive": self.exhaustive, "assumptions": self.assumptions, "not_covered": self.not_covered,
                "wall_s": round(time.time() - self.t0, 2)}


def _js(v):
    try:
        json.dumps(v)
        return v
    except (TypeError, ValueError):
        return repr(v)[:400]


_schemas = {}


def schema(version="8.3.0"):
    """cached load of a bundled schema (offline)"""
    if version not in _schemas:
        from hed.schema import load_schema_version
        _schemas[version] = load_schema_version(version)
    return _schemas[version]


def codes(issues, errors_only=False):
    from hed.errors.error_types import ErrorSeverity
    return sorted(i["code"] for i in issues if not errors_only or i.get("severity", 1) == ErrorSeverity.ERROR)


def main(run, prop, replay=None):
    ap = argparse.ArgumentParser()
    ap.add_argument("--tier", default="quick")
    ap.add_argument("--seed", type=int, default=0)
    ap.add_argument("--replay")
    a = ap.parse_args()
    if a.replay:
        payload = json.load(open(a.replay))
        case = payload.get("case", payload)
        if replay is None:
            print("this workload has no single-case replay; re-run the check", file=sys.stderr)
            sys.exit(3)
        w = Workload(prop, "quick", 0)
        replay(w, case)
        print(json.dumps(w.result()))
        sys.exit(1 if w.failures else 0)
    w = Workload(prop, a.tier, a.seed)
    try:
        run(w)
    except Exception:
        traceback.print_exc()
        sys.exit(3)
    print(json.dumps(w.result()))
