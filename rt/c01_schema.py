"""Independent reading of a bundled HED schema XML file (helper of rt/c01.py and rt/c04.py).

Nothing here imports hed-python's schema classes: the XML is read with ElementTree and interpreted from the
HED specification (schema format, section 3 "HED formats" / appendix A):

* a <node> has a name, attributes (<attribute><name/><value/>*) and child nodes; a child named '#' is the value
  place-holder of its parent and carries takesValue / valueClass / unitClass;
* extensionAllowed is inherited by all descendants; a node that has a '#' child takes a value instead of an extension;
* tagGroup / topLevelTagGroup / requireChild / unique / required belong to the node that carries them;
* deprecatedFrom marks an element (and what hangs below it) as no longer usable without a warning;
* unit classes list units (SIUnit, unitSymbol, unitPrefix), unit modifiers are SIUnitModifier (for unit names) or
  SIUnitSymbolModifier (for unit symbols); unit names may be pluralised, unit symbols may not.
"""
import os
import xml.etree.ElementTree as ET


def schema_xml_path(version):
    import hed  # only to locate the installed package data directory
    return os.path.join(os.path.dirname(os.path.abspath(hed.__file__)), "schema", "schema_data", "HED%s.xml" % version)


def _attrs(elem):
    out = {}
    for a in elem.findall("attribute"):
        out[a.find("name").text] = [v.text for v in a.findall("value")]
    return out


class Node:
    __slots__ = ("name", "path", "attrs", "value", "ext_allowed", "deprecated", "children", "parent")

    def __init__(self, name, path, attrs, parent):
        self.name = name
        self.path = path                    # tuple of names from the root
        self.attrs = attrs                  # own attributes
        self.value = None                   # attrs of the '#' child or None
        self.parent = parent
        self.children = []
        self.ext_allowed = ("extensionAllowed" in attrs) or (parent is not None and parent.ext_allowed)
        self.deprecated = ("deprecatedFrom" in attrs) or (parent is not None and parent.deprecated)

    @property
    def long(self):
        return "/".join(self.path)

    def forms(self):
        """all spellings of the node: every suffix of the path (short ... long)"""
        return ["/".join(self.path[i:]) for i in range(len(self.path) - 1, -1, -1)]

    def has(self, attr):
        return attr in self.attrs

    @property
    def takes_value(self):
        return self.value is not None

    @property
    def value_classes(self):
        return list(self.value.get("valueClass", [])) if self.value else []

    @property
    def unit_classes(self):
        return list(self.value.get("unitClass", [])) if self.value else []


class Unit:
    __slots__ = ("name", "si", "symbol", "prefix", "deprecated")

    def __init__(self, name, attrs):
        self.name = name
        self.si = "SIUnit" in attrs
        self.symbol = "unitSymbol" in attrs
        self.prefix = "unitPrefix" in attrs
        self.deprecated = "deprecatedFrom" in attrs


def plural(name):
    """regular English plural, only where the rule 'append s' is beyond doubt; None otherwise"""
    if not name.isalpha() or name in ("foot",) or name[-1] in "sxzhy":
        return None
    return name + "s"


class SchemaModel:
    def __init__(self, version):
        self.version = version
        root = ET.parse(schema_xml_path(version)).getroot()
        self.nodes = []
        self.by_name = {}

        def walk(elem, parent):
            for c in elem.findall("node"):
                name = c.find("name").text
                if name == "#":
                    parent.value = _attrs(c)
                    if "deprecatedFrom" in parent.value:
                        parent.value["__deprecated__"] = True
                    continue
                n = Node(name, (parent.path if parent else ()) + (name,), _attrs(c), parent)
                if parent:
                    parent.children.append(n)
                self.nodes.append(n)
                self.by_name[name.casefold()] = n
                walk(c, n)
        walk(root.find("schema"), None)

        self.unit_classes = {}
        self.default_unit = {}
        for uc in root.find("unitClassDefinitions"):
            name = uc.find("name").text
            self.unit_classes[name] = [Unit(u.find("name").text, _attrs(u)) for u in uc.findall("unit")]
            self.default_unit[name] = (_attrs(uc).get("defaultUnits") or [None])[0]
        self.name_modifiers = []
        self.symbol_modifiers = []
        for um in root.find("unitModifierDefinitions"):
            at = _attrs(um)
            if "SIUnitModifier" in at:
                self.name_modifiers.append(um.find("name").text)
            if "SIUnitSymbolModifier" in at:
                self.symbol_modifiers.append(um.find("name").text)
        self.value_class_names = [vc.find("name").text for vc in root.find("valueClassDefinitions")]
        self.all_names = set(self.by_name)

    # ---- vocabulary helpers ---------------------------------------------------------
    def node(self, name):
        return self.by_name[name.casefold()]

    def usable(self, n):
        return not n.deprecated and not (n.value or {}).get("__deprecated__")

    def with_attr(self, attr):
        return [n for n in self.nodes if n.has(attr)]

    def valid_units(self, unit_class, modifiers=None):
        """unit spellings the specification accepts for the unit class (deprecated units left out).
        modifiers: None = all SI modifiers, otherwise (name_modifiers, symbol_modifiers) to use"""
        name_mods, sym_mods = (self.name_modifiers, self.symbol_modifiers) if modifiers is None else modifiers
        out = []
        for u in self.unit_classes[unit_class]:
            if u.deprecated or u.prefix or " " in u.name:      # 'degree Celsius' (8.1/8.2) cannot be written unambiguously
                continue
            spellings = [u.name]
            if not u.symbol and plural(u.name):
                spellings.append(plural(u.name))
            out.extend(spellings)
            if u.si:
                for m in (sym_mods if u.symbol else name_mods):
                    out.extend(m + s for s in spellings)
        return out

    def all_valid_units(self, unit_classes):
        s = set()
        for uc in unit_classes:
            s.update(self.valid_units(uc))
        return s

    def unit_universe(self):
        """every unit-like token of the schema (any class, declared deprecated or not, any modifier)"""
        s = set()
        for uc, units in self.unit_classes.items():
            for u in units:
                for sp in (u.name, plural(u.name) or u.name):
                    s.add(sp)
                    for m in self.name_modifiers + self.symbol_modifiers:
                        s.add(m + sp)
        return s
