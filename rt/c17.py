"""C17 - remodeling operations are pure functions of their parameters and input table (bounded workload, tier T3).

Enumerates operation lists generated from the JSON ``PARAMS`` specification of the eight non-summary
operations, runs the REAL Dispatcher / RemodelerValidator / run_remodel CLI on small tables and compares with
small oracles written from each operation's docstring.

Case kinds (the ``kind`` field of every failure input, enough to replay one case):
  meaning      one op list (1-3 ops) on one table, step-wise against the docstring oracle, + frame + n/a
               (also: every returned frame carries fresh row labels 0..n-1, and a step of a list gives the same frame as the
               same operation run alone on the re-labelled real intermediate table)
               "pairs": all 64 ordered pairs of the eight operations x 2x2 small parameter sets x generated 4-6 row tables
               with onset/duration/x/y/v columns, as ONE validated two-operation list through Dispatcher.run_operations,
               judged step by step against the single-operation oracles; the list must run to completion
               "extra-columns": every operation / ordered pair on tables with two further text columns that no operation
               names (quotes, outer blanks, numbers as text, n/a): besides the meaning oracles, clause
               C17.frame.unnamed_columns_untouched - columns the parameters do not name come back cell for cell unchanged
               "repeated-keys": remap_columns whose map_list lists a key in more than one row (every order of the rows, keys
               missing from the data, data codes missing from the map, integer sources); the first row listed for a key is in force
  keymap       KeyMap.update / KeyMap.remap used directly with such rows (also fully equal rows, two update calls)
  history      one op list, 1-3 tables, one processing order through ONE Dispatcher vs. a fresh one per table
  invalid      an op list that must be rejected by RemodelerValidator with messages
  cli_invalid  the same through run_remodel.main: ValueError before anything is executed / touched

The process is re-executed with PYTHONHASHSEED=0 (see __main__) because KeyMap keys are ``hash(tuple(str))`` and
one of the findings depends on the hash values; this keeps runs and replays deterministic.
"""
import copy
import re
import io
import itertools
import json
import math
import os
import shutil
import sys
import tempfile
import warnings

warnings.filterwarnings("ignore")

import numpy as np  # noqa: E402
import pandas as pd  # noqa: E402

from rt.common import Workload, main  # noqa: E402

ALPHABET = ["a", "b", "n/a", "1", "1.0"]
OPS8 = ["remove_rows", "remove_columns", "rename_columns", "reorder_columns", "factor_column", "remap_columns",
        "merge_consecutive", "split_rows"]
NA = None


class _Wild:
    def __repr__(self):
        return "*"


WILD = _Wild()

# ------------------------------------------------------------------------------------------------------------
# tables
# ------------------------------------------------------------------------------------------------------------


def build_df(tab):
    """tab = {"cols": [...], "rows": [[text, ...], ...]}; parsed exactly like Dispatcher.get_data_file parses a tsv"""
    txt = "\t".join(tab["cols"]) + "\n" + "".join("\t".join(r) + "\n" for r in tab["rows"])
    return pd.read_csv(io.StringIO(txt), sep='\t', header=0, keep_default_na=False, na_values=",null")


class NanCell:
    def __repr__(self):
        return "NaN"


NANCELL = NanCell()


def cell(v):
    if isinstance(v, str):
        return NA if v == 'n/a' else v
    if v is None or v is pd.NA:
        return NANCELL
    if isinstance(v, (bool, np.bool_)):
        return bool(v)
    if isinstance(v, (int, np.integer)):
        return int(v)
    if isinstance(v, (float, np.floating)):
        return NANCELL if math.isnan(v) else float(v)
    return repr(v)


def view(df):
    """abstract view of a DataFrame: (columns, rows of typed cells: str | int | float | NA)"""
    cols = [str(c) for c in df.columns]
    if not cols:
        return cols, [[] for _ in range(len(df))]
    rows = [[cell(v) for v in row] for row in df.itertuples(index=False, name=None)]
    return cols, rows


def text(c):
    if c is NA or c is NANCELL:
        return "n/a"
    if isinstance(c, float):
        return repr(c)
    return str(c)


def num(c):
    if c is NA or c is NANCELL:
        return None
    if isinstance(c, (int, float)) and not isinstance(c, bool):
        return float(c)
    try:
        return float(c)
    except (TypeError, ValueError):
        return None


def is_number(c):
    return isinstance(c, (int, float)) and not isinstance(c, bool)


def typed_eq(c, v):
    """a JSON number matches numeric cells, a JSON string matches text cells; n/a matches nothing"""
    if c is NA or c is NANCELL:
        return False
    if is_number(c) and is_number(v):
        return float(c) == float(v)
    if isinstance(c, str) and isinstance(v, str):
        return c == v
    return False


def js_view(t):
    cols, rows = t
    return {"cols": cols, "rows": [[("*" if c is WILD else text(c)) for c in r] for r in rows]}


def same_table(exp, obs, numeric_cols=(), unordered=False):
    ecols, erows = exp
    ocols, orows = obs
    if list(ecols) != list(ocols) or len(erows) != len(orows):
        return False

    def key(row):
        out = []
        for cname, c in zip(ecols, row):
            if c is WILD:
                out.append(("w",))
            elif cname in numeric_cols and (num(c) is not None or c is NA or c is NANCELL):
                n = num(c)
                out.append(("n", None if n is None else round(n, 9)))
            else:
                out.append(("t", text(c)))
        return out

    if unordered:
        return sorted(map(repr, (key(r) for r in erows))) == sorted(map(repr, (key(r) for r in orows)))
    for er, orow in zip(erows, orows):
        ke = key(er)
        ko = key(orow)
        for a, b, c in zip(ke, ko, er):
            if c is WILD:
                continue
            if a != b:
                return False
    return True


# ------------------------------------------------------------------------------------------------------------
# oracles, written from the class/do_op docstrings and the PARAMS descriptions (NOT from the code)
# each returns ("ok", (cols, rows), opts) | ("raise", ExcType) | ("unspec", why)
# ------------------------------------------------------------------------------------------------------------


def o_remove_rows(t, p):
    cols, rows = t
    if p["column_name"] not in cols:
        return ("unspec", "column not in table")
    if any(v == "n/a" for v in p["remove_values"]):
        return ("unspec", "n/a as a remove value")
    i = cols.index(p["column_name"])
    return ("ok", (cols, [r for r in rows if not any(typed_eq(r[i], v) for v in p["remove_values"])]), {})


def o_remove_columns(t, p):
    cols, rows = t
    missing = [c for c in p["column_names"] if c not in cols]
    if missing and not p["ignore_missing"]:
        return ("raise", KeyError)
    keep = [i for i, c in enumerate(cols) if c not in p["column_names"]]
    return ("ok", ([cols[i] for i in keep], [[r[i] for i in keep] for r in rows]), {})


def o_rename_columns(t, p):
    cols, rows = t
    m = p["column_mapping"]
    if [k for k in m if k not in cols] and not p["ignore_missing"]:
        return ("raise", KeyError)
    new = [m.get(c, c) for c in cols]
    if len(set(new)) != len(new):
        return ("unspec", "rename produces duplicate column names")
    return ("ok", (new, rows), {})


def o_reorder_columns(t, p):
    cols, rows = t
    order = p["column_order"]
    if [c for c in order if c not in cols] and not p["ignore_missing"]:
        return ("raise", ValueError)
    new = [c for c in order if c in cols]
    if p["keep_others"]:
        new += [c for c in cols if c not in new]
    idx = [cols.index(c) for c in new]
    return ("ok", (new, [[r[i] for i in idx] for r in rows]), {})


def o_factor_column(t, p):
    cols, rows = t
    if p["column_name"] not in cols:
        return ("unspec", "column not in table")
    i = cols.index(p["column_name"])
    values = p.get("factor_values")
    names = p.get("factor_names")
    if values is None:
        values = []
        for r in rows:
            if r[i] is not NA and text(r[i]) not in values:
                values.append(text(r[i]))
        names = [p["column_name"] + "." + v for v in values]
        opts = {"factor_lenient": True}
    else:
        opts = {}
        if any(v in ("n/a", "nan") for v in values):
            return ("unspec", "n/a as factor value")
        if names is None:
            names = [p["column_name"] + "." + v for v in values]
            opts = {"names_free": len(values)}
    if set(names) & set(cols) or len(set(names)) != len(names):
        return ("unspec", "factor name collides with a column")
    ncols = cols + names
    nrows = [r + [1 if (r[i] is not NA and text(r[i]) == v) else 0 for v in values] for r in rows]
    return ("ok", (ncols, nrows), opts)


def o_remap_columns(t, p):
    cols, rows = t
    src, dst = p["source_columns"], p["destination_columns"]
    ints = p.get("integer_sources", [])
    if [c for c in src if c not in cols]:
        return ("unspec", "source column not in table")
    if set(src) & set(dst) or len(set(src)) != len(src) or len(set(dst)) != len(dst):
        return ("unspec", "source/destination not disjoint")
    m = len(src)
    keymap = {}
    for entry in p["map_list"]:
        k = tuple(text_json(x) for x in entry[:m])
        if k in keymap:
            # a key listed again: the map holds the k UNIQUE keys (PARAMS description of map_list; KeyMap: "a map of unique
            # column values"); KeyMap._handle_update documents that only a NEW key adds a row to the map, a key seen before
            # is just counted -> the FIRST row listed for a key is the one that is kept, whatever follows it
            continue
        keymap[k] = [text_json(x) for x in entry[m:]]
    si = [cols.index(c) for c in src]
    for r in rows:
        for c, i in zip(src, si):
            if c in ints and r[i] is not NA:
                if isinstance(r[i], float) or (isinstance(r[i], str) and not r[i].lstrip("-").isdigit()):
                    return ("unspec", "integer source with non-integer text")
    ncols = cols + [d for d in dst if d not in cols]
    nrows = []
    missing = False
    for r in rows:
        nr = list(r) + [NA] * (len(ncols) - len(cols))
        key = []
        for c, i in zip(src, si):
            v = r[i]
            if v is NA:
                key.append("n/a")
            elif c in ints:
                key.append(str(int(v)))
                nr[i] = str(int(v))
            else:
                key.append(text(v))
                nr[i] = text(v)
        hit = keymap.get(tuple(key))
        if hit is None:
            missing = True
            for d in dst:
                nr[ncols.index(d)] = NA if d not in cols else WILD
        else:
            for d, v in zip(dst, hit):
                nr[ncols.index(d)] = v
        nrows.append(nr)
    if missing and not p["ignore_missing"]:
        return ("raise", ValueError)
    return ("ok", (ncols, nrows), {})


def text_json(x):
    """text of a JSON scalar of a map_list entry (1 -> '1', 1.0 -> '1.0', 'a' -> 'a')"""
    if isinstance(x, float):
        return repr(x)
    return str(x)


def o_merge_consecutive(t, p):
    cols, rows = t
    name = p["column_name"]
    match = p.get("match_columns") or []
    if name not in cols:
        return ("raise", ValueError) if not p["ignore_missing"] else ("unspec", "anchor column missing and ignored")
    if p["set_durations"] and ("onset" not in cols or "duration" not in cols):
        return ("raise", ValueError)
    if [c for c in match if c not in cols] and not p["ignore_missing"]:
        return ("raise", ValueError)
    if p["event_code"] == "n/a":
        return ("unspec", "n/a as event code")
    ci = cols.index(name)
    mi = [cols.index(c) for c in match if c in cols]
    out = []
    ends = []   # for the kept anchor rows: running max end of the merged run
    prev = None  # previous ORIGINAL row if it carried the code, else None
    for r in rows:
        is_code = typed_eq(r[ci], p["event_code"])
        if is_code and prev is not None and all(text(r[i]) == text(prev[i]) for i in mi):
            # merged into the latest kept row
            if p["set_durations"]:
                ends[-1].append(r)
        else:
            out.append(list(r))
            ends.append([r])
        prev = r if is_code else None
    opts = {}
    if p["set_durations"]:
        oi, di = cols.index("onset"), cols.index("duration")
        opts["numeric_cols"] = ("onset", "duration")
        for k, group in enumerate(ends):
            if len(group) < 2:
                continue
            on0 = num(group[0][oi])
            if on0 is None or any(num(g[oi]) is None for g in group):
                out[k][di] = WILD
                continue
            end = max(num(g[oi]) + (num(g[di]) or 0.0) for g in group)
            out[k][di] = end - on0
    return ("ok", (cols, out), opts)


def o_split_rows(t, p):
    cols, rows = t
    if "onset" not in cols or "duration" not in cols:
        return ("raise", ValueError)
    anchor = p["anchor_column"]
    ncols = list(cols) + ([anchor] if anchor not in cols else [])
    oi, di, ai = ncols.index("onset"), ncols.index("duration"), ncols.index(anchor)
    for ev, spec in p["new_events"].items():
        for s in spec["onset_source"] + spec["duration"]:
            if isinstance(s, str) and s not in cols:
                return ("raise", TypeError)
        cc = spec.get("copy_columns", [])
        if [c for c in cc if c not in cols]:
            return ("unspec", "copy column not in table")
        if set(cc) & {"onset", "duration", anchor}:
            return ("unspec", "copying onset/duration/anchor")
    for r in rows:
        if r[cols.index("onset")] is not NA and num(r[cols.index("onset")]) is None:
            return ("unspec", "non numeric onset")
    parents = [list(r) + [NA] * (len(ncols) - len(cols)) for r in rows]
    out = [] if p["remove_parent_row"] else [list(r) for r in parents]
    for ev, spec in p["new_events"].items():
        for r in parents:
            on = num(r[oi])
            if on is None:
                continue
            ok = True
            for s in spec["onset_source"]:
                add = float(s) if is_number(s) else num(r[ncols.index(s)])
                if add is None:
                    ok = False
                    break
                on += add
            if not ok:
                continue
            dur = 0.0
            for s in spec["duration"]:
                add = float(s) if is_number(s) else num(r[ncols.index(s)])
                if add is None:
                    dur = None
                    break
                dur += add
            nr = [NA] * len(ncols)
            nr[oi] = on
            nr[di] = dur if dur is not None else NA
            nr[ai] = ev
            for c in spec.get("copy_columns", []):
                nr[ncols.index(c)] = r[ncols.index(c)]
            out.append(nr)
    return ("ok", (ncols, out), {"numeric_cols": ("onset", "duration"), "sorted_by": "onset"})


ORACLES = {"remove_rows": o_remove_rows, "remove_columns": o_remove_columns, "rename_columns": o_rename_columns,
           "reorder_columns": o_reorder_columns, "factor_column": o_factor_column, "remap_columns": o_remap_columns,
           "merge_consecutive": o_merge_consecutive, "split_rows": o_split_rows}


ROW_PRESERVING = ("remove_columns", "rename_columns", "reorder_columns", "factor_column", "remap_columns")


def named_strings(v, out=None):
    """every string that occurs in an operation's parameters (values and object keys): a superset of the columns it names"""
    out = set() if out is None else out
    if isinstance(v, str):
        out.add(v)
    elif isinstance(v, dict):
        for k, x in v.items():
            out.add(str(k))
            named_strings(x, out)
    elif isinstance(v, (list, tuple)):
        for x in v:
            named_strings(x, out)
    return out


def project(t, keep):
    cols, rows = t
    idx = [i for i, c in enumerate(cols) if keep(c)]
    return [cols[i] for i in idx], [[r[i] for i in idx] for r in rows]


def unnamed_columns_check(op, before, expected, opts, obs):
    """columns of the input table that the operation's parameters do not name come back cell for cell as they went in (as far
    as the operation returns them).  Row-preserving operations: judged against the INPUT table alone; operations that remove,
    merge or add rows: against the documented row selection (the oracle's rows), projected on those columns.
    -> None | (observed, expected)"""
    named = named_strings(op["parameters"])
    if op["operation"] in ("merge_consecutive", "split_rows"):
        named |= {"onset", "duration"}          # the time columns these operations work on by their documentation
    bcols, brows = before
    ocols, orows = obs
    unnamed = [c for c in bcols if c not in named and c in ocols]
    if not unnamed:
        return None
    keep = lambda c: c in unnamed
    got = project(obs, keep)
    got = (sorted(got[0]), [[r[got[0].index(c)] for c in sorted(got[0])] for r in got[1]])
    if op["operation"] in ROW_PRESERVING:
        want = project(before, keep)
    else:
        want = project(expected, keep)
    want = (sorted(want[0]), [[r[want[0].index(c)] for c in sorted(want[0])] for r in want[1]])
    rows_g = [[text(c) for c in r] for r in got[1]]
    rows_w = [[text(c) for c in r] for r in want[1]]
    if opts.get("sorted_by"):
        rows_g, rows_w = sorted(rows_g), sorted(rows_w)
    if got[0] != want[0] or rows_g != rows_w:
        return {"cols": got[0], "rows": rows_g}, {"cols": want[0], "rows": rows_w}
    return None


def compare(expected, opts, obs):
    """observed view vs oracle table, honouring the oracle's options"""
    ecols, erows = expected
    ocols, orows = obs
    numeric = opts.get("numeric_cols", ())
    if opts.get("factor_lenient"):
        # no factor_values: every non-n/a unique value has its own <col>.<value> indicator column, originals intact
        if not all(c in ocols for c in ecols):
            return False
        idx = [ocols.index(c) for c in ecols]
        return same_table(expected, (ecols, [[r[i] for i in idx] for r in orows]), numeric)
    if "names_free" in opts:
        k = opts["names_free"]
        if len(ocols) != len(ecols) or ocols[:len(ocols) - k] != ecols[:len(ecols) - k]:
            return False
        return same_table((ocols, erows), obs, numeric)
    if opts.get("sorted_by"):
        if not same_table(expected, obs, numeric, unordered=True):
            return False
        i = ocols.index(opts["sorted_by"])
        seq = [num(r[i]) for r in orows]
        vals = [x for x in seq if x is not None]
        return vals == sorted(vals) and all(x is None for x in seq[len(vals):])
    return same_table(expected, obs, numeric)


# ------------------------------------------------------------------------------------------------------------
# narrow labels for the defects seen before / found here (everything next to them stays under the general labels)
# ------------------------------------------------------------------------------------------------------------


def narrow_completion_label(op, df_in, exc):
    name, p = op["operation"], op["parameters"]
    msg = str(exc)
    if name == "remap_columns" and len(p["map_list"]) == 2 and "does not match length of index" in msg:
        return "C17.complete.remap_two_entry_map_hash_series"
    if name == "remap_columns" and p.get("integer_sources") and isinstance(exc, TypeError) \
            and "Invalid value for dtype 'str'" in msg:
        return "C17.complete.remap_integer_sources_text_column"
    if name == "merge_consecutive" and p.get("set_durations") and isinstance(exc, IndexError):
        return "C17.complete.merge_set_durations_unmerged_first_run"
    if name == "merge_consecutive" and p.get("set_durations") and isinstance(exc, TypeError) and "NoneType" not in msg \
            and df_in is not None and "duration" in df_in.columns:
        if (df_in["duration"].astype(str) == "n/a").any():
            return "C17.complete.merge_set_durations_na_duration"
        if str(df_in["duration"].dtype).startswith("int"):
            return "C17.complete.merge_set_durations_int_duration"
    if name == "factor_column" and "factor_values" not in p and isinstance(exc, (TypeError, IndexError)):
        return "C17.complete.D12_factor_column_without_factor_values"
    if name == "factor_column" and "factor_names" not in p and isinstance(exc, (TypeError, IndexError)):
        return "C17.complete.D12_factor_column_values_without_names"
    if name == "merge_consecutive" and "match_columns" not in p and isinstance(exc, TypeError) and "NoneType" in msg:
        return "C17.complete.D13_merge_consecutive_without_match_columns"
    if name == "split_rows" and any("copy_columns" not in s for s in p["new_events"].values()) \
            and isinstance(exc, KeyError) and "copy_columns" in msg:
        return "C17.complete.split_rows_without_copy_columns"
    return None


def int_destination_as_float(p, expected, obs):
    """the ONLY differences: in a destination column that has an unmapped (n/a) row, cells whose listed destination value is
    a JSON integer come back as the float of the same value (2 -> 2.0)"""
    ecols, erows = expected
    ocols, orows = obs
    if list(ecols) != list(ocols) or len(erows) != len(orows):
        return False
    seen = False
    for j, c in enumerate(ecols):
        col_has_na = any(r[j] is NA for r in erows)
        for er, orow in zip(erows, orows):
            e, o = er[j], orow[j]
            if e is WILD or text(e) == text(o):
                continue
            if c in p["destination_columns"] and col_has_na and isinstance(o, float) and e is not NA \
                    and text(e).lstrip("-").isdigit() and float(text(e)) == o:
                seen = True
                continue
            return False
    return seen


def mixed_text_dtypes(df, p):
    """the compared columns (match columns + the code column) mix pandas 'str' and 'object' dtypes - only tables produced
    by an earlier operation of the list do that"""
    cols = [c for c in (p.get("match_columns") or []) + [p["column_name"]] if c in df.columns]
    kinds = {str(df[c].dtype) for c in cols}
    return "object" in kinds and len(kinds) > 1


def has_d11(ops):
    return any(o["operation"] == "reorder_columns" and o["parameters"].get("keep_others") for o in ops)


# ------------------------------------------------------------------------------------------------------------
# running the real code
# ------------------------------------------------------------------------------------------------------------
_validator = None
_valid_cache = {}


def validate(ops):
    global _validator
    from hed.tools.remodeling.remodeler_validator import RemodelerValidator
    if _validator is None:
        _validator = RemodelerValidator()
    return _validator.validate(ops)


def validate_cached(ops):
    k = json.dumps(ops)
    if k not in _valid_cache:
        if len(_valid_cache) > 5000:
            _valid_cache.clear()
        _valid_cache[k] = validate(copy.deepcopy(ops))
    return _valid_cache[k]


def run_list(ops, df):
    """-> ("ok", DataFrame) | ("exc", exception)"""
    from hed.tools.remodeling.dispatcher import Dispatcher
    try:
        d = Dispatcher(ops, data_root=None, backup_name=None)
        return ("ok", d.run_operations(df))
    except Exception as e:  # observation, never a crash of the workload
        return ("exc", e)


def frames_identical(a, b):
    try:
        pd.testing.assert_frame_equal(a, b, check_exact=True, check_column_type=True, check_index_type=True)
        return list(a.columns) == list(b.columns)
    except AssertionError:
        return False


def fresh_labels(df):
    """the returned table is a new table: its rows are labelled 0..n-1 like those of a table just read from a file"""
    try:
        return list(df.index) == list(range(len(df)))
    except Exception:
        return False


def outcome_js(o):
    if o[0] == "ok":
        return {"result": js_view(view(o[1]))}
    return {"exception": type(o[1]).__name__, "message": str(o[1])[:200]}


def has_nan_cells(df):
    cols, rows = view(df)
    for r in rows:
        for c in r:
            if c is NANCELL or (isinstance(c, str) and c in ("nan", "None", "<NA>", "NaN")):
                return True
    return False


def env_note():
    return {"PYTHONHASHSEED": os.environ.get("PYTHONHASHSEED")}


# ------------------------------------------------------------------------------------------------------------
# case evaluation: returns (nontrivial, [failure tuples (clause, input, observed, expected)])
# ------------------------------------------------------------------------------------------------------------


def eval_meaning(payload):
    fails = []
    inp = dict(copy.deepcopy(payload), env=env_note())
    payload = copy.deepcopy(payload)
    ops, tab = payload["ops"], payload["table"]
    ops0 = copy.deepcopy(ops)
    errs = validate_cached(ops)
    if errs:
        fails.append(("C17.validate.valid_accepted", inp, errs, []))
        return False, fails, []
    df = build_df(tab)
    df0 = df.copy(deep=True)
    full = run_list(ops, df)
    # frame: the caller's table and the caller's operation JSON are unchanged
    if not frames_identical(df, df0):
        fails.append(("C17.frame.input_table_unchanged", inp, js_view(view(df)), js_view(view(df0))))
    if ops != ops0 or json.dumps(ops) != json.dumps(ops0):
        label = "C17.frame.D11_reorder_keep_others_extends_column_order" if has_d11(ops0) \
            else "C17.frame.ops_json_unchanged"
        fails.append((label, inp, ops, ops0))
    if full[0] == "ok" and has_nan_cells(full[1]):
        fails.append(("C17.na.preserved", inp, js_view(view(full[1])), "no NaN/None cell; n/a stays the text n/a"))
    # step-wise meaning: step k is judged on the REAL table that the prefix produced
    nontrivial = False
    checked = []
    cur = df0
    for k, op in enumerate(ops0):
        exp = ORACLES[op["operation"]](view(cur), op["parameters"])
        got = full if k == len(ops0) - 1 else run_list(copy.deepcopy(ops0[:k + 1]), df0.copy(deep=True))
        step_inp = dict(inp, step=k)
        if exp[0] == "unspec":
            break
        label = "C17.meaning." + op["operation"]
        checked.append(op["operation"] + (":raise" if exp[0] == "raise" else ""))
        if exp[0] == "raise":
            nontrivial = True
            if not (got[0] == "exc" and isinstance(got[1], exp[1])):
                narrow = narrow_completion_label(op, cur, got[1]) if got[0] == "exc" else None
                fails.append((narrow or label, step_inp, outcome_js(got), {"documented_exception": exp[1].__name__}))
            break
        if got[0] == "exc":
            nontrivial = True
            narrow = narrow_completion_label(op, cur, got[1])
            fails.append((narrow or "C17.complete.no_exception", step_inp, outcome_js(got),
                          {"result": js_view(exp[1])}))
            break
        obs = view(got[1])
        if not fresh_labels(got[1]):
            fails.append(("C17.frame.result_rows_labelled_0_to_n", step_inp, [str(i) for i in got[1].index][:12],
                          "row labels 0..%d" % (len(got[1]) - 1)))
        if k > 0:
            # the step inside the list == the same operation alone on the (re-labelled) table the prefix really produced
            alone = run_list([copy.deepcopy(op)], cur.reset_index(drop=True))
            if alone[0] != "ok" or not frames_identical(alone[1].reset_index(drop=True), got[1].reset_index(drop=True)):
                fails.append(("C17.compose.step_equals_operation_on_relabelled_intermediate", step_inp, outcome_js(got),
                              outcome_js(alone)))
        unnamed_bad = unnamed_columns_check(op, view(cur), exp[1], exp[2], obs)
        if unnamed_bad:
            fails.append(("C17.frame.unnamed_columns_untouched", step_inp, unnamed_bad[0], unnamed_bad[1]))
        if not compare(exp[1], exp[2], obs):
            if op["operation"] == "merge_consecutive" and mixed_text_dtypes(cur, op["parameters"]):
                label = "C17.meaning.merge_consecutive_mixed_str_object_columns"
            if op["operation"] == "remap_columns" and int_destination_as_float(op["parameters"], exp[1], obs):
                label = "C17.meaning.remap_integer_destination_as_float_beside_unmapped_rows"
            named = named_strings(op["parameters"]) | {"onset", "duration"}
            in_cols = set(view(cur)[0])
            is_named = lambda c: c in named or c not in in_cols
            if not (unnamed_bad and compare(project(exp[1], is_named), exp[2], project(obs, is_named))):
                # (a difference confined to the columns the operation does not name is reported under the frame clause only)
                fails.append((label, step_inp, js_view(obs), js_view(exp[1])))
            break
        if not same_table(view(cur), obs):
            nontrivial = True
        cur = got[1]
    return nontrivial, fails, checked


def eval_history(payload):
    from hed.tools.remodeling.dispatcher import Dispatcher
    fails = []
    inp = dict(copy.deepcopy(payload), env=env_note())
    payload = copy.deepcopy(payload)
    ops, tabs, seq = payload["ops"], payload["tables"], payload["sequence"]
    ops0 = copy.deepcopy(ops)
    if validate_cached(ops):
        fails.append(("C17.validate.valid_accepted", inp, validate_cached(ops), []))
        return False, fails
    refs = [run_list(copy.deepcopy(ops0), build_df(t)) for t in tabs]
    dfs = [build_df(t) for t in tabs]
    snaps = [d.copy(deep=True) for d in dfs]
    hist_label = "C17.history.D11_reorder_keep_others_order_dependent" if has_d11(ops0) \
        else "C17.history.order_independent"
    try:
        shared = Dispatcher(ops, data_root=None, backup_name=None)
    except Exception as e:
        shared = None
        if not all(r[0] == "exc" and type(r[1]) is type(e) for r in refs):
            fails.append((hist_label, inp, {"exception": type(e).__name__}, [outcome_js(r) for r in refs]))
    differs = False
    if shared is not None:
        for pos, i in enumerate(seq):
            try:
                got = ("ok", shared.run_operations(dfs[i]))
            except Exception as e:
                got = ("exc", e)
            ref = refs[i]
            if got[0] != ref[0] or (got[0] == "ok" and not frames_identical(got[1], ref[1])) or \
                    (got[0] == "exc" and type(got[1]) is not type(ref[1])):
                fails.append((hist_label, dict(inp, position=pos), outcome_js(got), outcome_js(ref)))
                break
            if got[0] == "ok" and not frames_identical(got[1], snaps[i]):
                differs = True
    for i, (d, s) in enumerate(zip(dfs, snaps)):
        if not frames_identical(d, s):
            fails.append(("C17.frame.input_table_unchanged", dict(inp, table=i), js_view(view(d)), js_view(view(s))))
            break
    if ops != ops0 or json.dumps(ops) != json.dumps(ops0):
        label = "C17.frame.D11_reorder_keep_others_extends_column_order" if has_d11(ops0) \
            else "C17.frame.ops_json_unchanged"
        fails.append((label, inp, ops, ops0))
    return differs and len(seq) > 1, fails


def eval_invalid(payload):
    inp = copy.deepcopy(payload)
    ops = copy.deepcopy(payload["ops"])
    ops0 = copy.deepcopy(ops)
    try:
        errs = validate(ops)
    except Exception as e:
        return True, [("C17.validate.invalid_reported", inp, {"exception": type(e).__name__, "message": str(e)[:200]},
                       "a non-empty list of messages")]
    fails = []
    if not (isinstance(errs, list) and errs and all(isinstance(m, str) and m.strip() for m in errs)):
        fails.append(("C17.validate.invalid_reported", inp, errs, "a non-empty list of messages"))
    elif "bad_index" in payload:
        # the list holds the same operation name several times and exactly ONE occurrence is invalid: every message that
        # names an operation number names the number of that occurrence
        nums = sorted({int(m.group(1)) for m in (_OPNUM.match(msg) for msg in errs) if m})
        if nums != [payload["bad_index"] + 1]:
            fails.append(("C17.validate.invalid_reported", dict(inp, stage="messages name the position of the invalid occurrence"),
                          {"messages": errs, "operation_numbers_named": nums}, {"operation_numbers_named": [payload["bad_index"] + 1]}))
    if ops != ops0:
        fails.append(("C17.frame.ops_json_unchanged", inp, ops, ops0))
    return True, fails


_OPNUM = re.compile(r"\s*Operation(?: dictionary)? (\d+)\b")


def eval_cli_invalid(payload):
    """invalid list (after a valid, table-changing first operation) through run_remodel.main: ValueError, no op executed"""
    import hed.tools.remodeling.cli.run_remodel as rr
    from hed.tools.remodeling.operations.valid_operations import valid_operations
    ops = payload["ops"]
    inp = dict(payload)
    tmp = tempfile.mkdtemp(prefix="c17_")
    fails = []
    calls = []
    real_disp = rr.Dispatcher
    patched = []
    try:
        data = os.path.join(tmp, "data")
        os.makedirs(os.path.join(data, "sub1"))
        f1 = os.path.join(data, "sub1", "sub1_task_x_events.tsv")
        with open(f1, "w") as fp:
            fp.write("x\ty\tz\na\t1\tn/a\nb\t1.0\ta\n")
        before = open(f1, "rb").read()
        model = os.path.join(tmp, "model.json")
        with open(model, "w") as fp:
            json.dump(ops, fp)

        class Spy(real_disp):
            def __init__(self, *a, **k):
                calls.append("Dispatcher()")
                super().__init__(*a, **k)
        rr.Dispatcher = Spy
        for cls in set(valid_operations.values()):
            orig = cls.do_op

            def make(orig, cls):
                def do_op(self, *a, **k):
                    calls.append(cls.NAME)
                    return orig(self, *a, **k)
                return do_op
            cls.do_op = make(orig, cls)
            patched.append((cls, orig))
        try:
            rr.main([data, model, "-nb", "-ns", "-x", "derivatives"])
            outcome = "completed"
        except ValueError as e:
            outcome = "ValueError"
            if not str(e).strip():
                fails.append(("C17.validate.invalid_reported", inp, "empty ValueError", "messages in the error"))
        except SystemExit as e:
            outcome = f"SystemExit({e.code})"
        except Exception as e:
            outcome = type(e).__name__ + ": " + str(e)[:150]
        after = open(f1, "rb").read() if os.path.exists(f1) else None
        listing = sorted(os.path.relpath(os.path.join(r, f), data) for r, _, fs in os.walk(data) for f in fs)
        obs = {"outcome": outcome, "executed": calls, "file_unchanged": after == before, "files": listing}
        if outcome != "ValueError" or calls or after != before or listing != ["sub1/sub1_task_x_events.tsv"]:
            fails.append(("C17.validate.not_partially_executed", inp, obs,
                          {"outcome": "ValueError", "executed": [], "file_unchanged": True}))
    finally:
        rr.Dispatcher = real_disp
        for cls, orig in patched:
            cls.do_op = orig
        shutil.rmtree(tmp, ignore_errors=True)
    return True, fails


def eval_keymap(payload):
    """the look-up table behind remap_columns used directly: KeyMap(key_cols, target_cols), one or two update() calls with
    rows in which a key may occur again (also as a fully equal row, which the JSON specification of the operation does not
    allow), then remap() of a text table.  Oracle = a plain dict filled row by row: a key that is already in the map keeps
    its row; every row of the data gets the target values of ITS key, rows whose key is not in the map get n/a and their row
    numbers are returned (remap docstring); the caller's table is not modified (remap returns a NEW dataframe); a second
    remap of the same table gives the same answer"""
    from hed.tools.analysis.key_map import KeyMap
    inp = dict(copy.deepcopy(payload), env=env_note())
    key_cols, target_cols = list(payload["key_cols"]), list(payload["target_cols"])
    fails = []
    d = {}
    for u in payload["updates"]:
        for row in u["rows"]:
            rec = dict(zip(u["cols"], row))
            k = tuple(rec.get(c, "n/a") for c in key_cols)
            if k not in d:
                d[k] = [rec.get(c, "n/a") for c in target_cols]
    data = payload["data"]
    exp_rows, exp_missing = [], []
    for i, row in enumerate(data["rows"]):
        rec = dict(zip(data["cols"], row))
        hit = d.get(tuple(rec[c] for c in key_cols))
        if hit is None:
            exp_missing.append(i)
        exp_rows.append(list(row) + (list(hit) if hit is not None else ["n/a"] * len(target_cols)))
    expected = {"cols": list(data["cols"]) + target_cols, "rows": exp_rows, "missing": exp_missing}
    try:
        km = KeyMap(key_cols, target_cols, name="c17")
        for u in payload["updates"]:
            km.update(pd.DataFrame([list(r) for r in u["rows"]], columns=list(u["cols"])))
        df = pd.DataFrame([list(r) for r in data["rows"]], columns=list(data["cols"]))
        df0 = df.copy(deep=True)
        outs = []
        for _ in range(2):
            new, missing = km.remap(df)
            outs.append({"cols": [str(c) for c in new.columns],
                         "rows": [[text(cell(v)) for v in r] for r in new.itertuples(index=False, name=None)],
                         "missing": [int(i) for i in missing]})
    except Exception as e:
        fails.append(("C17.complete.no_exception", inp, {"exception": type(e).__name__, "message": str(e)[:200]}, expected))
        return True, fails, []
    if outs[0] != expected:
        fails.append(("C17.meaning.remap_columns", inp, outs[0], expected))
    elif outs[1] != outs[0]:
        fails.append(("C17.history.order_independent", inp, outs[1], outs[0]))
    if not frames_identical(df, df0):
        fails.append(("C17.frame.input_table_unchanged", inp, js_view(view(df)), js_view(view(df0))))
    return True, fails, ["keymap"]


EVAL = {"meaning": eval_meaning, "history": eval_history, "invalid": eval_invalid, "cli_invalid": eval_cli_invalid,
        "keymap": eval_keymap}


def eval_chunk(chunk):
    out = []
    for payload in chunk:
        try:
            res = EVAL[payload["kind"]](payload)
            nontrivial, fails = res[0], res[1]
            checked = res[2] if len(res) > 2 else []
        except Exception as e:  # a fault of the workload itself: surface it, do not hide it
            import traceback
            nontrivial, fails, checked = False, [("C17.workload.internal_error", payload,
                                                  traceback.format_exc()[-600:], type(e).__name__)], []
        out.append((nontrivial, fails, checked))
    return out


# ------------------------------------------------------------------------------------------------------------
# generation of parameter sets from the PARAMS JSON schemas
# ------------------------------------------------------------------------------------------------------------


def params_schema(name):
    from hed.tools.remodeling.operations.valid_operations import valid_operations
    return valid_operations[name].PARAMS


def gen_objects(schema, pools):
    """all objects with: every required property, every subset of the optional properties (subsets violating
    dependentRequired excluded), booleans over {True, False}, other properties over pools[property]"""
    props = list(schema["properties"])
    required = list(schema.get("required", []))
    optional = [p for p in props if p not in required]
    dep = schema.get("dependentRequired", {})
    out = []
    for r in range(len(optional) + 1):
        for subset in itertools.combinations(optional, r):
            if any(k in subset and not all(d in subset or d in required for d in ds) for k, ds in dep.items()):
                continue
            names = required + list(subset)
            choices = []
            for n in names:
                if schema["properties"][n].get("type") == "boolean":
                    choices.append([True, False])
                else:
                    choices.append(pools[n])
            for combo in itertools.product(*choices):
                out.append({n: copy.deepcopy(v) for n, v in zip(names, combo)})
    return out


def op_dict(name, params):
    return {"operation": name, "description": "generated", "parameters": params}


def doc_valid(name, p):
    """constraints stated in the docstrings beyond the JSON schema"""
    if name == "factor_column":
        if "factor_names" in p and ("factor_values" not in p or len(p["factor_names"]) != len(p["factor_values"])):
            return False
    if name == "remap_columns":
        n = len(p["source_columns"]) + len(p["destination_columns"])
        if any(len(e) != n for e in p["map_list"]):
            return False
        if set(p.get("integer_sources", [])) - set(p["source_columns"]):
            return False
    if name == "merge_consecutive":
        if p["column_name"] in p.get("match_columns", []):
            return False
    return True


def remap_maps(m, n, rich):
    keys1 = ["a", "1", "n/a", "b", 1] if rich else ["a", "1", "n/a"]
    vals = ["A", "B", 2, "n/a", 2.5]
    maps = []
    keysets = [list(k) for k in itertools.product(keys1, repeat=m)]
    # key text must be unique inside one map (duplicate keys are undocumented)
    def entry(k, j):
        return list(k) + [vals[(j + d) % (len(vals) if rich else 3)] for d in range(n)]
    sizes = [1, 2, 3] if rich else [1, 2, 3]
    for size in sizes:
        for start in range(0, len(keysets), max(1, len(keysets) // (4 if rich else 2))):
            chosen, seen = [], set()
            for k in keysets[start:] + keysets[:start]:
                tk = tuple(text_json(x) for x in k)
                if tk in seen:
                    continue
                seen.add(tk)
                chosen.append(k)
                if len(chosen) == size:
                    break
            if len(chosen) == size:
                ml = [entry(k, j) for j, k in enumerate(chosen)]
                if ml not in maps:
                    maps.append(ml)
    return maps


def split_events(rich):
    from hed.tools.remodeling.operations.split_rows_op import SplitRowsOp
    nested = SplitRowsOp.PARAMS["properties"]["new_events"]["patternProperties"][".*"]
    pools = {"onset_source": [[0.5], ["duration"], [1, "v"]] if rich else [[0.5], ["duration"]],
             "duration": [[0], ["duration", 1], ["v"]] if rich else [[0], ["duration", 1]],
             "copy_columns": [["v"], ["y", "v"]] if rich else [["v"]]}
    specs = gen_objects(nested, pools)
    events = [{"new1": s} for s in specs]
    with_cc = [s for s in specs if "copy_columns" in s]
    events.append({"new1": with_cc[0], "new2": with_cc[-1]})
    events.append({"new1": with_cc[1 % len(with_cc)], "b": specs[0]})
    return events


def valid_param_sets(name, rich):
    """parameter sets of one operation: every flag setting x every optional subset x small value pools.
    returns a list of (params, table_family)"""
    S = params_schema(name)
    out = []
    if name == "remove_rows":
        pools = {"column_name": ["x", "m"] if rich else ["x"],
                 "remove_values": [["a"], ["1"], [1], ["a", "b"], [1, "a"], [1.0], ["zz"], ["1.0", "1"]]}
        out = [(p, "generic") for p in gen_objects(S, pools)]
    elif name == "remove_columns":
        pools = {"column_names": [["x"], ["y", "x"], ["m"], ["x", "m"], ["z", "y"]]}
        out = [(p, "generic") for p in gen_objects(S, pools)]
    elif name == "rename_columns":
        pools = {"column_mapping": [{"x": "p"}, {"x": "y", "y": "x"}, {"m": "p"}, {"x": "p", "m": "q"}, {"y": "q", "x": "p"}]}
        out = [(p, "generic") for p in gen_objects(S, pools)]
    elif name == "reorder_columns":
        pools = {"column_order": [["y", "x"], ["z"], ["y", "m", "x"], ["x", "y", "z"], ["x"]]}
        out = [(p, "generic") for p in gen_objects(S, pools)]
    elif name == "factor_column":
        pools = {"column_name": ["x"], "factor_values": [["a"], ["a", "1"], ["1.0", "zz"], ["b", "1", "a"]],
                 "factor_names": [["p"], ["p", "q"], ["q", "p", "r"]]}
        out = [(p, "generic") for p in gen_objects(S, pools) if doc_valid(name, p)]
    elif name == "remap_columns":
        for src in ([["x"], ["x", "y"]] if rich else [["x"], ["x", "y"]]):
            for dst in ([["p"], ["p", "q"], ["z"]] if rich else [["p"], ["z", "q"]]):
                pools = {"source_columns": [src], "destination_columns": [dst],
                         "map_list": remap_maps(len(src), len(dst), rich), "integer_sources": [["x"]]}
                for p in gen_objects(S, pools):
                    out.append((p, "intkey" if "integer_sources" in p else "generic"))
    elif name == "merge_consecutive":
        pools = {"column_name": ["x", "m"] if rich else ["x"], "event_code": ["a", 1, "1", 1.0] if rich else ["a", 1, "1"],
                 "match_columns": [[], ["y"], ["y", "m"], ["y", "z"]] if rich else [[], ["y"], ["y", "m"]]}
        for p in gen_objects(S, pools):
            if not doc_valid(name, p):
                continue
            out.append((p, "time" if p["set_durations"] else "generic"))
            if p["set_durations"] and p["ignore_missing"] and p["event_code"] == "a":
                out.append((p, "generic"))   # documented ValueError: no onset/duration columns
    elif name == "split_rows":
        pools = {"anchor_column": ["x", "m"] if rich else ["x"], "new_events": split_events(rich)}
        out = [(p, "time") for p in gen_objects(S, pools)]
        out.append((out[0][0], "generic"))   # documented ValueError: no onset column
    return out


# ------------------------------------------------------------------------------------------------------------
# generation of tables
# ------------------------------------------------------------------------------------------------------------


def generic_tables(rng, n_f1, n_f2, n_f3):
    """<=3x3 tables over ALPHABET.  F1: one column x, all value vectors (155).  F2: columns x,y.  F3: three columns in
    several orders / with a column missing.  Returns a deterministic sample of each family (all of F1 if n_f1>=155)"""
    f1 = [{"cols": ["x"], "rows": [[v] for v in vec]} for n in (1, 2, 3) for vec in itertools.product(ALPHABET, repeat=n)]
    f2 = []
    for n in (1, 2):
        for vec in itertools.product(ALPHABET, repeat=2 * n):
            f2.append({"cols": ["x", "y"], "rows": [list(vec[2 * i:2 * i + 2]) for i in range(n)]})
    f2_3 = []
    for _ in range(600):
        f2_3.append({"cols": ["x", "y"], "rows": [[rng.choice(ALPHABET), rng.choice(ALPHABET)] for _ in range(3)]})
    f3 = []
    layouts = [["x", "y", "z"], ["z", "y", "x"], ["y", "x"], ["y", "z", "x"], ["z", "x"]]
    for _ in range(600):
        cols = rng.choice(layouts)
        n = rng.choice((1, 2, 3, 3))
        base = [[rng.choice(ALPHABET) for _ in cols] for _ in range(n)]
        if n > 1 and rng.random() < 0.5:     # duplicate / consecutive-equal rows
            base[1] = list(base[0])
        if n > 2 and rng.random() < 0.3:
            base[2] = list(base[1])
        f3.append({"cols": cols, "rows": base})

    def pick(fam, k):
        if k >= len(fam):
            return list(fam)
        return rng.sample(fam, k)
    return pick(f1, n_f1) + pick(f2 + f2_3, n_f2) + pick(f3, n_f3)


def intkey_tables(rng, k):
    """tables whose x column holds integer text or n/a (for integer_sources)"""
    vals = ["1", "2", "n/a"]
    fam = []
    for n in (1, 2, 3):
        for vec in itertools.product(vals, repeat=n):
            for ycol in (None, "a", "1"):
                if ycol is None:
                    fam.append({"cols": ["x"], "rows": [[v] for v in vec]})
                else:
                    fam.append({"cols": ["y", "x", "z"], "rows": [[ycol, v, "b"] for v in vec]})
    return fam if k >= len(fam) else rng.sample(fam, k)


def time_tables(rng, k):
    """onset, duration + data columns x (codes), v (numeric-looking), y (match column); <=3 rows"""
    onsets = ["1", "2", "2.5", "4", "1.0"]
    durs = ["1", "0.5", "2", "n/a"]
    xs = ["a", "b", "1", "n/a"]
    fam = []
    for n in (1, 2, 3):
        for _ in range(400):
            layout = rng.choice([["onset", "duration", "x"], ["onset", "duration", "x", "v"],
                                 ["onset", "duration", "x", "y"], ["x", "duration", "onset", "v"],
                                 ["onset", "duration", "x", "v", "y"], ["onset", "duration", "v", "y"]])
            on = sorted((rng.choice(onsets) for _ in range(n)), key=float) if rng.random() < 0.7 else \
                [rng.choice(onsets + ["n/a"]) for _ in range(n)]
            mode = rng.random()
            rows = []
            for i in range(n):
                r = {}
                r["onset"] = on[i]
                r["duration"] = rng.choice(durs[:3]) if mode < 0.6 else ("1" if mode < 0.75 else rng.choice(durs))
                r["x"] = "a" if rng.random() < 0.55 else rng.choice(xs)
                r["v"] = rng.choice(["1", "1.0", "n/a", "a"])
                r["y"] = rng.choice(["a", "a", "b", "n/a"])
                rows.append([r[c] for c in layout])
            fam.append({"cols": layout, "rows": rows})
    uniq, seen = [], set()
    for t in fam:
        s = json.dumps(t)
        if s not in seen:
            seen.add(s)
            uniq.append(t)
    picked = uniq if k >= len(uniq) else rng.sample(uniq, k)
    return [copy.deepcopy(t) for t in TIME_FIXED] + [t for t in picked if t not in TIME_FIXED]


# always included (they isolate findings that depend on a particular shape of the time columns)
TIME_FIXED = [
    # first run of the code is a single row (no merge), the second run merges
    {"cols": ["onset", "duration", "x", "y"], "rows": [["2", "2", "a", "n/a"], ["4", "0.5", "a", "a"], ["4.5", "1", "a", "a"]]},
    # integer duration column, fractional extent
    {"cols": ["onset", "duration", "x", "y"], "rows": [["1.0", "1", "a", "a"], ["2.5", "1", "a", "a"]]},
    # n/a in the duration column
    {"cols": ["onset", "duration", "x", "y"], "rows": [["1", "n/a", "a", "a"], ["2", "2", "a", "a"], ["4", "1", "b", "a"]]},
    # all-float columns, three merged rows
    {"cols": ["onset", "duration", "x", "v", "y"], "rows": [["1.0", "0.5", "a", "1", "b"], ["2.5", "0.5", "a", "n/a", "b"], ["4.0", "2.0", "a", "1.0", "b"]]},
]


def time_ok_for(name, p, tab):
    """keep the meaning cases inside 'values of the expected kind': numeric onsets for the time-based operations"""
    if "onset" not in tab["cols"]:
        return True
    i = tab["cols"].index("onset")
    if name == "merge_consecutive":
        return all(r[i] != "n/a" for r in tab["rows"])
    return True


# ------------------------------------------------------------------------------------------------------------
# invalid lists
# ------------------------------------------------------------------------------------------------------------
WRONG = {"string": 5, "boolean": "yes", "array": "x", "object": ["x"], "number": "1"}


def a_valid_params(name):
    base = {
        "remove_rows": {"column_name": "x", "remove_values": ["a"]},
        "remove_columns": {"column_names": ["x"], "ignore_missing": True},
        "rename_columns": {"column_mapping": {"x": "p"}, "ignore_missing": True},
        "reorder_columns": {"column_order": ["y", "x"], "ignore_missing": True, "keep_others": False},
        "factor_column": {"column_name": "x", "factor_values": ["a", "b"], "factor_names": ["p", "q"]},
        "remap_columns": {"source_columns": ["x"], "destination_columns": ["p"], "map_list": [["a", "A"], ["b", "B"], ["1", "C"]],
                          "ignore_missing": True, "integer_sources": ["x"]},
        "merge_consecutive": {"column_name": "x", "event_code": "a", "set_durations": False, "ignore_missing": True,
                              "match_columns": ["y"]},
        "split_rows": {"anchor_column": "x", "remove_parent_row": False,
                       "new_events": {"n1": {"onset_source": [0.5], "duration": [0], "copy_columns": ["y"]}}},
    }
    return copy.deepcopy(base[name])


def invalid_lists():
    """(why, ops) - each list violates the JSON specification or a documented constraint in exactly one place"""
    out = []
    good = op_dict("remove_columns", {"column_names": ["y"], "ignore_missing": True})
    out.append(("empty list", []))
    out.append(("not a list", {"operation": "remove_rows"}))
    out.append(("operation is not a dict", ["remove_rows"]))
    out.append(("unknown operation", [op_dict("no_such_op", {})]))
    for k in ("operation", "description", "parameters"):
        o = copy.deepcopy(good)
        del o[k]
        out.append((f"missing top-level {k}", [o]))
    o = copy.deepcopy(good)
    o["extra"] = 1
    out.append(("additional top-level field", [o]))
    o = copy.deepcopy(good)
    o["parameters"] = ["y"]
    out.append(("parameters not an object", [o]))
    o = copy.deepcopy(good)
    o["description"] = 3
    out.append(("description not a string", [o]))
    for name in OPS8:
        S = params_schema(name)
        base = a_valid_params(name)
        for req in S["required"]:
            p = copy.deepcopy(base)
            del p[req]
            out.append((f"{name}: required {req} missing", [op_dict(name, p)]))
        for prop, spec in S["properties"].items():
            t = spec.get("type")
            if isinstance(t, list):
                p = copy.deepcopy(base)
                p[prop] = {"a": 1}
                out.append((f"{name}: {prop} has wrong type", [op_dict(name, p)]))
            else:
                p = copy.deepcopy(base)
                p[prop] = WRONG[t]
                out.append((f"{name}: {prop} has wrong type", [op_dict(name, p)]))
            if t == "array":
                if spec.get("minItems"):
                    p = copy.deepcopy(base)
                    p[prop] = []
                    out.append((f"{name}: {prop} empty (minItems)", [op_dict(name, p)]))
                if spec.get("uniqueItems"):
                    p = copy.deepcopy(base)
                    p[prop] = list(base[prop]) + [copy.deepcopy(base[prop][0])]
                    out.append((f"{name}: {prop} repeats an item (uniqueItems)", [op_dict(name, p)]))
                it = spec.get("items", {}).get("type")
                if it == "string":
                    p = copy.deepcopy(base)
                    p[prop] = [3]
                    out.append((f"{name}: {prop} item of wrong type", [op_dict(name, p)]))
            if t == "object" and spec.get("minProperties"):
                p = copy.deepcopy(base)
                p[prop] = {}
                out.append((f"{name}: {prop} empty (minProperties)", [op_dict(name, p)]))
        p = copy.deepcopy(base)
        p["unexpected"] = 1
        out.append((f"{name}: additional parameter", [op_dict(name, p)]))
    # dependentRequired and documented constraints beyond the schema
    out.append(("factor_column: factor_names without factor_values",
                [op_dict("factor_column", {"column_name": "x", "factor_names": ["p"]})]))
    out.append(("factor_column: names/values of different length",
                [op_dict("factor_column", {"column_name": "x", "factor_names": ["p"], "factor_values": ["a", "b"]})]))
    p = a_valid_params("remap_columns")
    p["map_list"] = [["a", "A"], ["b"]]
    out.append(("remap_columns: map_list entry of wrong length", [op_dict("remap_columns", p)]))
    p = a_valid_params("remap_columns")
    p["integer_sources"] = ["y"]
    out.append(("remap_columns: integer_sources not among the sources", [op_dict("remap_columns", p)]))
    p = a_valid_params("merge_consecutive")
    p["match_columns"] = ["y", "x"]
    out.append(("merge_consecutive: column_name among match_columns", [op_dict("merge_consecutive", p)]))
    p = a_valid_params("split_rows")
    del p["new_events"]["n1"]["duration"]
    out.append(("split_rows: new event without duration", [op_dict("split_rows", p)]))
    p = a_valid_params("split_rows")
    p["new_events"]["n1"]["other"] = 1
    out.append(("split_rows: new event with unexpected field", [op_dict("split_rows", p)]))
    p = a_valid_params("split_rows")
    p["new_events"]["n1"]["onset_source"] = []
    out.append(("split_rows: empty onset_source", [op_dict("split_rows", p)]))
    return out


def invalid_occurrences():
    """name -> [(why, operation dict)]: every one-operation list of invalid_lists() whose operation is one of the 8"""
    out = {name: [] for name in OPS8}
    for why, ops in invalid_lists():
        if isinstance(ops, list) and len(ops) == 1 and isinstance(ops[0], dict) and ops[0].get("operation") in out:
            out[ops[0]["operation"]].append((why, ops[0]))
    good = {name: op_dict(name, a_valid_params(name)) for name in OPS8}
    for name in OPS8:       # top-level violations for every name (invalid_lists has them for remove_columns only)
        if name != "remove_columns":
            o = copy.deepcopy(good[name])
            del o["description"]
            out[name].append((f"{name}: missing top-level description", o))
            o = copy.deepcopy(good[name])
            o["parameters"] = ["y"]
            out[name].append((f"{name}: parameters not an object", o))
    return out


def repeated_name_cases(rng, quick):
    """lists in which ONE operation name occurs 2 or 3 times.
    invalid: exactly one occurrence (every position) is invalid in one place, the other occurrences are valid and differ from
    one another (3 valid parameter sets per name, rotated); also with a valid operation of another name put in front or in
    between, so that the number of the operation in the list differs from the number of the occurrence of the name.
    valid: 3 occurrences with valid parameter sets on the pair tables (judged step by step by the meaning oracles)"""
    inv = invalid_occurrences()
    other = {name: op_dict(OPS8[(i + 3) % len(OPS8)], a_valid_params(OPS8[(i + 3) % len(OPS8)])) for i, name in enumerate(OPS8)}
    cases = []
    k = 0
    for name in OPS8:
        valids = [a_valid_params(name)] + copy.deepcopy(PAIR_PARAMS[name])
        for why, bad in inv[name]:
            k += 1
            shapes = [(n, pos) for n in (2, 3) for pos in range(n)]
            cli_shape = shapes[k % len(shapes)]
            for n, pos in shapes:
                ops = [copy.deepcopy(bad) if i == pos else op_dict(name, copy.deepcopy(valids[(k + i) % 3])) for i in range(n)]
                tag = f"{why}; occurrence {pos + 1} of {n} x {name}"
                cases.append({"kind": "invalid", "why": tag, "ops": ops, "bad_index": pos, "part": "repeated-name"})
                if (n, pos) == cli_shape:
                    cases.append({"kind": "cli_invalid", "why": tag, "ops": copy.deepcopy(ops), "part": "repeated-name"})
                if n == 2 or not quick:
                    # a valid operation of another name in front (pos 0) / between the occurrences
                    at = 0 if (k + pos) % 2 == 0 else 1
                    ops2 = copy.deepcopy(ops)
                    ops2.insert(at, copy.deepcopy(other[name]))
                    cases.append({"kind": "invalid", "why": tag + f", {other[name]['operation']} inserted at {at}", "ops": ops2,
                                  "bad_index": pos + (1 if at <= pos else 0), "part": "repeated-name"})
    n_inv = len(cases)
    tabs = pair_tables(rng, 3 if quick else 8)
    for name in OPS8:
        P = PAIR_PARAMS[name]
        for idx in ((0, 1, 0), (1, 0, 1), (0, 0, 1), (1, 1, 0)):
            for t in tabs:
                cases.append({"kind": "meaning", "ops": [op_dict(name, copy.deepcopy(P[i])) for i in idx], "table": copy.deepcopy(t),
                              "part": "repeated-name"})
    return cases, n_inv, len(cases) - n_inv


# ------------------------------------------------------------------------------------------------------------
# the workload
# ------------------------------------------------------------------------------------------------------------
SEQS_ALL = [list(s) for n in (1, 2, 3) for s in itertools.product(range(3), repeat=n)]
SEQS_QUICK = [[0], [2], [0, 0], [1, 0], [2, 1, 0], [0, 1, 0], [1, 2, 1], [2, 0, 2]]

HIST_TABLE_SETS = {
    "generic": [
        [{"cols": ["x", "y", "z"], "rows": [["a", "1", "n/a"], ["a", "1", "b"], ["1", "n/a", "1.0"]]},
         {"cols": ["z", "x"], "rows": [["a", "a"], ["b", "1"]]},
         {"cols": ["y", "w", "x"], "rows": [["1.0", "a", "a"], ["1.0", "a", "a"], ["b", "n/a", "n/a"]]}],
        [{"cols": ["x"], "rows": [["1"], ["1"], ["a"]]},
         {"cols": ["y", "x", "z"], "rows": [["n/a", "a", "b"]]},
         {"cols": ["x", "z"], "rows": [["1.0", "b"], ["a", "a"]]}],
    ],
    "intkey": [
        [{"cols": ["x", "y", "z"], "rows": [["1", "a", "n/a"], ["2", "1", "b"], ["n/a", "n/a", "1.0"]]},
         {"cols": ["z", "x"], "rows": [["a", "1"], ["b", "1"]]},
         {"cols": ["y", "w", "x"], "rows": [["1.0", "a", "2"], ["a", "a", "n/a"]]}],
    ],
    "time": [
        [{"cols": ["onset", "duration", "x", "v"], "rows": [["1", "1", "a", "1"], ["2", "0.5", "a", "n/a"], ["4", "2", "b", "1.0"]]},
         {"cols": ["x", "onset", "duration", "y", "v"], "rows": [["a", "1.0", "2", "a", "1"], ["a", "2.5", "1", "a", "1"]]},
         {"cols": ["onset", "duration", "v", "w", "x"], "rows": [["2", "1", "1", "q", "b"], ["2", "1", "n/a", "q", "a"], ["4", "1", "1", "r", "a"]]}],
    ],
}


FIXED_COMPOSED = [
    # remap leaves an object-dtype destination column; merge_consecutive then compares rows over str and object columns
    ([op_dict("remap_columns", {"source_columns": ["x"], "destination_columns": ["z"],
                                "map_list": [["a", "A"], ["1", "B"], ["n/a", 2]], "ignore_missing": True}),
      op_dict("merge_consecutive", {"column_name": "x", "event_code": "1", "set_durations": False, "ignore_missing": True,
                                    "match_columns": ["y", "z"]})],
     {"cols": ["x", "y"], "rows": [["1", "n/a"], ["1", "n/a"], ["a", "b"]]}),
    ([op_dict("rename_columns", {"column_mapping": {"x": "p"}, "ignore_missing": False}),
      op_dict("reorder_columns", {"column_order": ["y", "p"], "ignore_missing": False, "keep_others": False}),
      op_dict("remove_rows", {"column_name": "p", "remove_values": ["a", 1]})],
     {"cols": ["x", "y", "z"], "rows": [["a", "1", "n/a"], ["1", "n/a", "b"], ["n/a", "1.0", "a"]]}),
    ([op_dict("factor_column", {"column_name": "x", "factor_values": ["a", "1"], "factor_names": ["fa", "f1"]}),
      op_dict("remove_columns", {"column_names": ["x", "m"], "ignore_missing": True}),
      op_dict("merge_consecutive", {"column_name": "fa", "event_code": 1, "set_durations": False, "ignore_missing": True,
                                    "match_columns": ["y"]})],
     {"cols": ["x", "y"], "rows": [["a", "n/a"], ["a", "n/a"], ["1", "b"]]}),
]


def composed_lists(rng, singles, n):
    """2-3 operation lists sampled from the valid single-operation parameter sets on generic tables"""
    pool = [(name, p) for name in OPS8 for p, fam in singles[name] if fam == "generic"
            and not narrow_params(name, p)]
    out = []
    for _ in range(n):
        k = rng.choice((2, 2, 3))
        out.append([op_dict(nm, copy.deepcopy(p)) for nm, p in (rng.choice(pool) for _ in range(k))])
    return out


def narrow_params(name, p):
    """parameter sets that are known to crash (kept out of COMPOSED lists only, so those test the rest)"""
    return (name == "factor_column" and ("factor_values" not in p or "factor_names" not in p)) or \
        (name == "merge_consecutive" and "match_columns" not in p) or \
        (name == "split_rows" and any("copy_columns" not in s for s in p["new_events"].values()))


PAIR_PARAMS = {
    "remove_rows": [{"column_name": "x", "remove_values": ["b"]}, {"column_name": "y", "remove_values": ["b", 1]}],
    "remove_columns": [{"column_names": ["v"], "ignore_missing": True}, {"column_names": ["y", "m"], "ignore_missing": True}],
    "rename_columns": [{"column_mapping": {"v": "w"}, "ignore_missing": False},
                       {"column_mapping": {"y": "q", "m": "p"}, "ignore_missing": True}],
    "reorder_columns": [{"column_order": ["x", "onset", "duration"], "ignore_missing": True, "keep_others": True},
                        {"column_order": ["duration", "onset", "y", "x"], "ignore_missing": True, "keep_others": False}],
    "factor_column": [{"column_name": "x", "factor_values": ["a", "b"], "factor_names": ["fa", "fb"]},
                      {"column_name": "y", "factor_values": ["a"], "factor_names": ["ya"]}],
    "remap_columns": [{"source_columns": ["x"], "destination_columns": ["r"], "map_list": [["a", "A"], ["b", "B"], ["1", "C"]],
                       "ignore_missing": True},
                      {"source_columns": ["x", "y"], "destination_columns": ["r"],
                       "map_list": [["a", "a", "AA"], ["a", "b", "AB"], ["b", "a", "BA"]], "ignore_missing": True}],
    "merge_consecutive": [{"column_name": "x", "event_code": "a", "set_durations": True, "ignore_missing": True,
                           "match_columns": ["y"]},
                          {"column_name": "x", "event_code": "a", "set_durations": False, "ignore_missing": True,
                           "match_columns": []}],
    "split_rows": [{"anchor_column": "x", "remove_parent_row": False,
                    "new_events": {"new1": {"onset_source": [0.25], "duration": [0], "copy_columns": ["y"]}}},
                   {"anchor_column": "x", "remove_parent_row": True,
                    "new_events": {"a": {"onset_source": ["duration"], "duration": [0.5], "copy_columns": ["y", "x"]}}}],
}


def pair_tables(rng, k):
    """4-6 rows; onset increasing, numeric duration, code column x with runs of 'a' broken by 'b' rows (so that removing
    the 'b' rows makes runs adjacent), match column y, numeric-looking column v"""
    cols_variants = [["onset", "duration", "x", "y", "v"], ["x", "onset", "y", "duration", "v"]]
    fixed = [
        {"cols": cols_variants[0], "rows": [["1.0", "0.5", "a", "a", "1"], ["2.0", "0.5", "b", "a", "1"], ["3.0", "0.5", "a", "a", "n/a"],
                                            ["4.0", "0.5", "a", "a", "1"], ["5.0", "0.5", "a", "a", "1.0"], ["6.0", "0.5", "b", "b", "a"]]},
        {"cols": cols_variants[0], "rows": [["1", "1", "b", "b", "1"], ["2", "1", "a", "a", "1"], ["3", "2", "a", "a", "1"],
                                            ["4.5", "1", "b", "a", "1"], ["5", "1", "a", "b", "1"], ["7", "0.5", "a", "b", "1"]]},
    ]
    out = [copy.deepcopy(t) for t in fixed]
    while len(out) < k:
        n = rng.choice((4, 5, 6))
        cols = cols_variants[len(out) % 2]
        t = 0.0
        rows = []
        for _ in range(n):
            t += rng.choice((0.5, 1.0, 1.5))
            r = {"onset": repr(t), "duration": rng.choice(("0.5", "1.0", "2.0")),
                 "x": rng.choice(("a", "a", "a", "b", "n/a")), "y": rng.choice(("a", "a", "b", "n/a")),
                 "v": rng.choice(("1", "1.0", "n/a", "a"))}
            rows.append([r[c] for c in cols])
        tab = {"cols": cols, "rows": rows}
        if tab not in out:
            out.append(tab)
    return out


EXTRA_TEXT = ['said "go"', "it's late", " lead", "trail ", "007", "1.50", "n/a", "'q'", 'a "b" c', "5'", "x", "-3", "1e3", "a b",
              'end"', "''", 'he said: "a", then "b"', "n/a ", "N/A", "3'4\""]


def add_extra_columns(tab, rng, k):
    """two further columns, 'note' and 'memo' (named by no generated operation), holding text with double / single quotes,
    leading / trailing blanks, numbers written as text and n/a; inserted last, first or between the other columns"""
    t = copy.deepcopy(tab)
    n = len(t["rows"])
    for j, name in enumerate(("note", "memo")):
        pos = [len(t["cols"]), 0, len(t["cols"]) // 2][(k + j) % 3]
        quoted = ['said "go"', "it's late", "'q'", 'a "b" c', "5'", 'end"', "''", 'he said: "a", then "b"', "3'4\""]
        # the first cell always carries a quote character (this also keeps the column a text column for the tsv parse)
        cells = [quoted[(k + 4 * j) % len(quoted)] if i == 0 else EXTRA_TEXT[(k * 5 + j * 7 + 3 * i) % len(EXTRA_TEXT)] for i in range(n)]
        if j == 1 and n > 1 and k % 2:
            cells[1] = rng.choice(EXTRA_TEXT)
        t["cols"].insert(pos, name)
        for r, c in zip(t["rows"], cells):
            r.insert(pos, c)
    return t


def extra_column_cases(rng, singles, quick):
    """every operation (the pair parameter sets + a sample of the generated parameter sets) alone, and every ordered pair of
    operations, on tables that carry the two extra text columns"""
    cases = []
    k = 0
    gen = generic_tables(rng, 2, 6, 8)
    ints = intkey_tables(rng, 6)
    times = time_tables(rng, 10)
    pairs_t = pair_tables(rng, 4 if quick else 10)
    for name in OPS8:
        psets = [(p, "pair") for p in PAIR_PARAMS[name]]
        pool = singles[name]
        step = max(1, len(pool) // (6 if quick else 30))
        psets += pool[::step]
        for p, fam in psets:
            tabs = {"pair": pairs_t, "generic": gen, "intkey": ints, "time": times}[fam]
            if fam == "time":
                tabs = [t for t in tabs if time_ok_for(name, p, t)]
            for t in tabs[:(3 if quick else 10)] if fam != "pair" else tabs:
                k += 1
                cases.append({"kind": "meaning", "ops": [op_dict(name, copy.deepcopy(p))], "table": add_extra_columns(t, rng, k),
                              "part": "extra-columns"})
    for n1 in OPS8:
        for n2 in OPS8:
            for t in pairs_t[:(1 if quick else 3)]:
                k += 1
                cases.append({"kind": "meaning", "ops": [op_dict(n1, copy.deepcopy(PAIR_PARAMS[n1][k % 2])),
                                                         op_dict(n2, copy.deepcopy(PAIR_PARAMS[n2][(k // 2) % 2]))],
                              "table": add_extra_columns(t, rng, k), "part": "extra-columns"})
    # generator precondition: the extra cells reach the operation as written (the tsv parse keeps them)
    for c in cases:
        cols, rows = view(build_df(c["table"]))
        for r, r0 in zip(rows, c["table"]["rows"]):
            for name in ("note", "memo"):
                a, b = text(r[cols.index(name)]), r0[c["table"]["cols"].index(name)]
                if a != b:
                    raise AssertionError("workload precondition: extra cell %r parsed as %r" % (b, a))
    return cases


def pair_cases(rng, n_tables):
    tabs = pair_tables(rng, n_tables)
    cases = []
    for n1 in OPS8:
        for n2 in OPS8:
            for p1 in PAIR_PARAMS[n1]:
                for p2 in PAIR_PARAMS[n2]:
                    for t in tabs:
                        cases.append({"kind": "meaning", "ops": [op_dict(n1, copy.deepcopy(p1)), op_dict(n2, copy.deepcopy(p2))],
                                      "table": copy.deepcopy(t), "part": "pairs"})
    return cases


# ---- remap_columns / KeyMap: map lists in which a key occurs in more than one row ------------------------------------------
# (source columns, destination columns, integer sources)
REPKEY_CONFIGS = [
    (["x"], ["p"], None),
    (["x"], ["p", "q"], None),
    (["x", "y"], ["p"], None),
    (["y", "x"], ["q", "p"], None),          # sources listed in another order than the table has them
    (["x"], ["p"], ["x"]),
    (["x", "y"], ["p", "q"], ["x"]),
]
# how often the 1st, 2nd, ... distinct key is listed (rows of one map = the sum)
REPKEY_SHAPES = [(1, 1, 1), (2, 1), (2, 1, 1), (3, 1), (2, 2), (2, 1, 1, 1), (1, 2, 1)]
REPKEY_DEST = [["A", "B", "C", "D", "E", "F"], ["u", "v", "w", "s", "t", "r"]]


def repkey_pool(src, ints, k):
    """the distinct keys (dicts column -> JSON value) a map can list, and codes / code combinations that no map lists"""
    two = len(src) > 1
    if ints:
        xs = [1, 2, 3, 4] if k % 2 == 0 else ["1", "2", "3", "4"]      # JSON numbers or the same integers written as text
        x_other = ["7", "n/a"]
    else:
        xs = ["a", "b", "c", "n/a"]
        x_other = ["zz", "1"]
    if not two:
        return [{"x": v} for v in xs], [{"x": v} for v in x_other]
    keys = [{"x": xs[0], "y": "a"}, {"x": xs[0], "y": "b"}, {"x": xs[1], "y": "a"}, {"x": xs[2] if ints else "n/a", "y": "b"}]
    other = [{"x": xs[1], "y": "b"}, {"x": x_other[0], "y": "a"}, {"x": xs[0], "y": "n/a"}, {"x": "n/a", "y": "a"}]
    return keys, other


def repkey_maps(rng, src, dst, ints, quick, k0):
    """(map_list, distinct keys listed) - for every shape: the base rows (key i listed shape[i] times, every ROW with destination
    values of its own so that any row taken for another shows) in every order of the rows (<=4 rows; a seeded sample beyond /
    in the quick tier).  Variants: 'distinct' - all destination values differ; 'partly_equal' (two destinations) - a row that
    lists a key again repeats the first destination value of that key's first row and differs in the second; 'same_text' (one
    destination) - the row listed again has the number 2 where the first has the text "2" (distinct rows for the JSON
    specification, equal text in the table); 'numbers' - every destination value a JSON integer of its own"""
    out = []
    k = k0
    for shape in REPKEY_SHAPES:
        for variant in ("distinct", "partly_equal" if len(dst) == 2 else "same_text", "numbers"):
            if variant == "numbers" and shape not in REPKEY_SHAPES[:3]:
                continue
            k += 1
            keys, _ = repkey_pool(src, ints, k)
            rows = []
            first_of = {}
            for ki, times in enumerate(shape):
                for t in range(times):
                    i = len(rows)
                    dest = [REPKEY_DEST[d][i] for d in range(len(dst))]
                    if variant == "numbers":
                        dest = [10 * (d + 1) + i for d in range(len(dst))]
                    if t == 0:
                        first_of[ki] = i
                        if variant == "same_text" and times > 1:
                            dest[0] = "2"
                    elif variant == "partly_equal":
                        dest[0] = rows[first_of[ki]][len(src)]
                    elif variant == "same_text" and t == 1:
                        dest[0] = 2
                    rows.append([keys[ki][c] for c in src] + dest)
            if variant not in ("distinct", "numbers") and max(shape) == 1:
                continue
            perms = list(itertools.permutations(range(len(rows))))
            cap = 12 if quick else 60
            if len(perms) > cap and (quick or len(rows) > 4):
                perms = [perms[0], perms[-1]] + rng.sample(perms[1:-1], cap - 2)
            for perm in perms:
                out.append(([copy.deepcopy(rows[i]) for i in perm], [keys[ki] for ki in range(len(shape))]))
    return out


def repkey_table(src, ints, k, listed, kind):
    """'all': every key of the pool (listed by the map or not) + codes no map lists + an n/a row; 'sub': only keys the map
    lists, one of them twice, one of them left out (a key missing from the data); 'none': only codes the map does not list.
    A column z (and y, when it is not a source) rides along."""
    keys, other = repkey_pool(src, ints, k)
    if kind == "all":
        recs = keys[k % len(keys):] + keys[:k % len(keys)] + other + [keys[0]]
    elif kind == "sub":
        sub = [r for i, r in enumerate(listed) if len(listed) == 1 or i != k % len(listed)]
        recs = sub[::-1] + sub[:1] + sub
    else:
        recs = other + other[:1]
    cols = [["x", "y", "z"], ["z", "y", "x"], ["y", "z", "x"]][k % 3]
    zs = ["b", "n/a", "1", "a", "1.0"]
    rows = []
    for i, r in enumerate(recs):
        rec = {"x": str(r["x"]), "y": str(r.get("y", ["a", "n/a", "b"][i % 3])), "z": zs[(i + k) % len(zs)]}
        rows.append([rec[c] for c in cols])
    return {"cols": cols, "rows": rows}


REPKEY_COMBOS = [("all", True), ("sub", False), ("all", False), ("none", True), ("sub", True), ("none", False)]


def repkey_cases(rng, quick):
    """remap_columns through the validator and the Dispatcher (kind meaning), the same operation over three tables in several
    orders through one Dispatcher (kind history), and KeyMap used directly (kind keymap)"""
    cases = []
    k = 0
    for src, dst, ints in REPKEY_CONFIGS:
        maps = repkey_maps(rng, src, dst, ints, quick, k)
        for j, (ml, listed) in enumerate(maps):
            k += 1
            combos = [REPKEY_COMBOS[(k + d) % len(REPKEY_COMBOS)] for d in ((0, 2) if quick else range(len(REPKEY_COMBOS)))]
            for kind, ignore in combos:
                p = {"source_columns": list(src), "destination_columns": list(dst), "map_list": copy.deepcopy(ml),
                     "ignore_missing": ignore}
                if ints:
                    p["integer_sources"] = list(ints)
                cases.append({"kind": "meaning", "ops": [op_dict("remap_columns", p)],
                              "table": repkey_table(src, ints, k, listed, kind), "part": "repeated-keys"})
            if j % (16 if quick else 4) == 0:
                p = {"source_columns": list(src), "destination_columns": list(dst), "map_list": copy.deepcopy(ml),
                     "ignore_missing": True}
                if ints:
                    p["integer_sources"] = list(ints)
                tset = [repkey_table(src, ints, k + d, listed, kind) for d, kind in enumerate(("all", "sub", "none"))]
                for s in (SEQS_QUICK[3:7] if quick else SEQS_ALL):
                    cases.append({"kind": "history", "ops": [op_dict("remap_columns", p)], "tables": tset, "sequence": s,
                                  "part": "repeated-keys"})
            if ints or j % (2 if quick else 1):
                continue
            # KeyMap directly: text rows; the rows of the map given in one update or split over two; a fully equal row added;
            # the target columns present in the update or absent (then n/a)
            rows = [[str(v) for v in r] for r in ml]
            cols = list(src) + list(dst)
            data = repkey_table(src, None, k, listed, "all" if j % 4 else "sub")
            cut = 1 + (k % (len(rows) - 1)) if len(rows) > 1 else 1
            variants = [[{"cols": cols, "rows": rows}],
                        [{"cols": cols, "rows": rows[:cut]}, {"cols": cols, "rows": rows[cut:] + rows[:1]}],
                        [{"cols": cols, "rows": rows + [rows[-1]]}]]
            if j % 6 == 0:
                variants.append([{"cols": list(src), "rows": [r[:len(src)] for r in rows]}])
            for ups in variants:
                cases.append({"kind": "keymap", "key_cols": list(src), "target_cols": list(dst), "updates": ups, "data": data,
                              "part": "repeated-keys"})
    return cases


def build_cases(w):
    rng = w.rng
    quick = w.quick
    singles = {name: valid_param_sets(name, rich=not quick) for name in OPS8}
    cases = []
    counts = {}
    # ---- meaning: single operation x tables
    n_generic = (8, 10, 8) if quick else (155, 180, 100)
    n_time = 28 if quick else 300
    n_int = 10 if quick else 120
    for name in OPS8:
        psets = singles[name]
        cap = 70 if quick else 140
        if len(psets) > cap:
            keep = rng.sample(range(len(psets)), cap)
            psets = [psets[i] for i in sorted(keep)]
            # make sure every optional subset / flag combination of the op is still present
            seen = {sig(p) for p, _ in psets}
            for p, fam in singles[name]:
                if sig(p) not in seen:
                    seen.add(sig(p))
                    psets.append((p, fam))
        for p, fam in psets:
            if fam == "generic":
                tabs = generic_tables(rng, *n_generic)
            elif fam == "intkey":
                tabs = intkey_tables(rng, n_int)
            else:
                tabs = [t for t in time_tables(rng, n_time) if time_ok_for(name, p, t)]
            for t in tabs:
                cases.append({"kind": "meaning", "ops": [op_dict(name, copy.deepcopy(p))], "table": t})
        counts[name] = len(psets)
    n_single = len(cases)
    # ---- meaning: composed lists
    comp = composed_lists(rng, singles, 60 if quick else 700)
    for ops in comp:
        for t in generic_tables(rng, 2, 4, 6) if quick else generic_tables(rng, 6, 12, 14):
            cases.append({"kind": "meaning", "ops": copy.deepcopy(ops), "table": t})
    for ops, t in FIXED_COMPOSED:
        cases.append({"kind": "meaning", "ops": copy.deepcopy(ops), "table": copy.deepcopy(t)})
    n_comp = len(cases) - n_single
    cases += pair_cases(rng, 5 if quick else 24)
    n_pairs = len(cases) - n_single - n_comp
    cases += extra_column_cases(rng, singles, quick)
    n_extra = len(cases) - n_single - n_comp - n_pairs
    rep = repkey_cases(rng, quick)
    cases += rep
    rep_counts = {kd: sum(1 for c in rep if c["kind"] == kd) for kd in ("meaning", "history", "keymap")}
    # ---- history
    seqs = SEQS_QUICK if quick else SEQS_ALL
    n0 = len(cases)
    for name in OPS8:
        psets = singles[name]
        if quick:
            step = max(1, len(psets) // 12)
            chosen = psets[::step]
            seen = {sig(p) for p, _ in chosen}
            for p, fam in psets:
                if sig(p) not in seen:
                    seen.add(sig(p))
                    chosen.append((p, fam))
            psets = chosen
        elif len(psets) > 120:
            psets = [psets[i] for i in sorted(rng.sample(range(len(psets)), 120))]
        for p, fam in psets:
            for tset in HIST_TABLE_SETS[fam]:
                for s in seqs:
                    cases.append({"kind": "history", "ops": [op_dict(name, copy.deepcopy(p))], "tables": tset, "sequence": s})
    for ops in comp[:(12 if quick else 150)]:
        for s in seqs:
            cases.append({"kind": "history", "ops": copy.deepcopy(ops), "tables": HIST_TABLE_SETS["generic"][0], "sequence": s})
    n_hist = len(cases) - n0
    # ---- invalid lists, alone / after a valid op / before a valid op
    good = op_dict("remove_columns", {"column_names": ["y"], "ignore_missing": True})
    inv = invalid_lists()
    n0 = len(cases)
    for why, ops in inv:
        cases.append({"kind": "invalid", "why": why, "ops": ops})
        if isinstance(ops, list) and ops:
            cases.append({"kind": "invalid", "why": why + " (second, after a valid operation)", "ops": [copy.deepcopy(good)] + copy.deepcopy(ops)})
            cases.append({"kind": "invalid", "why": why + " (first, before a valid operation)", "ops": copy.deepcopy(ops) + [copy.deepcopy(good)]})
            cases.append({"kind": "cli_invalid", "why": why + " (second, after a valid operation)", "ops": [copy.deepcopy(good)] + copy.deepcopy(ops)})
    n_inv = len(cases) - n0
    rep_cases, n_rep_inv, n_rep_valid = repeated_name_cases(rng, quick)
    cases += rep_cases
    return cases, {"repeated": (n_rep_inv, n_rep_valid), "param_sets": counts, "single": n_single, "composed": n_comp, "pairs": n_pairs, "history": n_hist, "invalid": n_inv,
                   "extra": n_extra, "repkeys": rep_counts}


def sig(p):
    """which optional parameters are present and how the flags are set"""
    def walk(v):
        if isinstance(v, bool):
            return v
        if isinstance(v, dict):
            return tuple(sorted((k, walk(x)) for k, x in v.items()))
        return None
    return walk(p)


def run(w: Workload):
    w.rule = ("operation lists generated from the PARAMS JSON schema of the 8 non-summary operations: all required "
              "parameters + every subset of the optional ones (incl. the nested copy_columns of split_rows), every boolean "
              "flag setting, small value pools naming present and missing columns; x tables <=3 rows x <=3 columns over "
              "{a,b,n/a,1,1.0} parsed like a tsv (time-based ops: onset/duration + <=3 data columns); a meaning case is "
              "non-trivial when the list changes the table or a documented exception is due; a history case is one "
              "processing order (all 39 sequences of length 1-3 over 3 tables with different column sets in the thorough tier) "
              "through ONE Dispatcher compared with a fresh Dispatcher per table; invalid lists violate the specification "
              "in exactly one place")
    cases, info = build_cases(w)
    import multiprocessing as mp
    nproc = min(14, max(1, (os.cpu_count() or 2) - 2))
    chunk = 200
    chunks = [cases[i:i + chunk] for i in range(0, len(cases), chunk)]
    if nproc > 1 and len(chunks) > 1:
        with mp.get_context("fork").Pool(nproc) as pool:
            results = pool.map(eval_chunk, chunks, chunksize=1)
    else:
        results = [eval_chunk(c) for c in chunks]
    steps = {}
    for ch, res in zip(chunks, results):
        for payload, (nontrivial, fails, checked) in zip(ch, res):
            for c in checked:
                steps[c] = steps.get(c, 0) + 1
            w.case(key=json.dumps(payload, sort_keys=True), nontrivial=nontrivial,
                   sample={k: payload[k] for k in payload if k != "env"})
            for clause, inp, obs, exp in fails:
                w.fail(clause, inp, obs, exp)
    w.part("meaning of single operations", cases=info["single"],
           bound="every generated parameter set (per op: %s) x tables <=3x3 over {a,b,n/a,1,1.0} (thorough: all 155 one-column "
                 "tables + samples of the two/three-column ones; time tables sampled)" % info["param_sets"],
           exhaustive=False, steps_compared_with_the_oracle=dict(sorted(steps.items())))
    w.part("meaning of composed lists (2-3 ops), judged step by step on the real intermediate table", cases=info["composed"],
           bound="sampled lists x sampled tables", exhaustive=False)
    w.part("ordered pairs of operations as one validated list through Dispatcher.run_operations", cases=info["pairs"],
           bound="all 8x8 ordered pairs x 2x2 parameter sets x %d tables of 4-6 rows (onset, duration, code column with runs "
                 "broken by removable rows, match column, numeric-looking column; 2 fixed + seeded); each step judged by the "
                 "single-operation oracle on the real intermediate table, fresh row labels after every step, and step == operation "
                 "alone on the re-labelled intermediate table" % (5 if w.quick else 24), exhaustive=False)
    w.part("tables with extra text columns that no operation names", cases=info["extra"],
           bound="every operation alone (its 2 pair parameter sets x %d tables of 4-6 rows + ~%d of its generated parameter sets x %d "
                 "tables of their family) and all 8x8 ordered pairs (x %d table), on tables extended by two columns 'note' and "
                 "'memo' (last / first / in the middle) whose cells hold double and single quotes, leading / trailing blanks, numbers "
                 "written as text and n/a (%d texts); judged by the ordinary meaning oracles AND by clause "
                 "C17.frame.unnamed_columns_untouched (row-preserving operations: against the input table alone)"
                 % (4 if w.quick else 10, 6 if w.quick else 30, 3 if w.quick else 10, 1 if w.quick else 3, len(EXTRA_TEXT)),
           exhaustive=False)
    w.part("remap_columns / KeyMap with a key listed in more than one row of the map", cases=sum(info["repkeys"].values()),
           bound="%d source/destination configurations (1-2 sources in table order and reversed, 1-2 destinations, with and without "
                 "integer_sources, integer keys as JSON numbers and as text) x %d shapes (how often each of 2-4 distinct keys is listed: %s) "
                 "x destination variants (every row its own values; listed-again row partly equal / equal as text) x every order of the "
                 "rows of the map (all n! up to 4 rows in the thorough tier, identity + reverse + seeded sample otherwise) x tables holding "
                 "every key of the pool + codes no map lists + n/a ('all'), only listed keys with one left out ('sub'), only unlisted "
                 "codes ('none') x ignore_missing; oracle: a plain dict filled row by row in which a key already present keeps its "
                 "row; unlisted codes give n/a destinations and, with ignore_missing false, the documented ValueError. %s; the "
                 "keymap cases call KeyMap.update (rows in one call / split over two calls / with a fully equal row / without target "
                 "columns) and KeyMap.remap directly and also compare the returned list of unmapped row numbers"
                 % (len(REPKEY_CONFIGS), len(REPKEY_SHAPES), REPKEY_SHAPES, info["repkeys"]), exhaustive=False)
    w.part("history / frame: one Dispatcher, 1-3 tables, every processing order", cases=info["history"],
           bound="sequences of length <=3 over 3 tables with different column sets" + (" (8 sequences)" if w.quick else " (all 39)"),
           exhaustive=not w.quick)
    w.part("validation: lists failing the specification", cases=info["invalid"],
           bound="one violation per list (each required key, each type, minItems, uniqueItems, additional key, dependentRequired, "
                 "documented cross-parameter constraints), alone, before and after a valid operation; and through run_remodel.main",
           exhaustive=True)
    w.part("lists in which one operation name occurs 2-3 times", cases=sum(info["repeated"]),
           bound="%d lists failing validation: every operation name x every one-place violation of its specification (required key, "
                 "type, minItems, uniqueItems, additional key, dependentRequired, op-specific input checks, top-level keys) x "
                 "2 or 3 occurrences of the name x every position of the ONE invalid occurrence, the others valid and different "
                 "(also with a valid operation of another name in front / in between): messages reported, every operation number "
                 "named in a message is that of the invalid occurrence; one shape per violation through run_remodel.main (ValueError, "
                 "no operation executed, file unchanged); %d valid lists of 3 occurrences (4 patterns of the 2 pair parameter sets) x "
                 "pair tables judged step by step by the meaning oracles" % info["repeated"], exhaustive=False)
    w.not_covered += [
        "pandas semantics beyond the enumerated tables; tables with 0 rows; cell values outside {a,b,n/a,1,1.0} (+ numeric onsets/durations)",
        "summary operations and HED-dependent operations (outside the property)",
        "'n/a' used as a remove_value / event_code / factor value (undocumented whether it matches an n/a cell); "
        "remap_columns with overlapping source/destination columns, or a missing key whose "
        "destination column already exists; quotes inside remap keys (KeyMap strips them); integer_sources on non-integer text; copy_columns naming onset/duration/anchor",
        "tables that lack a column the operation names, except where the docstring documents the exception",
    ]
    w.assumptions += [
        "remap_columns: of several map_list rows with the same key the FIRST is the one in force (map_list is described as the k "
        "unique keys; KeyMap._handle_update documents that only a new key adds a row, a key seen before is only counted)",
        "tables are built with the same pandas.read_csv call as Dispatcher.get_data_file (typed columns as the CLI sees them)",
        "a JSON number in remove_values/event_code matches numeric cells, a JSON string matches text cells",
        "PYTHONHASHSEED is pinned to 0 by re-executing the workload (KeyMap keys are Python string hashes)",
        "reorder_columns: ignore_missing=False + missing column raises ValueError (PARAMS description and :raises:, "
        "the class docstring line says the opposite)",
    ]


def replay(w: Workload, case: dict):
    payload = {k: v for k, v in case["input"].items() if k not in ("env", "step", "position", "table") or
               (k == "table" and isinstance(v, dict))}
    res = EVAL[payload["kind"]](payload)
    nontrivial, fails = res[0], res[1]
    w.case(key=json.dumps(payload, sort_keys=True), nontrivial=nontrivial)
    for clause, inp, obs, exp in fails:
        if clause == case["clause"]:
            w.fail(clause, inp, obs, exp)


if __name__ == "__main__":
    if os.environ.get("PYTHONHASHSEED") != "0":
        os.environ["PYTHONHASHSEED"] = "0"
        os.execv(sys.executable, [sys.executable, "-m", "rt.c17"] + sys.argv[1:])
    main(run, "C17", replay)
