"""C14 (tier T3, bounded): schema compliance checking accepts the released schemas and flags seeded faults.

Part A  every bundled standard / partnered-library schema (through load_schema_version and through the bundled
        file itself): no error-severity issue, and nothing at all with check_for_warnings=False.
Part B  per schema, per fault kind of the property, a seeded sample of the positions (node / unit / class /
        attribute-definition occurrences) at which the fault can sit: ONE fault is written into a saved copy
        (XML element tree or MediaWiki line, rt/c14_edit.py), the copy is re-loaded with the real loader and
        re-checked; the issue list must contain, beyond the issues of the unedited copy, an issue with the
        specification's code located at the seeded entry/attribute.  On every seeded copy
        check_compliance(check_for_warnings=False) must return only error-severity issues, namely exactly the
        error-severity ones of the full run.
Part C  the script-level entry points (hed.scripts.script_util.sort_base_schemas / validate_all_schemas / validate_schema,
        hed.scripts.validate_schemas.main) on lists of 1-3 schema files written to a temporary folder in the layout the
        script expects (name.xml, name.mediawiki, hedtsv/name/name_*.tsv): each file is a released schema (clean) or carries
        ONE seeded fault of Part B's generator; for every faulty/clean pattern (fault in the first / middle / last file, in
        several, in none) the returned issues are non-empty iff a file is faulty, name every faulty file with the
        specification's code and no clean file, and main() returns non-zero iff a file is faulty.
The expected codes are the HED-specification schema codes (Appendix B.2; hed/errors/known_error_codes.py lists
the names) - they are written down here per fault kind, not derived from the validators.
"""
import glob
import multiprocessing
import os
import re
import time
from collections import Counter
from xml.etree import ElementTree as ET

from rt.common import Workload, main, schema, codes  # noqa: F401
from rt.c14_edit import XmlDoc, WikiDoc



def _bundled_dir():
    """schema_data of the hed package that is actually imported (the working tree of /repo in the normal set-up)"""
    import hed.schema
    return os.path.join(os.path.dirname(os.path.abspath(hed.schema.__file__)), "schema_data")

ERROR = 1   # hed.errors.error_types.ErrorSeverity.ERROR

# specification code per fault kind  (kind -> (clause, code))
KINDS = {
    "dup_node":            ("C14.dup.node", "SCHEMA_DUPLICATE_NODE"),
    "dup_other":           ("C14.dup.node", "SCHEMA_DUPLICATE_NODE"),
    "dup_cross":           ("C14.dup.library_vs_standard", "SCHEMA_LIBRARY_INVALID"),
    "dup_unit_plain_copy": ("C14.dup.node", "SCHEMA_DUPLICATE_NODE"),
    "dup_attrs":           ("C14.dup.node", "SCHEMA_DUPLICATE_NODE"),
    "undeclared_attr":     ("C14.attr.undeclared", "SCHEMA_ATTRIBUTE_INVALID"),
    "wrong_section_attr":  ("C14.attr.undeclared", "SCHEMA_ATTRIBUTE_INVALID"),
    "ref_tag":             ("C14.value.nonexistent_reference", "SCHEMA_ATTRIBUTE_VALUE_INVALID"),
    "ref_class":           ("C14.value.nonexistent_reference", "SCHEMA_ATTRIBUTE_VALUE_INVALID"),
    "class_on_node":       ("C14.value.class_on_non_placeholder", "SCHEMA_ATTRIBUTE_VALUE_INVALID"),
    "deprecated":          ("C14.deprecated.invalid_version", "SCHEMA_DEPRECATION_ERROR"),
    "conversion_factor":   ("C14.value.conversion_factor", "SCHEMA_ATTRIBUTE_VALUE_INVALID"),
    "default_units":       ("C14.value.default_units", "SCHEMA_ATTRIBUTE_VALUE_INVALID"),
    "allowed_character":   ("C14.value.allowed_character", "SCHEMA_ATTRIBUTE_VALUE_INVALID"),
    "in_library":          ("C14.value.in_library", "SCHEMA_ATTRIBUTE_VALUE_INVALID"),
    "hed_id_range":        ("C14.value.hed_id", "SCHEMA_ATTRIBUTE_VALUE_INVALID"),
    "hed_id_changed":      ("C14.value.hed_id", "SCHEMA_ATTRIBUTE_VALUE_INVALID"),
}
ID_RANGES = {"": (10000, 39999), "score": (40000, 59999), "lang": (60000, 79999)}   # HED id ranges (spec / library_data.json)
SECTION_CTX = {"tags": "tags", "units": "units", "unitClasses": "unitClasses", "unitModifiers": "unitModifiers",
               "valueClasses": "valueClasses", "attributes": "attributes", "properties": "properties"}


# ----------------------------------------------------------------------------------------------- inventory

def bundled_versions():
    """[(version string, path, library, withStandard)] for every schema file shipped in the package"""
    out = []
    for path in sorted(glob.glob(os.path.join(_bundled_dir(), "*.xml"))):
        root = ET.parse(path).getroot()
        lib, ver, ws = root.get("library", ""), root.get("version"), root.get("withStandard", "")
        out.append(((lib + "_" if lib else "") + ver, path, lib, ws))
    return out


def in_scope(entry):
    _, _, lib, ws = entry
    return not lib or bool(ws)        # standard, or partnered library;  stand-alone legacy libraries are excluded


def vkey(v):
    return tuple(int(x) for x in v.split("."))


def known_versions(all_bundled, lib):
    return sorted((v.split("_")[-1] for v, _, l, _ in all_bundled if l == lib), key=vkey)


class Inventory:
    """names of everything in one loaded schema, read off the schema object (no rule logic)"""
    def __init__(self, version, s):
        from hed.schema.hed_schema_constants import HedSectionKey as K
        self.version = version
        self.library = s.library
        self.with_standard = s.with_standard
        self.number = s.version_number
        self.gen83 = bool(s.schema_83_props)
        self.entries = {}     # section -> {name: {"attrs": {...}, "lib": str|None}}
        keymap = {"tags": K.Tags, "units": K.Units, "unitClasses": K.UnitClasses, "unitModifiers": K.UnitModifiers,
                  "valueClasses": K.ValueClasses, "attributes": K.Attributes, "properties": K.Properties}
        for sec, k in keymap.items():
            self.entries[sec] = {e.name: {"attrs": dict(e.attributes), "lib": e.attributes.get("inLibrary")}
                                 for e in s[k].values()}
        self.unit_class_of = {u.name: u.unit_class_entry.name for u in s.units.values()}
        self.class_units = {c.name: list(c.units) for c in s.unit_classes.values()}
        self.short = {n: n.split("/")[-1] for n in self.entries["tags"]}
        self.children = Counter(n.rsplit("/", 1)[0] for n in self.entries["tags"] if "/" in n)

    def declared_for(self, sec):
        """attribute names the schema's own attribute definitions declare for a section (HED schema format rules:
        8.3+: <section>Domain or elementDomain; before: the ...Property marker of the section or elementProperty,
        node attributes being those without any of the four non-node markers)"""
        out = set()
        if sec in ("attributes", "properties"):
            # attribute definitions carry properties, plus the attributes that apply to every schema element
            return set(self.entries["properties"]) | {n for n, i in self.entries["attributes"].items()
                                                      if "elementDomain" in i["attrs"] or "elementProperty" in i["attrs"]}
        for name, info in self.entries["attributes"].items():
            a = info["attrs"]
            if self.gen83:
                dom = {"tags": "tagDomain", "units": "unitDomain", "unitClasses": "unitClassDomain",
                       "unitModifiers": "unitModifierDomain", "valueClasses": "valueClassDomain"}[sec]
                ok = dom in a or "elementDomain" in a
            else:
                markers = {"units": "unitProperty", "unitClasses": "unitClassProperty",
                           "unitModifiers": "unitModifierProperty", "valueClasses": "valueClassProperty"}
                if sec == "tags":
                    ok = not any(m in a for m in markers.values())
                else:
                    ok = markers[sec] in a or "elementProperty" in a
            if ok:
                out.add(name)
        return out


# ----------------------------------------------------------------------------------------------- case generation

def gen_cases(inv, all_bundled, rng, per_kind, successor=None):
    """the seeded faults for one schema: list of dicts {kind, edits, expect{tag,attr,token}, section}"""
    cases = []
    tags = inv.entries["tags"]
    nodes = sorted(tags)
    plain = [n for n in nodes if not n.endswith("#")]
    place = [n for n in nodes if n.endswith("/#")]
    partnered = bool(inv.with_standard)

    def sample(seq, n=per_kind):
        seq = list(seq)
        if len(seq) <= n:
            return seq
        return [seq[i] for i in sorted(rng.sample(range(len(seq)), n))]

    def nested_lib(sec, n):
        """a library node below another library node of a partnered schema"""
        if not partnered or sec != "tags" or not tags[n]["lib"] or "/" not in n:
            return False
        par = n.rsplit("/", 1)[0]
        return bool(tags.get(par, {}).get("lib"))

    def add(kind, edits, section, tag=None, attr=None, token=None, what=None):
        cases.append({"kind": kind, "edits": edits, "section": section,
                      "expect": {"tag": tag, "attr": attr, "token": token}, "what": what,
                      "nested_lib": bool(tag) and nested_lib(section, tag)})

    def recase(name):
        alt = rng.choice([name, name, name.upper(), name.lower(), name.swapcase()])
        return alt

    if successor is None:
        # ---- duplicated node name (same library-ness as the original)
        for n in sample(plain):
            short = inv.short[n]
            lib = tags[n]["lib"] if partnered else None
            # the copy goes next to the original or below another node of the same kind (library / standard), so that it
            # is a plain duplicate and not a library-vs-standard clash (that is kind dup_cross)
            same_kind = [p for p in plain if not partnered or bool(tags[p]["lib"]) == bool(lib)]
            parent = rng.choice([None, rng.choice(same_kind)])
            if parent is not None and (parent == n or parent.startswith(n + "/")):
                parent = None
            add("dup_node", [{"op": "dup", "section": "tags", "name": n, "newname": recase(short), "parent": parent,
                              "inlib": lib}], "tags", token=short, what="second node named like " + n)
        # ---- library node duplicating a standard node / vice versa (partnered only)
        if partnered:
            libnodes = [n for n in plain if tags[n]["lib"]]
            basenodes = [n for n in plain if not tags[n]["lib"]]
            for n in sample(plain):
                lib = tags[n]["lib"]
                pool = basenodes if lib else libnodes     # place the copy among nodes of the *other* kind
                parent = rng.choice(pool)
                if parent == n or parent.startswith(n + "/"):
                    continue
                add("dup_cross", [{"op": "dup", "section": "tags", "name": n, "newname": inv.short[n], "parent": parent,
                                   "inlib": None if lib else inv.library}], "tags", token=inv.short[n],
                    what="copy of %s with the opposite inLibrary status" % n)
        # ---- duplicated unit / class / modifier / attribute / property
        others = [(sec, n) for sec in ("units", "unitClasses", "unitModifiers", "valueClasses", "attributes", "properties")
                  for n in sorted(inv.entries[sec])]
        for sec, n in sample(others):
            parent = None
            attrs = None
            if sec == "units":
                if rng.random() < 0.5:
                    parent = rng.choice(sorted(inv.class_units))
                if "unitSymbol" in inv.entries[sec][n]["attrs"]:
                    attrs = {"unitSymbol": True}      # a faithful copy: unit symbols are case-sensitive names
            lib = inv.entries[sec][n]["lib"] if partnered else None
            add("dup_other", [{"op": "dup", "section": sec, "name": n, "newname": n, "parent": parent, "inlib": lib,
                               "attrs": attrs}], sec, token=n, what="second %s entry %s" % (sec, n))
        # ---- second definition of a unit class / unit / modifier / value class / attribute / property that carries 0, 1, 2
        #      or 3 of the original's own attributes, behind or in front of the original, next to it or far from it: a
        #      duplicate whatever it carries
        cases.extend(dup_attr_cases(inv, rng, per_kind))
        # ---- the same unit-symbol name written a second time without the unitSymbol attribute
        for n in sample([u for u in sorted(inv.entries["units"]) if "unitSymbol" in inv.entries["units"][u]["attrs"]]):
            lib = inv.entries["units"][n]["lib"] if partnered else None
            add("dup_unit_plain_copy", [{"op": "dup", "section": "units", "name": n, "newname": n, "parent": None, "inlib": lib}],
                "units", token=n, what="unit symbol %s listed twice, the copy without attributes" % n)
        # ---- attribute that is not declared anywhere in the schema
        allpos = [(sec, n) for sec in ("tags", "units", "unitClasses", "unitModifiers", "valueClasses", "attributes")
                  for n in sorted(inv.entries[sec])]
        all_attr_names = set(inv.entries["attributes"])
        for sec, n in sample(allpos, per_kind * 2):
            if sec == "attributes":
                attr = rng.choice(["zorkProperty", "Zork", "x"])
            else:
                attr = rng.choice(["zorkAttribute", "Zork", "requireChildren", "x", "suggestedTags", "InLibrary"])
            value = rng.choice([True, True, "v", "a,b"])
            add("undeclared_attr", [{"op": "set_attr", "section": sec, "name": n, "attr": attr, "value": value}],
                sec, tag=n, token="'%s'" % attr, what="%s on %s entry" % (attr, sec))
        # ---- attribute that the schema declares, but for another section
        pos = [(sec, n) for sec in ("tags", "units", "unitClasses", "unitModifiers", "valueClasses")
               for n in sorted(inv.entries[sec])]
        for sec, n in sample(pos, per_kind * 3):
            foreign = sorted(all_attr_names - inv.declared_for(sec))
            if not foreign:
                continue
            attr = rng.choice(foreign)
            a = inv.entries["attributes"][attr]["attrs"]
            is_bool = "boolRange" in a or "boolProperty" in a
            if is_bool:
                value = True
            elif attr in ("unitClass",):
                value = rng.choice(sorted(inv.entries["unitClasses"]))
            elif attr in ("valueClass",):
                value = rng.choice(sorted(inv.entries["valueClasses"]))
            elif attr in ("suggestedTag", "relatedTag", "rooted", "isPartOf"):
                value = "Event"
            elif attr == "defaultUnits":
                value = rng.choice(sorted(inv.entries["units"]))
            elif attr == "conversionFactor":
                value = "1.0"
            elif attr == "allowedCharacter":
                value = "letters"
            else:
                value = "v"
            add("wrong_section_attr", [{"op": "set_attr", "section": sec, "name": n, "attr": attr, "value": value}],
                sec, tag=n, token="'%s'" % attr, what="%s (declared for another section) on %s entry" % (attr, sec))
        # ---- suggestedTag / relatedTag naming a tag that does not exist
        for n in sample(nodes, per_kind * 2):
            attr = rng.choice(["suggestedTag", "relatedTag"])
            bad = rng.choice(["Zork-tag", "Sensory-eventt", "Nonexistent/Path", "zork"])
            old = tags[n]["attrs"].get(attr)
            vals = old.split(",") if isinstance(old, str) else []
            if vals and rng.random() < 0.7:
                k = rng.randrange(len(vals) + 1)
                vals = vals[:k] + [bad] + vals[k:]
            else:
                vals = [bad] if not vals or rng.random() < 0.5 else [rng.choice(vals), bad]
            add("ref_tag", [{"op": "set_attr", "section": "tags", "name": n, "attr": attr, "value": ",".join(vals)}],
                "tags", tag=n, attr=attr, token=bad, what="%s=%s" % (attr, ",".join(vals)))
        # ---- unitClass / valueClass naming a class that does not exist (on '#' nodes)
        for n in sample(place, per_kind * 2):
            attr = rng.choice(["unitClass", "valueClass"])
            bad = rng.choice(["zorkUnits", "zorkClass", "timeUnit", "textclasses"])
            old = tags[n]["attrs"].get(attr)
            vals = old.split(",") if isinstance(old, str) else []
            k = rng.randrange(len(vals) + 1)
            vals = vals[:k] + [bad] + vals[k:]
            add("ref_class", [{"op": "set_attr", "section": "tags", "name": n, "attr": attr, "value": ",".join(vals)}],
                "tags", tag=n, attr=attr, token=bad, what="%s=%s" % (attr, ",".join(vals)))
        # ---- class attributes on a node that is not a '#' placeholder
        ucs, vcs = sorted(inv.entries["unitClasses"]), sorted(inv.entries["valueClasses"])
        for n in sample(plain, per_kind * 2):
            attr = rng.choice(["unitClass", "valueClass", "takesValue"])
            value = True if attr == "takesValue" else rng.choice(ucs if attr == "unitClass" else vcs)
            add("class_on_node", [{"op": "set_attr", "section": "tags", "name": n, "attr": attr, "value": value}],
                "tags", tag=n, attr=attr, what="%s on non-placeholder" % attr)
        # ---- deprecatedFrom unknown or not older than the schema
        pos = [(sec, n) for sec in ("tags", "units", "unitClasses", "unitModifiers", "valueClasses", "attributes")
               if "deprecatedFrom" in inv.declared_for(sec) for n in sorted(inv.entries[sec])]
        for sec, n in sample(pos, per_kind * 2):
            lib = inv.entries[sec][n]["lib"] if partnered else inv.library
            lib = lib or ""
            own = inv.number if lib == inv.library and (lib or not partnered) else inv.with_standard
            newer = [v for v in known_versions(all_bundled, lib) if vkey(v) > vkey(own)]
            choices = ["7.7.7", "0.0.1", own, "abc"] + newer[:1]
            other_lib_versions = [v for v in known_versions(all_bundled, "" if lib else "testlib")
                                  if v not in known_versions(all_bundled, lib)]
            if other_lib_versions:
                choices.append(other_lib_versions[0])      # a version that exists, but of another schema line
            ver = rng.choice(choices)
            add("deprecated", [{"op": "set_attr", "section": sec, "name": n, "attr": "deprecatedFrom", "value": ver}],
                sec, tag=n, attr="deprecatedFrom", token="'%s'" % ver, what="deprecatedFrom=%s (own %s)" % (ver, own))
        # ---- non-positive conversion factor
        pos = [(sec, n) for sec in ("units", "unitModifiers") if "conversionFactor" in inv.declared_for(sec)
               for n in sorted(inv.entries[sec])]
        for sec, n in sample(pos):
            val = rng.choice(["0", "0.0", "-1", "-2.5", "-10^3", "-0.001", "0e0", "-1e-3"])
            add("conversion_factor", [{"op": "set_attr", "section": sec, "name": n, "attr": "conversionFactor", "value": val}],
                sec, tag=n, attr="conversionFactor", what="conversionFactor=" + val)
        # ---- default units that are not a unit of the class
        for c in sample(sorted(inv.entries["unitClasses"]) if "defaultUnits" in inv.declared_for("unitClasses") else []):
            own_units = [u.casefold() for u in inv.class_units[c]]
            foreign = [u for u in sorted(inv.entries["units"]) if inv.unit_class_of[u] != c and
                       not any(u.casefold().endswith(o) or u.casefold().endswith(o + "s") or u.casefold().endswith(o + "es")
                               for o in own_units)]
            val = rng.choice(foreign[:] + ["zorkunit"]) if foreign else "zorkunit"
            add("default_units", [{"op": "set_attr", "section": "unitClasses", "name": c, "attr": "defaultUnits", "value": val}],
                "unitClasses", tag=c, attr="defaultUnits", token=val, what="defaultUnits=" + val)
        # ---- unknown allowedCharacter value
        pos = [(sec, n) for sec in ("valueClasses", "units", "unitModifiers") if "allowedCharacter" in inv.declared_for(sec)
               for n in sorted(inv.entries[sec])]
        for sec, n in sample(pos):
            bad = rng.choice(["zorkchars", "ab", "Letters", "letter", "upper-case"])
            old = inv.entries[sec][n]["attrs"].get("allowedCharacter")
            vals = old.split(",") if isinstance(old, str) else []
            k = rng.randrange(len(vals) + 1)
            vals = vals[:k] + [bad] + vals[k:]
            add("allowed_character", [{"op": "set_attr", "section": sec, "name": n, "attr": "allowedCharacter",
                                       "value": ",".join(vals)}], sec, tag=n, attr="allowedCharacter", token=bad,
                what="allowedCharacter=" + ",".join(vals))
        # ---- foreign inLibrary name
        pos = [(sec, n) for sec in ("tags", "units", "unitClasses", "unitModifiers", "valueClasses")
               if "inLibrary" in inv.declared_for(sec) for n in sorted(inv.entries[sec])]
        other = [l for l in ("score", "testlib", "lang", "zorklib") if l != inv.library]
        for sec, n in sample(pos, per_kind * 2):
            val = rng.choice(other)
            add("in_library", [{"op": "set_attr", "section": sec, "name": n, "attr": "inLibrary", "value": val}],
                sec, tag=n, attr="inLibrary", token=val, what="inLibrary=" + val)
        # ---- hedId outside the range of the entry's library (schemas that declare hedId)
        if "hedId" in inv.entries["attributes"]:
            pos = [(sec, n) for sec in ("tags", "units", "unitClasses", "unitModifiers", "valueClasses", "attributes", "properties")
                   for n in sorted(inv.entries[sec])
                   if ((inv.entries[sec][n]["lib"] or "") if partnered else inv.library) in ID_RANGES]
            for k_pos, (sec, n) in enumerate(sample(pos, max(per_kind * 2, 8))):
                lib = (inv.entries[sec][n]["lib"] or "") if partnered else inv.library
                lo, hi = ID_RANGES[lib]
                # every boundary value is used (cyclically over the sampled positions): 0 and 1, just below / above the range, far away
                outside = [v for v in (0, lo - 1, hi + 1, 1, 9999999, rng.randrange(0, lo) if lo > 0 else 0,
                                       rng.randrange(hi + 1, hi + 20000)) if not (lo <= v <= hi)]
                num = outside[k_pos % len(outside)]
                val = "HED_%07d" % num
                add("hed_id_range", [{"op": "set_attr", "section": sec, "name": n, "attr": "hedId", "value": val}],
                    sec, tag=n, attr="hedId", what="hedId=%s, range of %r is %s" % (val, lib, (lo, hi)))
    else:
        # ---- hedId changed with respect to the previous release (only meaningful in a successor copy)
        retitle = {"op": "retitle", "version": successor}
        used = set()
        for sec in inv.entries:
            for n, info in inv.entries[sec].items():
                if isinstance(info["attrs"].get("hedId"), str):
                    used.add(info["attrs"]["hedId"])
        pos = [(sec, n) for sec in ("tags", "units", "unitClasses", "unitModifiers", "valueClasses", "attributes", "properties")
               for n in sorted(inv.entries[sec])
               if isinstance(inv.entries[sec][n]["attrs"].get("hedId"), str) and
               ((inv.entries[sec][n]["lib"] or "") if partnered else inv.library) == inv.library]
        for sec, n in sample(pos, per_kind * 3):
            lo, hi = ID_RANGES[inv.library]
            while True:
                val = "HED_%07d" % rng.randrange(lo, hi + 1)
                if val not in used:
                    break
            add("hed_id_changed", [retitle, {"op": "set_attr", "section": sec, "name": n, "attr": "hedId", "value": val}],
                sec, tag=n, attr="hedId", what="hedId %s -> %s in successor %s" % (inv.entries[sec][n]["attrs"]["hedId"], val, successor))
        cases.append({"kind": "control_successor", "edits": [retitle], "section": None, "expect": {}, "what": "unchanged successor copy"})
    return cases


DUP_SECTIONS = ("unitClasses", "units", "unitModifiers", "valueClasses", "attributes", "properties")
DUP_PLACES = ("after", "end", "before", "start")      # copy right behind / far behind / right in front of / far in front of the original


def dup_attr_cases(inv, rng, per_kind):
    """per section and per number k = 0..3 of carried attributes: entries that have at least k attributes of their own, the copy
    carrying a k-subset of them with the original's values (quick: one entry, one subset, one place per (section, k), places
    and routes in rotation; thorough: 3 entries x up to 4 k-subsets x all 4 places x both routes).  A copy of a library entry of a partnered schema is a
    library entry too (inLibrary on top of the k attributes); a unit-symbol copy always keeps unitSymbol (its name is a symbol)"""
    import itertools
    out = []
    partnered = bool(inv.with_standard)
    quick = per_kind <= 3
    n_case = 0
    for sec in DUP_SECTIONS:
        ents = inv.entries[sec]
        for k in (0, 1, 2, 3):
            pool = []
            for n in sorted(ents):
                own = sorted(a for a in ents[n]["attrs"] if a != "inLibrary")
                must = ["unitSymbol"] if sec == "units" and "unitSymbol" in own else []
                free = [a for a in own if a not in must]
                if len(own) >= k >= len(must):
                    pool.append((n, must, free))
            if not pool:
                continue
            chosen = [pool[i] for i in sorted(rng.sample(range(len(pool)), min(len(pool), 1 if quick else 3)))]
            for n, must, free in chosen:
                subsets = [tuple(must) + c for c in itertools.combinations(free, k - len(must))]
                if quick:
                    subsets = [rng.choice(subsets)]
                elif len(subsets) > 4:
                    subsets = [subsets[i] for i in sorted(rng.sample(range(len(subsets)), 4))]
                lib = ents[n]["lib"] if partnered else None
                if sec == "unitClasses" and lib and k == 0:
                    continue        # 'name {inLibrary}' alone is the documented way a library adds units to an existing class
                for sub in subsets:
                    attrs = {a: (True if ents[n]["attrs"][a] is True else str(ents[n]["attrs"][a])) for a in sub}
                    places = [DUP_PLACES[n_case % 4]] if quick else DUP_PLACES
                    for place in places:
                        parent = None
                        if sec == "units" and n_case % 3 == 2:
                            parent = rng.choice(sorted(inv.class_units))       # the copy sits in another unit class
                        n_case += 1
                        out.append({"kind": "dup_attrs", "section": sec, "expect": {"tag": None, "attr": None, "token": n},
                                    "edits": [{"op": "dup", "section": sec, "name": n, "newname": n, "parent": parent, "inlib": lib,
                                               "attrs": attrs, "place": place}],
                                    "what": "second %s entry %s carrying %d attribute(s) %s, %s the original"
                                            % (sec, n, len(sub), list(sub), place), "nested_lib": False})
    return out


# ----------------------------------------------------------------------------------------------- execution (worker side)

_docs = {}


def _doc(version, route):
    """per-process cache: the saved copy of a bundled schema in one text form, plus the issues of the unedited copy"""
    key = (version, route)
    if key not in _docs:
        s = schema(version)
        if route == "xml":
            doc = XmlDoc(s.get_as_xml_string(save_merged=True))
        else:
            doc = WikiDoc(s.get_as_mediawiki_string(save_merged=True))
        _docs[key] = doc
    return _docs[key]


def issue_key(i):
    return (i["code"], str(i.get("ec_section")), i.get("ec_schema_tag"), i.get("ec_attribute"), i["severity"], i["message"])


def load_and_check(version, route, edits):
    """-> dict(issues=[...keys], off=[...keys]) or dict(error=...)"""
    from hed.schema import from_string
    doc = _doc(version, route)
    text = doc.apply(edits)
    try:
        sch = from_string(text, ".xml" if route == "xml" else ".mediawiki")
    except Exception as e:      # noqa: BLE001  (an observation, never a crash of the workload)
        return {"error": "load: %s: %s %s" % (type(e).__name__, getattr(e, "code", ""), str(e)[:300])}
    try:
        on = sch.check_compliance(check_for_warnings=True)
        off = sch.check_compliance(check_for_warnings=False)
    except Exception as e:      # noqa: BLE001
        return {"error": "check_compliance: %s: %s" % (type(e).__name__, str(e)[:300])}
    return {"issues": [issue_key(i) for i in on], "off": [issue_key(i) for i in off]}


_base = {}


def base_issues(version, route, retitle=None):
    key = (version, route, retitle)
    if key not in _base:
        r = load_and_check(version, route, [{"op": "retitle", "version": retitle}] if retitle else [])
        _base[key] = r
    return _base[key]


def clause_of(case):
    """clause label of a seeded case.  Input shapes on which the unchanged tree is known to violate the property get
    their own narrow label (the predicate looks only at the seeded input, never at the outcome)"""
    kind = case["kind"]
    if kind == "control_successor":
        return "C14.control.valid_value_clean"
    ed = case["edits"][-1]
    if kind == "wrong_section_attr":
        if (ed["attr"] == "defaultUnits" and ed["section"] != "unitClasses") or \
                (ed["attr"] in ("takesValue", "unitClass", "valueClass") and ed["section"] != "tags"):
            return "C14.attr.wrong_section_class_attribute"
    if kind == "dup_unit_plain_copy" and ed["name"] != ed["name"].casefold():
        return "C14.dup.unit_symbol_plain_copy"
    if kind in ("hed_id_range", "hed_id_changed") and case.get("nested_lib"):
        return "C14.value.hed_id_nested_library_node"
    return KINDS[kind][0]


def evaluate(version, route, case):
    """run one seeded case; returns list of (clause, observed, expected) failures"""
    fails = []
    kind = case["kind"]
    retitle = next((e["version"] for e in case["edits"] if e["op"] == "retitle"), None)
    base = base_issues(version, route, retitle)
    if "error" in base:
        return [("C14.seed.check_total", base["error"], "unedited copy loads and checks")]
    res = load_and_check(version, route, case["edits"])
    if "error" in res:
        label = clause_of(case) if res["error"].startswith("check_compliance") and clause_of(case) not in \
            (KINDS.get(kind, ("",))[0], "C14.control.valid_value_clean") else "C14.seed.check_total"
        return [(label, res["error"], "seeded copy is loaded and checked without an exception")]
    new = list(res["issues"])
    for k in base["issues"]:
        if k in new:
            new.remove(k)
    # warnings off: only errors, and exactly the errors of the full run
    if any(k[4] != ERROR for k in res["off"]):
        fails.append(("C14.warn_off.errors_only", [k[:5] for k in res["off"] if k[4] != ERROR][:3], "only error severity"))
    if Counter(res["off"]) != Counter(k for k in res["issues"] if k[4] == ERROR):
        fails.append(("C14.warn_off.is_error_filter", {"off": [k[:4] for k in res["off"]][:4],
                                                        "errors_of_full_run": [k[:4] for k in res["issues"] if k[4] == ERROR][:4]},
                      "issues(check_for_warnings=False) == error-severity issues of the full run"))
    if kind == "control_successor":
        bad = [k[:4] for k in new if k[3] == "hedId"]
        if bad:
            fails.append(("C14.control.valid_value_clean", bad[:3], "no hedId issue when ids are unchanged"))
        return fails
    clause, code = clause_of(case), KINDS[kind][1]
    exp = case["expect"]

    def hit(k):
        if k[0] != code:
            return False
        if exp.get("tag") is not None and k[2] is not None and k[2] != exp["tag"]:
            return False
        if exp.get("tag") is not None and k[2] is None and kind not in ("dup_node", "dup_other", "dup_cross"):
            return False
        if exp.get("attr") is not None and k[3] != exp["attr"]:
            return False
        if exp.get("token") is not None and exp["token"].casefold() not in k[5].casefold():
            return False
        return True
    if not any(hit(k) for k in new):
        fails.append((clause, {"new_issues": [(k[0], k[2], k[3], k[5][:120]) for k in new][:6]},
                      {"code": code, "at": exp.get("tag"), "attribute": exp.get("attr"), "mentions": exp.get("token")}))
    return fails



# ----------------------------------------------------------------------------------------------- Part C: the script entry points

SCRIPT_CLEAN = ["8.3.0", "testlib_2.0.0", "8.2.0", "testlib_3.0.0", "8.1.0", "score_2.0.0"]     # released; quick uses the first three
SCRIPT_FORMATS = ["xml", "mediawiki", "tsv"]
SCRIPT_KINDS = ["conversion_factor", "allowed_character", "hed_id_range", "dup_node", "ref_class", "deprecated", "in_library",
                "default_units", "ref_tag", "class_on_node", "undeclared_attr"]
SCRIPT_EXTRA_CONVERSION = ["abc", "nan", "1e", "-3"]       # a conversion factor that is not a number at all, besides the non-positive ones
TSV_KINDS = ("conversion_factor", "allowed_character", "default_units")    # plain attribute values: they survive being saved as TSV


def script_patterns():
    """every list of 1..3 files in which each file is either faulty (F) or clean (C): the fault in the first / middle / last file,
    in several files, in none"""
    import itertools
    return ["".join(p) for n in (1, 2, 3) for p in itertools.product("FC", repeat=n)]


def script_jobs(fault_pool, quick):
    """fault_pool: {schema: {kind: [case, ...]}} (cases of gen_cases).  Deterministic rotation over clean schemas x formats and over
    fault kinds x schemas x text routes, so that every kind / format meets every list position"""
    jobs = []
    clean = SCRIPT_CLEAN[:3] if quick else SCRIPT_CLEAN
    fschemas = [v for v in clean if v in fault_pool]
    rounds = 1 if quick else 4
    ci = fi = 0
    for rnd in range(rounds):
        for pi, pat in enumerate(script_patterns()):
            files = []
            for k, ch in enumerate(pat):
                name = "f%d" % k
                if ch == "C":
                    v = clean[ci % len(clean)]
                    fmt = SCRIPT_FORMATS[(ci // len(clean) + ci) % 3]
                    ci += 1
                    files.append({"name": name, "schema": v, "format": fmt, "fault": None})
                else:
                    cands = []
                    while not cands:
                        kind = SCRIPT_KINDS[fi % len(SCRIPT_KINDS)]
                        for off in range(len(fschemas)):          # the next schema in which the kind can sit (hedId: where it is declared ...)
                            v = fschemas[(fi // len(SCRIPT_KINDS) + fi + off) % len(fschemas)]
                            cands = fault_pool[v].get(kind) or []
                            if cands:
                                break
                        fi += 1
                    case = cands[(fi + rnd) % len(cands)]
                    fmt = ["xml", "mediawiki", "xml", "tsv"][fi % 4]
                    if fmt == "tsv" and kind not in TSV_KINDS:
                        fmt = "mediawiki"
                    edits = [dict(e) for e in case["edits"]]
                    if kind == "conversion_factor" and fi % 2:
                        edits[-1]["value"] = SCRIPT_EXTRA_CONVERSION[(fi // 2) % len(SCRIPT_EXTRA_CONVERSION)]
                    files.append({"name": name, "schema": v, "format": fmt,
                                  "fault": {"kind": kind, "edits": edits, "code": KINDS[kind][1], "what": case["what"]}})
            for via in ("functions", "main"):
                jobs.append({"script": True, "pattern": pat, "files": files, "via": via})
        if not quick and rnd < 2:
            # two formats of ONE schema name (the script groups them under one entry), the fault in one of them, next to another file
            for bi, (faulty_ext, other_ext) in enumerate((("xml", "mediawiki"), ("mediawiki", "xml"), ("xml", "tsv"))):
                v = fschemas[(bi + rnd) % len(fschemas)]
                kind = ("conversion_factor", "allowed_character", "dup_node")[(bi + rnd) % 3]
                case = fault_pool[v][kind][0]
                files = [{"name": "f0", "schema": v, "format": faulty_ext,
                          "fault": {"kind": kind, "edits": case["edits"], "code": KINDS[kind][1], "what": case["what"]}},
                         {"name": "f0", "schema": v, "format": other_ext, "fault": None},
                         {"name": "f1", "schema": clean[(bi + 1) % len(clean)], "format": "xml", "fault": None}]
                order = [files, files[::-1], [files[1], files[2], files[0]]][bi]
                jobs.append({"script": True, "pattern": "".join("F" if f["fault"] else "C" for f in order) + " (one name, two formats)",
                             "files": order, "via": "functions"})
    return jobs


def _script_write(base, f):
    """write one file of a script job in the layout the script expects -> (path given to the script, text that names the file in
    the issues)"""
    from hed.schema import from_string
    stem = os.path.join(base, "%s_HED%s" % (f["name"], f["schema"]))
    fault = f["fault"]
    fmt = f["format"]
    if fault is None:
        s = schema(f["schema"])
        if fmt == "xml":
            s.save_as_xml(stem + ".xml", save_merged=True)
        elif fmt == "mediawiki":
            s.save_as_mediawiki(stem + ".mediawiki", save_merged=True)
    else:
        route = "wiki" if fmt == "mediawiki" else "xml"
        text = _doc(f["schema"], route).apply(fault["edits"])
        if fmt in ("xml", "mediawiki"):
            with open(stem + "." + fmt, "w", encoding="utf-8") as fp:
                fp.write(text)
        else:
            s = from_string(text, ".xml")
    if fmt in ("xml", "mediawiki"):
        return stem + "." + fmt, stem + "." + fmt
    # TSV: <folder>/hedtsv/<name>/<name>_<Section>.tsv ; the script is given one of the section files and validates the directory
    name = os.path.basename(stem)
    d = os.path.join(base, "hedtsv", name)
    s.save_as_dataframes(os.path.join(d, name + ".tsv"), save_merged=True)
    return os.path.join(d, name + "_Tag.tsv"), d


def _silent(fn, *a, **k):
    import contextlib
    import io
    with contextlib.redirect_stdout(io.StringIO()):
        return fn(*a, **k)


def evaluate_script(job):
    """-> list of (clause, observed, expected)"""
    import shutil
    import sys
    import tempfile
    from hed.scripts import script_util
    from hed.scripts import validate_schemas
    fails = []
    base = tempfile.mkdtemp(prefix="c14s_")
    try:
        given, named = [], []
        for f in job["files"]:
            a, b = _script_write(base, f)
            given.append(a)
            named.append(b)
        faulty = [i for i, f in enumerate(job["files"]) if f["fault"]]
        if job["via"] == "main":
            old = sys.argv
            sys.argv = ["validate_schemas"] + given
            try:
                status = _silent(validate_schemas.main)
            except SystemExit as e:
                status = e.code
            except Exception as e:      # noqa: BLE001
                return [("C14.script.runs", "main: %s: %s" % (type(e).__name__, str(e)[:300]), "returns an exit status")]
            finally:
                sys.argv = old
            if bool(status) != bool(faulty):
                fails.append(("C14.script.exit_status_tells_faulty", {"exit_status": status},
                              {"exit_status": "non-zero" if faulty else 0, "faulty_files": [job["files"][i]["name"] for i in faulty]}))
            return fails
        try:
            groups = _silent(script_util.sort_base_schemas, given)
            issues = _silent(script_util.validate_all_schemas, groups)
        except Exception as e:      # noqa: BLE001
            return [("C14.script.runs", "%s: %s" % (type(e).__name__, str(e)[:300]), "returns a list of issues")]
        text = "\n".join(str(i) for i in issues)
        head = [str(i)[:160] for i in issues][:4]
        if bool(issues) != bool(faulty):
            fails.append(("C14.script.issues_iff_a_file_is_faulty", {"issues": len(issues), "head": head},
                          {"issues": "some" if faulty else "none", "faulty_files": [job["files"][i]["name"] for i in faulty]}))
        for i, f in enumerate(job["files"]):
            shown = os.path.relpath(named[i], base)
            if f["fault"]:
                if named[i] not in text:
                    fails.append(("C14.script.every_faulty_file_reported", {"not_mentioned": shown, "position": i, "issues": len(issues),
                                                                            "head": head}, "an issue that names " + shown))
                elif f["fault"]["code"] not in text:
                    fails.append(("C14.script.every_faulty_file_reported", {"file": shown, "position": i, "head": head},
                                  "the specification's code %s in the issues of %s" % (f["fault"]["code"], shown)))
            elif named[i] in text:
                at = text.index(named[i])
                fails.append(("C14.script.clean_file_not_reported", {"file": shown, "position": i, "issue": text[at:at + 300]},
                              "no issue for the released schema " + f["schema"]))
        if len(job["files"]) == 1:
            try:
                one = _silent(script_util.validate_schema, given[0] if job["files"][0]["format"] != "tsv" else named[0])
                if bool(one) != bool(faulty):
                    fails.append(("C14.script.issues_iff_a_file_is_faulty", {"validate_schema": [str(i)[:160] for i in one][:3]},
                                  "some" if faulty else "none"))
            except Exception as e:      # noqa: BLE001
                fails.append(("C14.script.runs", "validate_schema: %s: %s" % (type(e).__name__, str(e)[:300]), "returns a list"))
        return fails
    finally:
        shutil.rmtree(base, ignore_errors=True)


def _work(chunk):
    out = []
    for version, route, idx, case in chunk:
        t = time.time()
        try:
            fails = evaluate_script(case) if version == "(script)" else evaluate(version, route, case)
        except Exception as e:      # noqa: BLE001 - a fault of this workload's own editing code
            fails = [("C14.seed.check_total", "workload error %s: %s" % (type(e).__name__, str(e)[:200]), "case evaluates")]
        out.append((version, route, idx, fails, time.time() - t))
    return out


# ----------------------------------------------------------------------------------------------- driver

def run(w: Workload):
    from hed.schema import load_schema, load_schema_version
    w.rule = ("Part A: every bundled standard/partnered schema x {load_schema_version, bundled file} x {warnings on, off}. "
              "Part B: per schema x fault kind (17 kinds) a seeded sample of the positions where the kind can sit "
              "(nodes, '#' nodes, units, unit classes, modifiers, value classes, attribute definitions); one fault per "
              "saved copy, written through the XML tree or the MediaWiki line; a case is distinct by (schema, route, kind, "
              "position, seeded value); duplicates outside the tag tree (kind dup_attrs): per schema x section (unit classes, units, "
              "modifiers, value classes, attributes, properties) x k = 0..3 carried attributes (a k-subset of the original's own, "
              "with its values) x place (right behind / far behind / right in front of / far in front of the original) x route")
    allb = bundled_versions()
    scope = [b for b in allb if in_scope(b)]
    # ---------------- Part A
    n_a = 0
    for version, path, lib, ws in scope:
        for how in ("version", "file"):
            w.case(("A", version, how), sample={"schema": version, "via": how})
            n_a += 1
            inp_a = {"schema": version, "via": how, "path": path}
            try:
                s = load_schema_version(version) if how == "version" else load_schema(path)
                on = s.check_compliance(check_for_warnings=True)
                off = s.check_compliance(check_for_warnings=False)
            except Exception as e:  # noqa: BLE001
                w.fail("C14.accept.no_error", inp_a, "%s: %s" % (type(e).__name__, str(e)[:300]), "loads and checks")
                continue
            errs = [(i["code"], i.get("ec_schema_tag"), i["message"][:120]) for i in on if i["severity"] == ERROR]
            w.check(not errs, "C14.accept.no_error", inp_a, errs[:5], [])
            w.check(off == [], "C14.accept.warnings_off_empty", inp_a,
                    [(i["code"], i["severity"], i["message"][:100]) for i in off][:5], [])
    w.part("A: released schemas accepted", cases=n_a, exhaustive=True,
           bound="all %d bundled standard and partnered library schemas (stand-alone score_1.0.0/testlib_1.0.2 excluded), "
                 "loaded by version and from the bundled file" % len(scope))
    # ---------------- Part B
    per_kind = 3 if w.quick else 120
    work = []
    n_by_kind = Counter()
    meta = {}
    fault_pool = {}
    for version, path, lib, ws in scope:
        try:
            s = schema(version)
            inv = Inventory(version, s)
        except Exception:       # noqa: BLE001 - already recorded by part A
            continue
        cases = gen_cases(inv, allb, w.rng, per_kind)
        latest = known_versions(allb, lib)[-1] == inv.number
        if latest and "hedId" in inv.entries["attributes"] and lib in ID_RANGES:
            nums = [int(x) for x in inv.number.split(".")]
            succ = "%d.%d.%d" % (nums[0], nums[1] + 1, 0)
            cases += gen_cases(inv, allb, w.rng, per_kind, successor=succ)
        if version in SCRIPT_CLEAN:
            for case in cases:
                if case["kind"] in SCRIPT_KINDS and clause_of(case) == KINDS[case["kind"]][0]:
                    fault_pool.setdefault(version, {}).setdefault(case["kind"], []).append(case)
        for idx, case in enumerate(cases):
            routes = ("xml", "wiki") if case["kind"] == "dup_attrs" and not w.quick else ("xml" if (idx % 3 != 2) else "wiki",)
            for route in routes:
                work.append((version, route, idx, case))
                meta[(version, route, idx)] = case
                n_by_kind[case["kind"]] += 1
    # longest schemas first, chunks interleaved so that every worker sees few distinct schemas
    by_schema = {}
    for item in work:
        by_schema.setdefault((item[0], item[1]), []).append(item)
    chunks = []
    for key in sorted(by_schema):
        items = by_schema[key]
        size = 12 if w.quick else 40
        chunks += [items[i:i + size] for i in range(0, len(items), size)]
    # Part C jobs go first (each validates up to three whole files), one per chunk
    sjobs = script_jobs(fault_pool, w.quick)
    for idx, job in enumerate(sjobs):
        meta[("(script)", job["via"], idx)] = job
    chunks = [[("(script)", job["via"], idx, job)] for idx, job in enumerate(sjobs)] + chunks
    nproc = min(14, max(1, (os.cpu_count() or 2) - 2))
    ctx = multiprocessing.get_context("fork")
    with ctx.Pool(nproc) as pool:
        results = pool.map(_work, chunks, chunksize=1)
    slow = slow_script = 0.0
    for chunk_res in results:
        for version, route, idx, fails, dt in chunk_res:
            case = meta[(version, route, idx)]
            if version == "(script)":
                slow_script = max(slow_script, dt)
                shape = [(f["schema"], f["format"], f["fault"]["kind"] if f["fault"] else None) for f in case["files"]]
                w.case(("script", case["via"], case["pattern"], str(shape)),
                       sample={"script": case["via"], "pattern": case["pattern"], "files": shape})
                for clause, observed, expected in fails:
                    w.fail(clause, case, observed, expected)
                continue
            slow = max(slow, dt)
            w.case((version, route, case["kind"], str(case["edits"])), sample={"schema": version, "route": route,
                                                                               "kind": case["kind"], "what": case["what"]})
            for clause, observed, expected in fails:
                w.fail(clause, {"schema": version, "route": route, "kind": case["kind"], "edits": case["edits"],
                                "expect": case["expect"], "what": case["what"], "nested_lib": case.get("nested_lib", False)},
                       observed, expected)
    w.part("B: seeded faults", cases=len(work), exhaustive=False,
           bound="%d positions per (schema, kind) [x2 for node-level kinds], seeded by --seed; 2/3 through the XML copy, 1/3 "
                 "through the MediaWiki copy; successor copies (8.4.0 of 8.3.0, score 2.1.0 of score_2.0.0) for 'changed hedId'; "
                 "dup_attrs: per schema x non-tag section x k=0..3 carried attributes %s"
                 % (per_kind, "one entry, one k-subset, place and route in rotation" if w.quick else
                    "3 entries x up to 4 k-subsets x 4 places (behind / in front of the original, adjacent / far) x both routes"), per_kind=dict(n_by_kind), slowest_case_s=round(slow, 2))
    w.part("C: script entry points over lists of schema files", cases=len(sjobs), exhaustive=False,
           bound="every faulty/clean pattern over lists of 1, 2 and 3 files (14 patterns: the fault in the first / middle / last file, in "
                 "several, in none)%s; clean files = released schemas %s saved as xml / mediawiki / hedtsv directory in rotation, faulty files "
                 "= one seeded fault of Part B's generator (kinds %s in rotation; conversionFactor also as a non-number) written through "
                 "the XML or MediaWiki copy or saved as TSV; hed.scripts.script_util.sort_base_schemas + validate_all_schemas (+ "
                 "validate_schema for single files) on every list, hed.scripts.validate_schemas.main on %s"
                 % ("" if w.quick else " x 4 rotations + 6 lists with two formats of one schema name",
                    SCRIPT_CLEAN[:3] if w.quick else SCRIPT_CLEAN, SCRIPT_KINDS, "every list"),
           slowest_case_s=round(slow_script, 2))
    w.assumptions += [
        "Part C: a released schema whose full compliance check is empty (Part A) is a clean file for the script; a file is 'mentioned' when "
        "its path (for TSV: its hedtsv/<name> directory) occurs in the returned issue texts",
        "fault-kind -> code table is the HED specification's schema error list (Appendix B.2), transcribed in KINDS",
        "hedId ranges per library are those of the specification (also shipped as schema_data/library_data/library_data.json)",
        "'position of the issue' is read from the issue's ec_schema_tag / ec_attribute context and, where two rules share a code, "
        "from the seeded value being quoted in the message",
        "known released versions = the bundled files (hed_cache.get_hed_versions is extern; no network)",
        "the text editors of rt/c14_edit.py produce well-formed XML / MediaWiki (checked by C14.seed.check_total)",
    ]
    w.not_covered += [
        "positions not drawn by the seeded sample (thorough draws 120-360 per schema and kind, not all ~1100-2000 nodes)",
        "value faults on attributes the schema does not declare for that section (e.g. deprecatedFrom / inLibrary / conversionFactor "
        "in 8.0.0): there the fault is 'undeclared attribute' and only that code is required",
        "over-reporting: a valid value being flagged (seen: valid deprecatedFrom on a nested library node of score_2.0.0) is outside "
        "the property and only probed by the two successor-copy controls",
        "faults seeded through the TSV form or by mutating the in-memory schema",
        "'changed hedId' for standard-schema nodes inside a partnered library (previous standard release has no ids) and for "
        "libraries without an id range (testlib)",
        "character-class warnings (names/descriptions), prologue/epilogue checks, prerelease-version warning",
        "HedSchemaGroup.check_compliance; the script's --add-all-extensions / 'prerelease' comparison of the three formats of one schema; "
        "upper-case file extensions; deleted files in the list",
    ]


def replay(w: Workload, case: dict):
    try:
        _replay(w, case)
    except Exception as e:      # noqa: BLE001
        w.fail(case.get("clause", "C14.seed.check_total"), case.get("input"), "replay raised %s: %s" % (type(e).__name__, str(e)[:300]),
               "replays")


def _replay(w, case):
    inp = case["input"]
    if inp.get("script"):
        for clause, observed, expected in evaluate_script(inp):
            if clause == case.get("clause"):
                w.fail(clause, inp, observed, expected)
        return
    if "edits" not in inp:
        from hed.schema import load_schema_version, load_schema
        s = load_schema(inp["path"]) if inp.get("via") == "file" and inp.get("path") else load_schema_version(inp["schema"])
        on = s.check_compliance(True)
        off = s.check_compliance(False)
        errs = [i["code"] for i in on if i["severity"] == ERROR]
        w.check(not errs, "C14.accept.no_error", inp, errs, [])
        w.check(off == [], "C14.accept.warnings_off_empty", inp, codes(off), [])
        return
    c = {"kind": inp["kind"], "edits": inp["edits"], "expect": inp.get("expect", {}), "what": inp.get("what"),
         "nested_lib": inp.get("nested_lib", False)}
    for clause, observed, expected in evaluate(inp["schema"], inp["route"], c):
        w.fail(clause, inp, observed, expected)


if __name__ == "__main__":
    main(run, "C14", replay)
