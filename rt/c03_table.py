"""Table part of rt/c03.py: the form conversions of the TABLE-level API.

BaseInput.convert_to_short / convert_to_long (inherited by TabularInput and SpreadsheetInput) rewrite every HED-bearing
column of the underlying table.  The property says what a conversion does to a tag (same node, value / extension suffix
carried over verbatim, long and short form mutually inverse and idempotent); a table conversion has to do exactly that to
every cell of every HED column and nothing to the other columns.

Cells are annotations made of 1-3 tag texts (flat, grouped, nested, with and without blanks around the delimiters).  A tag text
is a tag of the schema's vocabulary (read from the bundled XML by rt/c03.py) in short / partial / full spelling, as is / lower /
upper / swapped case, with the namespace prefix of its member schema, and with no suffix, a value, a placeholder, values with
':' resp. one- and two-term extensions.  Further cells: n/a, the empty cell, a cell with an unknown tag, a cell with a
{column} reference.

Oracles
  * independent: the cell with every tag replaced by <prefix><short name><suffix> resp. <prefix><long name><suffix>
    (names from the XML), delimiters without blanks; n/a and the empty cell stay what they are;
  * relational (every cell): HedString(cell, schema).get_as_short() / get_as_long().
Sibling cells (sibling_cells): a table usually repeats one annotation on many rows, and people do not repeat it letter for letter.
For a tag text with a value / extension, 6 writings that are equal up to letter case (name and suffix re-cased independently:
`Label/Left-Hand`, `label/left-hand`, `Label/LEFT-HAND`, `LABEL/Left-Hand` ...), alone, next to a companion tag (`..., Red` / `...,RED`,
with different blanks) and inside a group, so that SEVERAL cells of one column -- and, by the rotated second column, cells of two
columns of one row -- differ only in the case of a value or extension.  Each table is converted in the order written (siblings
adjacent), reversed (another sibling comes first) and shuffled (siblings apart).  Oracle as for every cell: each cell converts
exactly as its own text converts alone, suffix verbatim (clause C03.table.cell_converts_as_string).  Besides the input
objects, the same columns go through df_util.convert_to_form as a bare Series and as a bare DataFrame (kinds series / frame).

Checked: the first conversion of a fresh table (to short, to long), then short(short), long(short), short(long(short)) resp.
long(long), short(long), long(short(long)) on the same object, and after every step that all other columns still hold
what they held.
"""
import io
import json
import random

CL_CELL = "C03.table.cell_converts_as_string"
CL_ROUND = "C03.table.round_trip"
CL_OTHER = "C03.table.other_columns_untouched"

NA = "n/a"
VALUE_SUFFIXES = [("value", "/Val 7:xY"), ("placeholder", "/#"), ("value:time", "/08:30"), ("value:pieces", "/a/b:2/c")]
EXT_TERMS = ["Ext-X9q", "Sub_zQ"]
CASES = ("asis", "lower", "upper", "swap")
# cell shapes: nested lists of item slots
SHAPES = [[0], [0, 1], [[0, 1]], [0, [1, [2]]], [[0], 1], [[[0], 1], 2], [[0, 1], [2]], [[0]], [0, 1, 2]]
BLANKS = [("", "", ""), (" ", "", ""), (" ", " ", " "), ("  ", " ", "")]     # (after comma, after '(', before ')')
KINDS = ("tabular-df", "tabular-tsv", "tabular-sidecar", "sheet-named", "sheet-numbered", "base-mapper", "series", "frame")
SIBLING_RECASE = (("asis", "asis"), ("lower", "lower"), ("asis", "upper"), ("upper", "asis"), ("swap", "swap"), ("asis", "lower"))
SIBLING_VALUES = ["/Left-Hand", "/Val 7:xY"]
ROWS_PER_TABLE = 40

_cfg = {}


def configure(load, vocabulary, generate_schema_xml):
    """functions of rt/c03.py (set before the worker pool is forked)"""
    _cfg.update(load=load, vocabulary=vocabulary, gen=generate_schema_xml)


def _case(text, how):
    return {"asis": text, "lower": text.lower(), "upper": text.upper(), "swap": text.swapcase()}[how]


def _render(shape, texts, blanks=("", "", "")):
    after_comma, after_open, before_close = blanks

    def rec(items):
        return ("," + after_comma).join(texts[x] if isinstance(x, int) else "(" + after_open + rec(x) + before_close + ")"
                                        for x in items)
    return rec(shape)


def _arity(shape):
    return sum(1 if isinstance(x, int) else _arity(x) for x in shape)


def tag_items(long_name, ns, vocab_set, term_set, rng, per_tag):
    """-> [(written text, expected short, expected long)]: spellings x cases x suffixes of one tag, `per_tag` of them chosen so that
    the short, the full and a partial spelling, every suffix kind and every case variant turn up over a handful of tags"""
    terms = long_name.split("/")
    spellings = ["/".join(terms[j:]) for j in range(len(terms))]
    short_name = terms[-1]
    if long_name + "/#" in vocab_set:
        suffixes = [("none", "")] + VALUE_SUFFIXES
    else:
        ext = list(EXT_TERMS)
        while any(x.casefold() in term_set for x in ext):
            ext = [x + "q" for x in ext]
        suffixes = [("none", ""), ("extension", "/" + ext[0]), ("extension2", "/%s/%s" % (ext[0], ext[1])),
                    ("extension:colon", "/%s/%s:3" % (ext[0], ext[1]))]
    out = []
    combos = [(j, how, s) for j in sorted({0, len(spellings) // 2, len(spellings) - 1}) for how in CASES for s in suffixes]
    rng.shuffle(combos)
    # always one suffixed text in the short spelling as written in the schema (the plainest table content there is)
    combos.sort(key=lambda c: 0 if (c[0] == len(spellings) - 1 and c[1] == "asis" and c[2][1]) else 1)
    seen = set()
    for j, how, (kind, R) in combos:
        written = _case(spellings[j], how)
        if len(written) != len(spellings[j]) or written.casefold() != spellings[j].casefold():
            continue
        text = ns + written + R
        if text in seen:
            continue
        seen.add(text)
        out.append((text, ns + short_name + R, ns + long_name + R))
        if len(out) >= per_tag:
            break
    return out


def build_cells(items, rng):
    """-> [(raw cell, expected short or None, expected long or None)] (None: relational oracle only)"""
    cells = []
    for rnd in range(2):                      # every item is used twice, with different neighbours / shapes
        order = list(items)
        rng.shuffle(order)
        pos = 0
        k = rnd
        while pos < len(order):
            shape = SHAPES[k % len(SHAPES)]
            n = _arity(shape)
            chunk = order[pos:pos + n]
            if len(chunk) < n:
                shape, n = [0], 1
                chunk = order[pos:pos + 1]
            pos += n
            blanks = BLANKS[(k // len(SHAPES) + k) % len(BLANKS)]
            cells.append((_render(shape, [c[0] for c in chunk], blanks), _render(shape, [c[1] for c in chunk]),
                          _render(shape, [c[2] for c in chunk])))
            k += 1
    # cells without a tag, and cells whose conversion only the string level defines
    first = items[0][0] if items else "Xyzzy"
    extra = [(NA, NA, NA), ("", "", ""), ("Nonexistent-tag-qq/3, %s" % first, None, None), ("{other_column}, (%s)" % first, None, None),
             ("  %s  " % first, None, None)]
    step = max(3, len(cells) // 6)
    out = []
    for i, c in enumerate(cells):
        if i % step == 1:
            out.append(extra[(i // step) % len(extra)])
        out.append(c)
    for e in extra:
        if e not in out:
            out.append(e)
    return out


def _recase_ok(text, how):
    v = _case(text, how)
    return v if len(v) == len(text) and v.casefold() == text.casefold() else None


def sibling_items(long_name, ns, vocab_set, term_set, rng):
    """-> [(written text, expected short, expected long)]: writings of ONE tag text with a value / extension that are equal up to
    letter case; the name and the suffix are re-cased independently (the prefix is written as declared)"""
    terms = long_name.split("/")
    spellings = ["/".join(terms[j:]) for j in range(len(terms))]
    if long_name + "/#" in vocab_set:
        R = SIBLING_VALUES[rng.randrange(len(SIBLING_VALUES))]
    else:
        ext = list(EXT_TERMS)
        while any(x.casefold() in term_set for x in ext):
            ext = [x + "q" for x in ext]
        R = ["/" + ext[0], "/%s/%s" % (ext[0], ext[1])][rng.randrange(2)]
    spelling = spellings[[len(spellings) - 1, 0, len(spellings) // 2][rng.randrange(3)]]
    out, seen = [], set()
    for name_how, suffix_how in SIBLING_RECASE:
        name, suffix = _recase_ok(spelling, name_how), _recase_ok(R, suffix_how)
        if name is None or suffix is None or ns + name + suffix in seen:
            continue
        seen.add(ns + name + suffix)
        out.append((ns + name + suffix, ns + terms[-1] + suffix, ns + long_name + suffix))
    return out


def sibling_cells(groups, companions):
    """groups: [sibling_items(...)], companions: [(short name without prefix, short, long)] plain tags.  -> cells (raw, short, long): every writing
    alone, with a (re-cased) companion in different blank patterns, and inside a group with the companion"""
    cells = []
    for gi, group in enumerate(groups):
        comp = companions[gi % len(companions)]
        ns = comp[1][:len(comp[1]) - len(comp[0])]             # the prefix is written as declared, only the name is re-cased
        comps = [(ns + comp[0],) + comp[1:]]
        comps += [(ns + v, comp[1], comp[2]) for v in (_recase_ok(comp[0], "upper"), _recase_ok(comp[0], "lower")) if v]
        for item in group:
            cells.append(item)
        for k, item in enumerate(group):
            c = comps[k % len(comps)]
            pair = [item, c] if k % 2 == 0 or len(group) < 2 else [c, item]
            cells.append(tuple(_render([0, 1], [x[i] for x in pair], BLANKS[k % len(BLANKS)] if i == 0 else ("", "", ""))
                               for i in range(3)))
        for k, item in enumerate(group[:3]):
            c = comps[(k + 1) % len(comps)]
            cells.append(tuple(_render([[0, 1]], [x[i] for x in (item, c)], BLANKS[(k + gi) % len(BLANKS)] if i == 0 else ("", "", ""))
                               for i in range(3)))
    return cells


class _Bare:
    """a bare pandas object converted with df_util.convert_to_form -- same interface as the input objects"""

    def __init__(self, kind, cells, rot):
        import pandas as pd
        self.kind = kind
        if kind == "series":
            self.series = pd.Series(list(cells), name="HED")
            self.keep = pd.Series(list(rot), name="note")
        else:
            self.frame = pd.DataFrame({"note": list(cells), "HED": list(cells), "B": list(rot)})

    @property
    def dataframe(self):
        import pandas as pd
        if self.kind == "series":
            return pd.DataFrame({"HED": self.series, "note": self.keep})
        return self.frame

    def _convert(self, S, form):
        from hed.models.df_util import convert_to_form
        if self.kind == "series":
            return convert_to_form(self.series, S, form)
        return convert_to_form(self.frame, S, form, columns=["HED", "B"])

    def convert_to_short(self, S):
        return self._convert(S, "short_tag")

    def convert_to_long(self, S):
        return self._convert(S, "long_tag")


def make_table(kind, cells, first_tag):
    """-> (input object, [HED column names], [other column names])"""
    import pandas as pd
    from hed.models.tabular_input import TabularInput
    from hed.models.spreadsheet_input import SpreadsheetInput
    from hed.models.base_input import BaseInput
    from hed.models.column_mapper import ColumnMapper
    from hed.models.sidecar import Sidecar
    n = len(cells)
    onsets = [str(i * 0.5) for i in range(n)]
    rot = cells[1:] + cells[:1]
    if kind == "tabular-df":
        df = pd.DataFrame({"onset": onsets, "HED": list(cells), "note": list(rot)})
        return TabularInput(df, name="c03-table"), ["HED"], ["onset", "note"]
    if kind == "tabular-tsv":
        tsv = lambda x: x if x.strip() else NA        # an empty TSV field is read as n/a
        lines = ["onset\tnote\tHED"] + ["%s\t%s\t%s" % (o, tsv(r), tsv(c)) for o, r, c in zip(onsets, rot, cells)]
        return TabularInput(io.StringIO("\n".join(lines) + "\n"), name="c03-table"), ["HED"], ["onset", "note"]
    if kind == "tabular-sidecar":
        # 'cat' is a categorical column of the sidecar: its cells are keys, not annotations, even when a key reads like a tag
        sidecar = Sidecar(io.StringIO(json.dumps({"cat": {"HED": {"go": first_tag, first_tag: first_tag}}})))
        cat = [first_tag if i % 2 else "go" for i in range(n)]
        df = pd.DataFrame({"HED": list(cells), "cat": cat, "onset": onsets, "note": list(rot)})
        return TabularInput(df, sidecar=sidecar, name="c03-table"), ["HED"], ["onset", "note", "cat"]
    if kind == "sheet-named":
        df = pd.DataFrame({"A": list(cells), "note": list(cells), "B": list(rot)}, index=range(10, 10 + n))
        return SpreadsheetInput(df, tag_columns=["A", "B"], name="c03-table"), ["A", "B"], ["note"]
    if kind == "sheet-numbered":
        df = pd.DataFrame([[c, r, r] for c, r in zip(cells, rot)])
        return SpreadsheetInput(df, tag_columns=[0, 2], has_column_names=False, name="c03-table"), [0, 2], [1]
    if kind == "base-mapper":
        df = pd.DataFrame({"note": list(rot), "HED": list(cells)})
        return BaseInput(df, mapper=ColumnMapper(tag_columns=["HED"], warn_on_missing_column=False), name="c03-table"), ["HED"], \
            ["note"]
    if kind == "series":
        return _Bare(kind, cells, rot), ["HED"], ["note"]
    if kind == "frame":
        return _Bare(kind, cells, rot), ["HED", "B"], ["note"]
    raise ValueError(kind)


def string_forms(S, text, memo):
    if text not in memo:
        from hed.models.hed_string import HedString
        try:
            hs = HedString(text, S)
            memo[text] = (hs.get_as_short(), hs.get_as_long())
        except Exception as ex:  # noqa
            memo[text] = ("%s: %s" % (type(ex).__name__, ex),) * 2
    return memo[text]


def check_table(S, kind, cells, expected, first_tag, rec, memo, siblings=False):
    """cells: raw texts; expected: {raw: (short or None, long or None)} from the XML.  -> number of (cell, first conversion) cases.
    siblings: the table's cells are case variants of each other -- a failure record then carries the whole table (the other cells
    are part of the failing input)"""
    n_cases = 0
    for first in ("short", "long"):
        try:
            obj, hed_cols, other_cols = make_table(kind, cells, first_tag)
            source = {c: list(obj.dataframe[c]) for c in hed_cols}
            others = {c: list(obj.dataframe[c]) for c in other_cols}       # as loaded: they have to stay exactly that
            if sorted(map(str, obj.dataframe.columns)) != sorted(map(str, hed_cols + other_cols)):
                raise ValueError("columns of the table: %r" % list(obj.dataframe.columns))
        except Exception as ex:  # noqa
            rec(CL_CELL, {"kind": kind, "cells": cells[:3], "first_tag": first_tag}, "%s: %s" % (type(ex).__name__, ex),
                "the table is built")
            return n_cases
        other = "long" if first == "short" else "short"
        steps = [first, first, other, first]
        done = []
        for si, form in enumerate(steps):
            done.append(form)
            try:
                ret = obj.convert_to_short(S) if form == "short" else obj.convert_to_long(S)
            except Exception as ex:  # noqa
                rec(CL_CELL if si == 0 else CL_ROUND, {"kind": kind, "cells": cells[:3], "first_tag": first_tag, "steps": list(done)},
                    "%s: %s" % (type(ex).__name__, ex), "no exception")
                break
            idx = 0 if form == "short" else 1
            for col in hed_cols:
                got = list(obj.dataframe[col])
                for row, src in enumerate(source[col]):
                    want = [string_forms(S, src, memo)[idx]]
                    exp = expected.get(src)
                    if exp is not None and exp[idx] is not None:
                        want.append(exp[idx])
                    if si == 0:
                        n_cases += 1
                    if any(got[row] != x for x in want):
                        rec(CL_CELL if si == 0 else CL_ROUND,
                            dict({"kind": kind, "cell": src, "column": col, "steps": list(done), "first_tag": first_tag},
                                 **({"siblings": True, "cells": list(cells), "row": row} if siblings else {})),
                            got[row], want[-1] if len(set(want)) == 1 else {"HedString": want[0], "from the schema XML": want[-1]})
            for col, content in others.items():
                got = list(obj.dataframe[col])
                if got != list(content):
                    bad = [i for i in range(len(content)) if i >= len(got) or got[i] != content[i]][:1]
                    rec(CL_OTHER, {"kind": kind, "column": col, "cell": content[bad[0]] if bad else None, "steps": list(done),
                                   "first_tag": first_tag}, got[bad[0]] if bad and bad[0] < len(got) else len(got),
                        content[bad[0]] if bad else len(content))
            if ret is not None:
                rec(CL_OTHER, {"kind": kind, "steps": list(done), "first_tag": first_tag}, repr(ret)[:80], "None (conversion in place)")
    return n_cases


def plan(w, configs, quick_labels):
    """-> work units (label, spec, members' tag names, seed)"""
    units = []
    for label, spec, files, members_vocab in configs:
        if w.quick and label not in quick_labels and spec[0] == "bundled":
            continue
        per_member = []
        rng = random.Random("%s/table/%s" % (w.seed, label))
        budget = 36 if w.quick else 400
        for vocab in members_vocab:
            vocab_set = set(vocab)
            names = [n for n in vocab if not n.endswith("/#")]
            if len(names) > budget:
                valued = [n for n in names if n + "/#" in vocab_set]
                pick = set(sorted(names, key=lambda n: (-n.count("/"), n))[:4] + [n for n in names if "/" not in n][:2])
                pick.update(rng.sample(valued, min(len(valued), budget // 3)))
                rest = [n for n in names if n not in pick]
                pick.update(rng.sample(rest, max(0, min(len(rest), budget - len(pick)))))
                names = [n for n in names if n in pick]
            per_member.append(names)
        units.append((label, spec, files, per_member, "%s/table/%s" % (w.seed, label), w.quick))
    return units


def work(unit):
    import warnings
    warnings.simplefilter("ignore")
    label, spec, files, per_member, seed = unit[:5]
    quick = unit[5] if len(unit) > 5 else True
    fails = {}
    out = {"fails": fails, "cases": 0, "cells": 0, "tables": 0, "keys": []}

    def rec(clause, inp, observed, expected):
        inp = dict(inp, schema=label, spec=spec, table=True)
        cnt, recs = fails.setdefault(clause, [0, []])
        fails[clause][0] = cnt + 1
        if len(recs) < 3:
            recs.append({"input": inp, "observed": observed, "expected": expected})
    try:
        rng = random.Random(seed)
        S, members = _cfg["load"](tuple(spec) if isinstance(spec, list) else spec)
        items = []
        for mi, names in enumerate(per_member):
            vocab = _cfg["vocabulary"](files[mi]) if spec[0] == "bundled" else _cfg["gen"](spec[1], spec[2])[1]
            vocab_set = set(vocab)
            term_set = {t.casefold() for n in vocab for t in n.split("/")}
            ns = members[mi]._namespace
            for long_name in names:
                items += tag_items(long_name, ns, vocab_set, term_set, rng, 3)
        if not items:
            return out
        cells = build_cells(items, rng)
        expected = {}
        for raw, s, l in cells:
            expected.setdefault(raw, (s, l))
        texts = [c[0] for c in cells]
        first_tag = items[0][1]
        memo = {}
        out["cells"] = len(texts)
        for ki, kind in enumerate(KINDS):
            for start in range(0, len(texts), ROWS_PER_TABLE):
                chunk = texts[start:start + ROWS_PER_TABLE]
                n = check_table(S, kind, chunk, expected, first_tag, rec, memo)
                out["cases"] += n
                out["tables"] += 1
                out["keys"] += ["table|%s|%s|%d|%d" % (label, kind, start, i) for i in range(n)]
        # ---- a history across schemas: the same cell texts converted with a SECOND schema object of the same version that carries a
        # namespace prefix (there the unprefixed spellings name no tag), then with the first schema again: what a cell converts to
        # depends on the schema handed in, never on a conversion made before with another schema
        arg = spec[1] if spec[0] == "bundled" and isinstance(spec[1], str) else None
        if arg and not any(c in arg for c in ":+,[") and members[0]._namespace == "":
            S2, _m2 = _cfg["load"](("bundled", "zz:" + arg))

            def rec2(clause, inp, observed, expected_):
                rec(clause, dict(inp, history="converted before with %s; this conversion with zz:%s" % (arg, arg)), observed, expected_)

            def rec3(clause, inp, observed, expected_):
                rec(clause, dict(inp, history="converted before with zz:%s; this conversion with %s" % (arg, arg)), observed, expected_)
            chunk = texts[:ROWS_PER_TABLE]
            for kind in ("tabular-df", "series"):
                n = check_table(S2, kind, chunk, {}, first_tag, rec2, {})
                n += check_table(S, kind, chunk, expected, first_tag, rec3, memo)
                out["cases"] += n
                out["tables"] += 2
                out["keys"] += ["table-second-schema|%s|%s|%d" % (label, kind, i) for i in range(n)]
        # ---- sibling cells: several cells of a column equal up to letter case / blanks ------------------------------
        groups, companions = [], []
        for mi, names in enumerate(per_member):
            vocab = _cfg["vocabulary"](files[mi]) if spec[0] == "bundled" else _cfg["gen"](spec[1], spec[2])[1]
            vocab_set = set(vocab)
            term_set = {t.casefold() for n in vocab for t in n.split("/")}
            ns = members[mi]._namespace
            valued = [n for n in names if n + "/#" in vocab_set]
            plain = [n for n in names if n + "/#" not in vocab_set]
            k = 5 if quick else 20
            chosen = rng.sample(valued, min(k, len(valued))) + rng.sample(plain, min(k, len(plain)))
            for long_name in chosen:
                g = sibling_items(long_name, ns, vocab_set, term_set, rng)
                if len(g) >= 2:
                    groups.append(g)
            for long_name in rng.sample(plain, min(4, len(plain))):
                companions.append((long_name.split("/")[-1], ns + long_name.split("/")[-1], ns + long_name))
        out["sibling_cells"] = out["sibling_tables"] = 0
        if groups and companions:
            sib = sibling_cells(groups, companions)
            for raw, s_, l_ in sib:
                expected.setdefault(raw, (s_, l_))
            sib_texts = [c[0] for c in sib]
            out["sibling_cells"] = len(sib_texts)
            for start in range(0, len(sib_texts), ROWS_PER_TABLE):
                chunk = sib_texts[start:start + ROWS_PER_TABLE]
                shuffled = list(chunk)
                rng.shuffle(shuffled)
                for oi, ordered in enumerate((chunk, list(reversed(chunk)), shuffled)):
                    for kind in KINDS:
                        n = check_table(S, kind, ordered, expected, first_tag, rec, memo, siblings=True)
                        out["cases"] += n
                        out["sibling_tables"] += 1
                        out["keys"] += ["table-siblings|%s|%s|%d|%d|%d" % (label, kind, start, oi, i) for i in range(n)]
    except Exception:  # noqa
        import traceback
        rec("C03.workload.unit_completed", {"part": "table"}, traceback.format_exc()[-600:], "no exception")
    return out


def replay_table(w, case):
    """one recorded cell in a one-row (plus one n/a row) table of the recorded kind"""
    import warnings
    warnings.simplefilter("ignore")
    inp = case["input"]
    spec = inp["spec"]
    S, _ = _cfg["load"](tuple(spec) if isinstance(spec, list) else spec)
    cells = [inp["cell"]] if inp.get("cell") is not None else list(inp.get("cells", []))
    cells = [c for c in cells if c is not None] + [NA]
    if inp.get("siblings"):           # the other cells of the table are part of the failing input
        cells = list(inp["cells"])

    def rec(clause, i, observed, expected):
        if clause == case["clause"]:
            w.fail(clause, dict(i, schema=inp["schema"], spec=spec, table=True), observed, expected)
    w.case(key=json.dumps(inp, sort_keys=True))
    check_table(S, inp["kind"], cells, {}, inp.get("first_tag", "Xyzzy"), rec, {}, siblings=bool(inp.get("siblings")))
