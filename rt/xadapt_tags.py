"""Adapters / proxies for the concrete cross-check of the contracts of part `tags`
(C01 per-tag rules, C03 resolution, C04.tag_eq, C13 namespaces).  See tools/MODEL_XCHECK_BRIEF.md.

The contracts speak about class models; the real objects answer to almost every field name already (HedTag.tag, .extension,
.org_base_tag, .schema_namespace, .short_tag, .org_tag are properties; HedSchema._namespace, HedSchemaGroup._schemas,
CharValidator._validate_characters are attributes).  What has to be added:

* `HedTag.__str__` is a *field* of the model (the text str(tag) yields): TagP answers `p.__str__` with `str(real)`.
* References to schema entries are compared by identity in the model (`result[0] == tag_view(...)` on Opt[Ref[TagEntry]]),
  whereas HedTagEntry.__eq__ is structural (and crashes on None): Ref wraps an entry so that == is identity of the wrapped
  object; every other attribute is forwarded (`.takes_value_child_entry` again as Ref / None).
* issue dicts -> objects (rt.adapters._wrap), with the internal kind recorded.

Every adapter that receives a HedTag also checks the *trusted model statements* about HedTag of contracts/common.py on that
tag (is_basic_tag == known and no extension, is_takes_value_tag == has_attr(tag,'takesValue'), has_attribute == has_attr,
base_tag_has_attribute false on unknown tags): a violation raises ModelAxiomViolated, which no contract allows, so it
shows up as a failure `raises:ModelAxiomViolated escapes`.
"""
from rt.adapters import _wrap, _recording_format_error


class ModelAxiomViolated(Exception):
    pass


# --------------------------------------------------------------------------------------------- references
class Ref:
    """a reference to a real object: == / != are identity of the referent (the model's equality on Ref sorts)"""
    __slots__ = ("_o",)

    def __init__(self, o):
        object.__setattr__(self, "_o", o)

    def __eq__(self, other):
        if isinstance(other, Ref):
            return self._o is other._o
        return self._o is other

    def __ne__(self, other):
        return not self.__eq__(other)

    def __hash__(self):
        return id(self._o)

    def __bool__(self):
        return bool(self._o)

    def __getattr__(self, k):
        v = getattr(self._o, k)
        if k in ("takes_value_child_entry", "_parent_tag", "parent"):
            return ref(v)
        return v

    def __repr__(self):
        return f"Ref({getattr(self._o, 'name', self._o)!r})"


def ref(o):
    if o is None or isinstance(o, Ref):
        return o
    return Ref(o)


def unref(o):
    return o._o if isinstance(o, Ref) else o


# --------------------------------------------------------------------------------------------- HedTag proxy
class TagP:
    """forwards everything to the real HedTag; adds the model-only fields
         __str__  : str(real)        (field "__str__" of the class model)
         known    : bool(real._schema_entry)"""

    def __init__(self, real, label=None):
        self.__dict__["_real"] = real
        self.__dict__["_label"] = label

    __str__ = property(lambda self: str(self.__dict__["_real"]))
    known = property(lambda self: bool(self.__dict__["_real"]._schema_entry))

    def __getattr__(self, k):
        return getattr(self.__dict__["_real"], k)

    def __setattr__(self, k, v):
        setattr(self.__dict__["_real"], k, v)

    def __eq__(self, other):
        return self.__dict__["_real"] is (other.__dict__["_real"] if isinstance(other, TagP) else other)

    def __hash__(self):
        return id(self.__dict__["_real"])

    def __repr__(self):
        r = self.__dict__["_real"]
        return f"TagP({self.__dict__['_label'] or ''} tag={r.tag!r} str={str(r)!r} entry={getattr(r._schema_entry, 'name', None)!r})"


def real_tag(t):
    return t.__dict__["_real"] if isinstance(t, TagP) else t


def check_tag_axioms(tag):
    """the trusted statements of contracts/common.py about the pure getters of HedTag, on this real tag"""
    from hed.schema.hed_schema_constants import HedKey
    t = real_tag(tag)
    known = bool(t._schema_entry)
    bad = []

    def has_attr(k):          # has_attr(tag, k) := known and entry.has_attribute(k)   (common.py:_has_attr_term)
        return known and bool(t._schema_entry.has_attribute(k))
    if t.is_basic_tag() is not (known and not t.extension):
        bad.append("is_basic_tag() == known and not extension")
    if t.is_takes_value_tag() is not has_attr(HedKey.TakesValue):
        bad.append("is_takes_value_tag() == has_attr(tag, 'takesValue')")
    for k in (HedKey.RequireChild, HedKey.ExtensionAllowed, HedKey.TakesValue, "deprecatedFrom", HedKey.TagGroup,
              HedKey.TopLevelTagGroup, "noSuchAttribute"):
        if t.has_attribute(k) is not has_attr(k):
            bad.append(f"has_attribute({k!r}) is the Bool has_attr(tag, {k!r}) (and false when not known)")
    if not known and (t.base_tag_has_attribute(HedKey.TagGroup) or t.base_tag_has_attribute(HedKey.TopLevelTagGroup)):
        bad.append("base_tag_has_attribute false on an unknown tag")
    if t.tag_exists_in_schema() is not known:
        bad.append("tag_exists_in_schema() == known")
    if bad:
        raise ModelAxiomViolated(f"{t.tag!r}: " + "; ".join(bad))


def _strip(args):
    a = dict(args)
    a.pop("origin", None)
    return a


# --------------------------------------------------------------------------------------------- adapters
def tag_rule(fn, args):
    """static per-tag rules (original_tag [, is_definition]): issues as objects, kind recorded"""
    a = _strip(args)
    check_tag_axioms(a["original_tag"])
    a["original_tag"] = real_tag(a["original_tag"])
    with _recording_format_error():
        return _wrap(fn(**a))


def tag_validator_method(fn, args):
    """methods of TagValidator whose contract names `self` (Opaque / TagValidator)"""
    a = _strip(args)
    check_tag_axioms(a["original_tag"])
    a["original_tag"] = real_tag(a["original_tag"])
    me = a.pop("self")
    with _recording_format_error():
        return _wrap(fn(me, **a))


def invalid_chars(fn, args):
    a = _strip(args)
    a["source_tag"] = real_tag(a["source_tag"])
    with _recording_format_error():
        return _wrap(fn(**a))


def tag_level(fn, args):
    a = _strip(args)
    for t in a["original_tag_list"]:
        check_tag_axioms(t)
    a["original_tag_list"] = [real_tag(t) for t in a["original_tag_list"]]
    with _recording_format_error():
        return _wrap(fn(**a))


def tag_eq(fn, args):
    a = _strip(args)
    return fn(real_tag(a["self"]), real_tag(a["other"]))


def find_entry(fn, args):
    """HedSchema._find_tag_entry / HedSchemaGroup.find_tag_entry -> (Ref entry | None, remainder, issues as objects)"""
    a = _strip(args)
    me = a.pop("self")
    a["tag"] = real_tag(a["tag"])
    entry, remainder, issues = fn(me, **a)
    return ref(entry), remainder, _wrap(issues)


def find_sub(fn, args):
    """HedSchema._find_tag_subfunction -> (Ref entry, index)"""
    a = _strip(args)
    me = a.pop("self")
    a["tag"] = real_tag(a["tag"])
    entry, idx = fn(me, **a)
    return ref(entry), idx


def method(fn, args):
    """plain method: self first, rest by keyword"""
    a = _strip(args)
    me = a.pop("self")
    return fn(me, **a)


def set_prefix(fn, args):
    """HedSchema.set_schema_prefix; the case carries the contract's let `body` for the raises condition (see xgens_tags.set_prefix_cases)"""
    a = _strip(args)
    a.pop("body", None)
    me = a.pop("self")
    return fn(me, **a)
