"""C13 — Library schemas and namespaces compose without changing meaning (tier T3, bounded runtime workload).

Relational oracle, straight from the property text:
  * prefixed    : validate(prefix_all(A, p), GROUP)  ==  validate(A, schema of p loaded alone, unprefixed)
  * unprefixed  : validate(A, GROUP)                 ==  validate(A, the unprefixed member loaded alone)
  * bad prefix  : a prefix that is not loaded, or is not alphabetic, yields an error-severity issue / a refused load
  * partnered   : every entry of the standard schema is present and unchanged in the library schema partnered with it,
                  the remaining tags are exactly the library's own (read independently from the library XML)
  * refusals    : same library twice under one prefix, schemas with clashing names under one prefix, duplicate
                  prefixes in a group -> HedFileError; controls with distinct prefixes load
  * history     : an annotation object PARSED with one schema (group) S1 and then VALIDATED with another one S2
                  (HedValidator(S2).validate) is judged - and its tags are resolved - exactly as a string freshly parsed and
                  validated with S2 (the prefix / the tags of S1 that S2 does not provide are errors); validated afterwards
                  through its own validate() it is judged by S1 again.  S1, S2: every ordered pair of {the group, each member
                  loaded alone and unprefixed} of the offline pairings; texts prefixed for each member, unprefixed and mixed.
                  Two narrow clauses (defects of the unchanged tree, labelled by a model of the defect region, never by the
                  expected value): C13.history.value_split_kept_from_previous_schema (a tag whose split into name and value /
                  extension differs between S1 and S2) and C13.history.lookup_by_previous_short_form (a tag not written in
                  short form); every other case is under C13.history.judged_by_validating_schema /
                  .forms_follow_validating_schema / .own_validate_uses_parsing_schema
  * configuration history : the same two clauses (prefixed / unprefixed judged as alone) for schema OBJECTS with a past: an
                  object that was USED (annotations validated with it, get_tags_with_attribute asked) BEFORE it received its
                  prefix - HedSchema.set_schema_prefix after unprefixed use, re-prefixing after use under another prefix, the
                  prefix taken away again, an unmerged copy of a library file loaded with schema_namespace= after the cached
                  standard schema it is built on was used, HedSchemaGroup built from objects that were used on their own, the
                  standard member prefixed after use.  Annotations exercise the unique tag (Event-context: once, repeated,
                  long / lower-case spellings), required tags and further unique tags (edited copies of the 8.2.0 libraries:
                  no bundled schema has a required tag), plus a sample of the general annotations; and the names that
                  get_tags_with_attribute advertises carry the prefix the object has NOW.
  * temporal    : the prefixed clause for top-level Onset / Offset / Inset / Duration / Delay groups used with a definition
                  dictionary (definitions declared under the prefix), with and without inner groups / Def values, through
                  the string entry point and as rows of a table with an onset column
Annotations are generated per member schema from its own vocabulary (standard tags, library tags, value tags with and
without units, extensions, long forms, invalid and structural cases, non-ASCII values and extensions).  The groups include
all-prefixed ones (no unprefixed member) for every offline pairing.  One narrow clause (defect of the unchanged tree, labelled
by a predicate on the input): C13.group.mixed_generation_character_rules - non-ASCII text in a group whose members straddle
standard generation 8.3.0 (the validator takes ONE character-rule set for the whole group).
"""
import os
import re
import xml.etree.ElementTree as ET

from rt.common import Workload, main, codes  # noqa: F401

# (group spec, {namespace: spec of the same schema loaded alone and unprefixed})
GROUPS = [
    (["8.3.0"], {"": "8.3.0"}),
    (["score_2.0.0"], {"": "score_2.0.0"}),
    (["sc:score_2.0.0"], {"sc:": "score_2.0.0"}),
    (["8.3.0", "sc:score_2.0.0"], {"": "8.3.0", "sc:": "score_2.0.0"}),
    (["sc:score_1.1.0", "8.2.0"], {"": "8.2.0", "sc:": "score_1.1.0"}),
    (["8.2.0", "tl:testlib_2.0.0"], {"": "8.2.0", "tl:": "testlib_2.0.0"}),
    (["tl:testlib_3.0.0", "8.2.0"], {"": "8.2.0", "tl:": "testlib_3.0.0"}),
    (["tl:testlib_2.1.0", "8.3.0"], {"": "8.3.0", "tl:": "testlib_2.1.0"}),
    (["a:8.3.0", "b:8.2.0"], {"a:": "8.3.0", "b:": "8.2.0"}),
    (["sc:score_2.0.0", "tl:testlib_2.0.0", "8.3.0"], {"": "8.3.0", "sc:": "score_2.0.0", "tl:": "testlib_2.0.0"}),
    (["8.0.0", "sc:score_1.0.0"], {"": "8.0.0", "sc:": "score_1.0.0"}),
    (["8.1.0", "tl:testlib_1.0.2"], {"": "8.1.0", "tl:": "testlib_1.0.2"}),
    (["ts:score_1.1.0", "ts:testlib_2.0.0", "8.2.0"], {"": "8.2.0", "ts:": ["score_1.1.0", "testlib_2.0.0"]}),
    (["score_1.1.0", "sc:score_1.1.0"], {"": "score_1.1.0", "sc:": "score_1.1.0"}),
    (["x:8.3.0", "y:8.3.0"], {"x:": "8.3.0", "y:": "8.3.0"}),
    (["8.3.0", "Sc:score_2.0.0"], {"": "8.3.0", "Sc:": "score_2.0.0"}),       # prefix with a capital letter
    (["8.0.0", "SC:score_1.0.0"], {"": "8.0.0", "SC:": "score_1.0.0"}),
    # all-prefixed groups (no unprefixed member) over the offline pairings, both orders of the list
    (["sc:score_2.0.0", "st:8.3.0"], {"sc:": "score_2.0.0", "st:": "8.3.0"}),                      # 17
    (["st:8.3.0", "sc:score_2.0.0"], {"st:": "8.3.0", "sc:": "score_2.0.0"}),                      # 18
    (["sc:score_1.1.0", "st:8.2.0"], {"sc:": "score_1.1.0", "st:": "8.2.0"}),                      # 19
    (["st:8.2.0", "tl:testlib_3.0.0"], {"st:": "8.2.0", "tl:": "testlib_3.0.0"}),                  # 20
    (["tl:testlib_2.0.0", "st:8.2.0"], {"tl:": "testlib_2.0.0", "st:": "8.2.0"}),                  # 21
    (["tl:testlib_2.1.0", "st:8.3.0"], {"tl:": "testlib_2.1.0", "st:": "8.3.0"}),                  # 22 (generations differ)
    (["st:8.3.0"], {"st:": "8.3.0"}),                                                              # 23
    (["sc:score_2.0.0", "tl:testlib_2.0.0", "st:8.3.0"], {"sc:": "score_2.0.0", "tl:": "testlib_2.0.0", "st:": "8.3.0"}),   # 24
    (["sc:score_1.0.0", "st:8.0.0"], {"sc:": "score_1.0.0", "st:": "8.0.0"}),                      # 25
    (["st:8.1.0", "tl:testlib_1.0.2"], {"st:": "8.1.0", "tl:": "testlib_1.0.2"}),                  # 26
    (["ts:score_1.1.0", "ts:testlib_2.0.0", "st:8.2.0"], {"st:": "8.2.0", "ts:": ["score_1.1.0", "testlib_2.0.0"]}),        # 27
]
QUICK_GROUPS = [0, 2, 3, 4, 6, 8, 9, 11, 12, 15, 17, 18, 19, 22, 23]
QUICK_HISTORY = [2, 3, 4, 5, 8, 12]

PARTNERS = [("score_1.1.0", "8.2.0"), ("score_2.0.0", "8.3.0"), ("testlib_2.0.0", "8.2.0"), ("testlib_2.1.0", "8.2.0"),
            ("testlib_3.0.0", "8.2.0"), (["score_1.1.0", "testlib_2.0.0"], "8.2.0"),
            (["testlib_3.0.0", "score_1.1.0"], "8.2.0")]

BAD_PREFIXES_NONALPHA = ["s1:", "s-c:", ":", "1:", "a_b:", "sc.:"]

_loaded = {}


class LoadFailed(Exception):
    """a configuration that the property lists as available offline could not be built: an observation, not a harness fault"""
    def __init__(self, spec, exc):
        super().__init__(repr(spec), repr(exc)[:300])
        self.spec, self.exc = spec, exc


def load(spec):
    from hed.schema import load_schema_version
    key = repr(spec)
    if key not in _loaded:
        try:
            _loaded[key] = load_schema_version(spec)
        except Exception as e:        # recorded by guarded() as a failure of C13.load.offline_pairing_loads
            raise LoadFailed(spec, e) from e
    return _loaded[key]


def guarded(w, what, f, *args):
    """run one part; a configuration that fails to load fails the load clause for that part instead of ending the workload"""
    try:
        return f(w, *args)
    except LoadFailed as e:
        w.case(key=("load-failed", what, repr(e.spec)), nontrivial=True, sample={"load": e.spec})
        w.fail("C13.load.offline_pairing_loads", {"load": e.spec, "part": what}, "EXC " + repr(e.exc)[:300], "the configuration loads")
        return 0


# ------------------------------------------------------------------------------------------------------------------
def prefix_all(text, p):
    """put namespace p in front of every tag token (text between , ( ) ), keeping blanks"""
    def one(m):
        t = m.group(0)
        if not t.strip():
            return t
        lead = len(t) - len(t.lstrip())
        return t[:lead] + p + t[lead:]
    return re.sub(r"[^,()]+", one, text)


def observe(text, sch, strip="", def_dict=None):
    """-> (verdict list, forms) ; verdict = [(code, severity, named tag without the prefix)]"""
    from hed import HedString
    from hed.errors.error_reporter import ErrorHandler
    from hed.errors.error_types import ErrorContext
    try:
        hs = HedString(text, sch, def_dict) if def_dict is not None else HedString(text, sch)
        eh = ErrorHandler(check_for_warnings=True)
        eh.push_error_context(ErrorContext.HED_STRING, hs)
        issues = hs.validate(allow_placeholders=False, error_handler=eh)
    except Exception as e:  # noqa
        return "EXC " + repr(e)[:200], None
    out = []
    for i in issues:
        src = i.get("source_tag")
        named = getattr(src, "org_tag", None)
        if named is None and src is not None:
            named = str(src)
        if named is not None and strip:
            named = prefix_strip(named, strip)
        frag = None
        if "char_index" in i:           # the selected fragment, modulo the prefix at its start
            frag = prefix_strip(text[i["char_index"]:i["char_index_end"]], strip)
        out.append((i["code"], i["severity"], named, frag))
    try:
        forms = []
        for t in hs.get_all_tags():
            forms.append((prefix_strip(t.short_tag, strip), prefix_strip(t.long_tag, strip), t.extension,
                          t.schema_namespace == strip))
    except Exception as e:  # noqa
        forms = "EXC " + repr(e)[:200]
    return out, forms


def prefix_strip(text, p):
    if not p:
        return text
    return re.sub(r"(^|[,(]\s*)" + re.escape(p), r"\1", text)


# ------------------------------------------------------------------------------------------------------------------
def annotations(w, alone, n_tags):
    """annotations over the vocabulary of one schema (loaded alone)"""
    entries = [e for name, e in alone.tags.items() if not e.name.endswith("/#")]
    own = [e for e in entries if e.has_attribute("inLibrary")]
    std = [e for e in entries if not e.has_attribute("inLibrary")]
    pick = []
    for pool_, k in ((std, n_tags), (own, n_tags)):
        pool_ = sorted(pool_, key=lambda e: e.name)
        pick += w.rng.sample(pool_, min(k, len(pool_)))
    shorts = [e.short_tag_name for e in pick]
    out = []
    for e in pick:
        s = e.short_tag_name
        out.append(s)
        out.append(e.long_tag_name)
        if s.lower() != s:
            out.append(s.lower())
        tv = e.takes_value_child_entry
        if tv is not None:
            out.append(s + "/3")
            out.append(s + "/abc")
            for uc in tv.unit_classes.values():
                du = uc.attributes.get("defaultUnits")
                if du:
                    out.append(s + "/3 " + du)
                out.append(s + "/3 zorks")
        else:
            out.append(s + "/Extx")
            out.append(s + "/Extx/Deeper")
    a, b, c = (shorts + ["Red", "Blue", "Green"])[:3]
    for k in range(0, len(shorts) - 2, 3):
        x, y, z = shorts[k:k + 3]
        out += ["%s, %s" % (x, y), "(%s, %s)" % (x, y), "(%s, (%s, %s))" % (x, y, z), "%s, %s" % (x, x),
                "(%s, %s), (%s, %s)" % (x, y, y, x), " %s ,  (%s )" % (x, z), "%s//%s" % (x, y), "%s/%s" % (x, y)]
    out += ["Zork", "Zork/Blah", "%s/Zork/Blah" % a, "Def/Abc", "(Definition/Abc, (%s))" % a, "(Onset, Def/Abc)",
            "(Duration/3 s, (%s))" % a, "Duration/3 s", "(Offset, %s)" % a, "%s, (Delay/2 s, (%s))" % (a, b),
            "(Def-expand/Abc, (%s))" % a, "Label/a$b", "Label/abc, Label/abc", "%s,, %s" % (a, b), "(%s" % a,
            "(%s, ())" % a, "Event, Sensory-event, Agent-action", "(Red, Blue), (Blue, Red)", "Age/12", "Age/12 years",
            "Weight/3 kg, Weight/3 KG", "Item/Object, Object", "Property/Red", "Sensory-event/Red", "#", "Label/#"]
    # printable non-ASCII text in values and extensions (accepted from standard generation 8.3.0 on, rejected before), and
    # non-printable non-ASCII characters (rejected by every generation)
    for k, e in enumerate(pick):
        s = e.short_tag_name
        word = ["caf\u00e9", "\u00dcn\u00ef", "\u65e5\u672c", "\u03a9mega", "na\u00efve", "\u00c5ngstr\u00f6m"][k % 6]
        if e.takes_value_child_entry is not None:
            out.append("%s/%s" % (s, word))
        else:
            out.append("%s/Ext%s" % (s, word))
            if k % 4 == 0:
                out.append("%s/%s/Deeper" % (s, word.capitalize()))
    out += ["Label/caf\u00e9", "Red, Description/\u00dcn\u00ef c\u00f6d\u00e9 text", "Label/\u65e5\u672c", "(Label/na\u00efve, (Label/\u03a9mega, %s))" % a,
            "ID/\u00e91", "Label/a\u2028b", "Label/x\u00a0y", "Description/Pi \u03c0 is 3.14, %s" % b, "%s, Label/caf\u00e9, Label/caf\u00e9" % a,
            "Label/\U0001F600", "(Definition/D\u00e9f, (%s))" % a, "Def/D\u00e9f", "Age/12 ye\u00e4rs", "Label/caf\u00e9 #"]
    digit_first = sorted(e.short_tag_name for e in entries if e.short_tag_name[:1].isdigit())[:3]
    out += digit_first + ["red", "item/object", "(red, Blue)", "RED"]
    seen, res = set(), []
    for t in out:
        if t not in seen:
            seen.add(t)
            res.append(t)
    return res


CL_MIXED_GEN = "C13.group.mixed_generation_character_rules"     # narrow: see mixed_generation()


def _is_83_generation(version):
    """the standard generation a schema belongs to, read from its XML header (never from the schema object): the partner
    named by withStandard, else the schema's own version when it is a standard schema; stand-alone libraries: none"""
    root = ET.parse(_xml_path(version)).getroot()
    std = root.attrib.get("withStandard") or (root.attrib.get("version") if not root.attrib.get("library") else None)
    return std is not None and tuple(int(x) for x in std.split(".")[:3]) >= (8, 3, 0)


def mixed_generation(members):
    """label only (a model of the defect region on the INPUT): the members of the group do not all belong to the same side of
    standard generation 8.3.0, where the character rules changed"""
    gens = set()
    for alone_spec in members.values():
        for v in (alone_spec if isinstance(alone_spec, list) else [alone_spec]):
            gens.add(_is_83_generation(v))
    return len(gens) > 1


def _without_style(verdict):
    return [v for v in verdict if v[0] != "STYLE_WARNING"] if isinstance(verdict, list) else verdict


# ------------------------------------------------------------------------------------------------------------------
def run_group(w, gi, n_tags, count=True, only=None):
    spec, members = GROUPS[gi]
    inp0 = {"group": spec}
    try:
        G = load(spec)
    except Exception as e:  # noqa
        w.fail("C13.load.offline_pairing_loads", inp0, repr(e)[:200], "schema or schema group")
        return 0
    n = 0
    loaded_ns = set(members)
    mixed = mixed_generation(members)
    for ns, alone_spec in members.items():
        alone = load(alone_spec)
        texts = annotations(w, alone, n_tags) if only is None else [only]
        for A in texts:
            inp = {"group_index": gi, "group": spec, "namespace": ns, "alone": alone_spec, "annotation": A}
            PA = prefix_all(A, ns) if ns else A
            got, gforms = observe(PA, G, strip=ns)
            exp, eforms = observe(A, alone)
            n += 1
            if count:
                w.case(key=(gi, ns, A), nontrivial=True,
                       sample={"group": spec, "annotation": PA, "codes": got if isinstance(got, str) else [g[0] for g in got]})
            clause = "C13.prefixed.judged_as_alone" if ns else "C13.unprefixed.judged_as_alone"
            if mixed and any(ord(ch) > 127 for ch in A):
                # narrow label: non-ASCII text in a group whose members straddle generation 8.3.0 (one rule set for the whole group)
                clause = CL_MIXED_GEN
            if ns and got != exp and _without_style(got) == _without_style(exp):
                # narrow label: the only difference is the capitalisation warning (the rule reads the prefix as part of the name)
                clause = "C13.prefixed.capitalisation_warning_reads_prefix"
            w.check(got == exp, clause, inp, got, exp, prefixed_text=PA)
            if got == exp and not isinstance(got, str):
                w.check(gforms == eforms, "C13.forms.same_tag_forms_modulo_prefix", inp, gforms, eforms, prefixed_text=PA)
            # a prefix that is not loaded / not alphabetic is an error
            if (only is not None or n % 5 == 0) and A.strip() and not isinstance(exp, str):
                bads = ["zz:", "SCX:", (ns[:-1].upper() + ":") if ns and ns[:-1].upper() + ":" not in loaded_ns else "qq:"]
                for bp in bads + BAD_PREFIXES_NONALPHA:
                    if bp in loaded_ns:
                        continue
                    BA = prefix_all(A, bp)
                    if not re.search(r"[^,()\s]", A):
                        continue
                    bgot, _ = observe(BA, G)
                    has_err = isinstance(bgot, list) and any(b[1] == 1 for b in bgot)
                    cl = "C13.prefix.not_alphabetic_is_error" if bp in BAD_PREFIXES_NONALPHA else \
                        "C13.prefix.not_loaded_is_error"
                    if count:
                        w.case(key=(gi, "bad", bp, A), nontrivial=True)
                    n += 1
                    w.check(has_err, cl, dict(inp, bad_prefix=bp, prefixed_text=BA), bgot, "an error-severity issue")
    return n


# ------------------------------------------------------------------------------------------------------------------
# temporal groups (Onset / Offset / Inset / Duration / Delay) with definitions, every tag under the prefix
# ------------------------------------------------------------------------------------------------------------------
TEMPORAL_GROUPS = [2, 3, 4, 6, 8, 9, 15, 17, 22, 23, 24]       # indexes into GROUPS; quick: the first five
TEMPORAL_TAGS = ["Onset", "Offset", "Inset", "Duration/3 s", "Delay/2 s", "offset", "{long:Offset}", "{long:Onset}", "Duration/3 s, Delay/1 s",
                 "Onset, Delay/2 s", "Offset, Delay/2 s"]
# how the definition is used inside the group ({A}, {B}, {C}: tags of the member's vocabulary; Abc takes no value, Val takes one)
TEMPORAL_DEFS = ["", "Def/Abc", "Def/Val/3", "Def/Val", "Def/Abc/3", "Def/Unknown", "(Def-expand/Abc, ({A}))", "(Def-expand/Val/3, (Label/3, {A}))",
                 "def/abc", "Def/Abc, Def/Val/3"]
TEMPORAL_EXTRAS = ["", "({B})", "({B}), ({C})", "{B}", "({B}, ({C}))", "()"]
TEMPORAL_WRAPS = ["({G})", "({G}), {C}", "(({G}))", "{G}", "({G}), ({G2})", "{C}, (  {G} )"]
TEMPORAL_DEFINITIONS = ["(Definition/Abc, ({A}))", "(Definition/Val/#, (Label/#, {A}))"]
TEMPORAL_DEFINITION_VARIANTS = [["(Definition/Abc, ({A}))", "(Definition/Val/#, (Label/#, {A}))"],
                                ["(Definition/Abc, ({A}, (Onset)))"], ["(Definition/Abc, ({A})), {B}"], ["(Definition/Abc, ({A}))", "(Definition/abc, ({B}))"],
                                ["(Definition/Val/#, ({A}))"], ["(Definition/Abc/#, (Label/#)), (Definition/Two, (Def/Abc/3))"], ["(Definition/Zork-x, (Zork))"]]


def temporal_texts(alone, quick, shift):
    """annotations: temporal tag(s) x use of a definition x further content of the group x order x surroundings"""
    def ok(name):
        try:
            return alone.get_tag_entry(name) is not None
        except Exception:  # noqa
            return False
    if not all(ok(n) for n in ("Onset", "Offset", "Inset", "Duration", "Delay", "Def", "Def-expand", "Definition", "Label")):
        return None, None
    words = [n for n in ("Red", "Blue", "Green", "Square", "Circle") if ok(n)]
    own = sorted(e.short_tag_name for e in alone.tags.values() if e.has_attribute("inLibrary") and not e.name.endswith("/#")
                 and e.takes_value_child_entry is None and "/" not in e.short_tag_name)
    words = (own[:1] + words + own[1:4])[:3]
    if len(words) < 3:
        return None, None
    sub = {"A": words[0], "B": words[1], "C": words[2]}
    out = []
    n = 0
    for ti, T in enumerate(TEMPORAL_TAGS):
        if T.startswith("{long:"):
            T = alone.get_tag_entry(T[6:-1]).long_tag_name
        for di, D in enumerate(TEMPORAL_DEFS):
            for ei, E in enumerate(TEMPORAL_EXTRAS):
                for order in range(3):
                    n += 1
                    if quick and (n + shift) % 7:
                        continue
                    parts = [x for x in ([T, D, E], [D, T, E], [E, D, T])[order] if x]
                    G = ", ".join(parts)
                    wrap = TEMPORAL_WRAPS[(ti + di + ei + order) % len(TEMPORAL_WRAPS)]
                    G2 = ", ".join(x for x in ("Offset" if "nset" in T else "Onset", D) if x)
                    text = wrap.replace("{G2}", G2).replace("{G}", G)
                    for k, v in sub.items():
                        text = text.replace("{%s}" % k, v)
                    out.append(text)
    seen, res = set(), []
    for t in out:
        if t not in seen:
            seen.add(t)
            res.append(t)
    return res, sub


def _definitions(texts, sch):
    """-> (DefinitionDict or 'EXC ...', [names defined], [codes of its issues])"""
    from hed.models.definition_dict import DefinitionDict
    try:
        dd = DefinitionDict(list(texts), sch)
        return dd, sorted(dd.defs), [(i["code"], i["severity"]) for i in dd.issues]
    except Exception as e:  # noqa
        return "EXC " + repr(e)[:200], None, None


def _table_verdict(rows, definitions, sch):
    """a table with an onset column, one annotation per row, definitions in the sidecar -> [(code, severity, row)]"""
    import io
    import json
    import pandas as pd
    from hed import Sidecar, TabularInput
    try:
        side = Sidecar(io.StringIO(json.dumps({"defs": {"HED": {"d%d" % k: d for k, d in enumerate(definitions)}}})))
        df = pd.DataFrame({"onset": [str(float(k)) for k in range(len(rows))], "duration": ["n/a"] * len(rows), "HED": rows}, dtype=str)
        issues = TabularInput(df, sidecar=side, name="t").validate(sch, name="t")
        return [(i["code"], i["severity"], i.get("ec_row")) for i in issues]
    except Exception as e:  # noqa
        return "EXC " + repr(e)[:200]


def run_temporal(w, gi, count=True, only=None):
    spec, members = GROUPS[gi]
    G = load(spec)
    n = 0
    for mi, (ns, alone_spec) in enumerate(members.items()):
        if not ns:
            continue
        alone = load(alone_spec)
        texts, sub = temporal_texts(alone, w.quick, gi + mi)
        if texts is None:
            continue

        def fill(t):
            for k, v in sub.items():
                t = t.replace("{%s}" % k, v)
            return t
        base = {"temporal": True, "group_index": gi, "group": spec, "namespace": ns, "alone": alone_spec}
        # definitions declared under the prefix: the same names are defined, with the same complaints
        for vi, variant in enumerate(TEMPORAL_DEFINITION_VARIANTS):
            if only is not None and only.get("definitions") != [fill(d) for d in variant]:
                continue
            dtexts = [fill(d) for d in variant]
            ddA, namesA, issA = _definitions(dtexts, alone)
            ddG, namesG, issG = _definitions([prefix_all(d, ns) for d in dtexts], G)
            n += 1
            if count:
                w.case(key=(gi, ns, "definitions", vi), nontrivial=True, sample={"group": spec, "definitions": dtexts, "names": namesA})
            inp = dict(base, definitions=dtexts, what="definition dictionary")
            w.check((namesG, issG) == (namesA, issA) and isinstance(ddG, str) == isinstance(ddA, str), "C13.prefixed.judged_as_alone", inp,
                    [ddG if isinstance(ddG, str) else namesG, issG], [ddA if isinstance(ddA, str) else namesA, issA])
        dtexts = [fill(d) for d in TEMPORAL_DEFINITIONS]
        ddA, namesA, _ = _definitions(dtexts, alone)
        ddG, namesG, _ = _definitions([prefix_all(d, ns) for d in dtexts], G)
        if isinstance(ddA, str) or isinstance(ddG, str) or namesA != ["abc", "val"] or namesG != namesA:
            continue            # (reported by the check above)
        for A in (texts if only is None else [only["annotation"]] if "annotation" in only else []):
            PA = prefix_all(A, ns)
            got, gforms = observe(PA, G, strip=ns, def_dict=ddG)
            exp, eforms = observe(A, alone, def_dict=ddA)
            n += 1
            if count:
                w.case(key=(gi, ns, "temporal", A), nontrivial=True,
                       sample={"group": spec, "annotation": PA, "codes": got if isinstance(got, str) else [g[0] for g in got]})
            inp = dict(base, annotation=A, definitions=dtexts)
            clause = "C13.prefixed.judged_as_alone"
            if got != exp and _without_style(got) == _without_style(exp):
                clause = "C13.prefixed.capitalisation_warning_reads_prefix"
            w.check(got == exp, clause, inp, got, exp, prefixed_text=PA)
            if got == exp and not isinstance(got, str):
                w.check(gforms == eforms, "C13.forms.same_tag_forms_modulo_prefix", inp, gforms, eforms, prefixed_text=PA)
        # the same through the table entry point: rows of a file with an onset column, definitions in the sidecar
        step = 6
        picks = [texts[k:k + step] for k in range(0, len(texts), step)]
        picks = picks[::9] if w.quick else picks[::2]
        if only is not None:
            picks = [only["rows"]] if "rows" in only else []
        for rows in picks:
            exp = _table_verdict(rows, dtexts, alone)
            got = _table_verdict([prefix_all(r, ns) for r in rows], [prefix_all(d, ns) for d in dtexts], G)
            n += 1
            if count:
                w.case(key=(gi, ns, "temporal table", tuple(rows)), nontrivial=True)
            w.check(got == exp, "C13.prefixed.judged_as_alone", dict(base, rows=rows, definitions=dtexts, what="table with onset column"),
                    got, exp)
    return n


# ------------------------------------------------------------------------------------------------------------------
# history: parsed with S1, validated with S2
# ------------------------------------------------------------------------------------------------------------------
OBSERVED = {}
CL_HISTORY_STALE = "C13.history.value_split_kept_from_previous_schema"     # narrow: see run_history


CL_HISTORY_SHORT = "C13.history.lookup_by_previous_short_form"   # narrow: a tag not written in short form is looked up again
#                                                                   by the short form the previous schema gave it


def judge(hs, text, sch):
    """verdict of HedValidator(sch) on the HedString object hs (+ the resolved forms of its tags afterwards)"""
    from hed.validator.hed_validator import HedValidator
    from hed.errors.error_reporter import ErrorHandler
    from hed.errors.error_types import ErrorContext
    try:
        eh = ErrorHandler(check_for_warnings=True)
        eh.push_error_context(ErrorContext.HED_STRING, hs)
        issues = HedValidator(sch).validate(hs, allow_placeholders=False, error_handler=eh)
    except Exception as e:  # noqa
        return "EXC " + repr(e)[:200], None
    out = []
    for i in issues:
        src = i.get("source_tag")
        named = getattr(src, "org_tag", None)
        if named is None and src is not None:
            named = str(src)
        frag = text[i["char_index"]:i["char_index_end"]] if "char_index" in i else None
        out.append((i["code"], i["severity"], named, frag))
    try:
        forms = [(t.short_tag, t.long_tag, t.extension, t.schema_namespace, t.short_base_tag, t.org_tag)
                 for t in hs.get_all_tags()]
    except Exception as e:  # noqa
        forms = "EXC " + repr(e)[:200]
    return out, forms


def history_schemas(gi):
    """[(spec, schema)]: the group itself and each member loaded alone and unprefixed"""
    spec, members = GROUPS[gi]
    out, seen = [], set()
    for sp in [spec] + list(members.values()):
        key = repr(sp if isinstance(sp, list) and len(sp) > 1 else (sp[0] if isinstance(sp, list) else sp))
        if key not in seen:
            seen.add(key)
            out.append((sp, load(sp)))
    return out


def history_texts(w, gi, n_tags):
    spec, members = GROUPS[gi]
    texts, per_ns = [], {}
    for ns, alone_spec in members.items():
        A = annotations(w, load(alone_spec), n_tags)
        per_ns[ns] = A
        texts += [prefix_all(a, ns) if ns else a for a in A]
        if ns:
            texts += A[::3]                        # the same annotations without the prefix
    nss = list(per_ns)
    if len(nss) > 1:                               # tags of two namespaces in one annotation
        for k in range(0, 40):
            a, b = per_ns[nss[k % len(nss)]], per_ns[nss[(k + 1) % len(nss)]]
            x, y = a[(k * 7) % len(a)], b[(k * 11) % len(b)]
            if x.strip() and y.strip():
                texts.append("%s, (%s)" % (prefix_all(x, nss[k % len(nss)]), prefix_all(y, nss[(k + 1) % len(nss)]))
                             if "(" not in y and "," not in y else
                             "%s, %s" % (prefix_all(x, nss[k % len(nss)]), prefix_all(y, nss[(k + 1) % len(nss)])))
    return list(dict.fromkeys(texts))


def run_history(w, gi, n_tags, count=True, only=None):
    from hed import HedString
    schemas = history_schemas(gi)
    if len(schemas) < 2:
        return 0
    texts = history_texts(w, gi, n_tags) if only is None else [only["annotation"]]
    n = 0
    fresh = {}
    for text in texts:
        for i2, (sp2, S2) in enumerate(schemas):
            try:
                fresh[(text, i2)] = judge(HedString(text, S2), text, S2)
            except Exception as e:  # noqa
                fresh[(text, i2)] = ("EXC " + repr(e)[:200], None)
    for ti, text in enumerate(texts):
        for i1, (sp1, S1) in enumerate(schemas):
            for i2, (sp2, S2) in enumerate(schemas):
                if i1 == i2 or (only is not None and (only["parsed_with"], only["validated_with"]) != (sp1, sp2)):
                    continue
                inp = {"history": True, "group_index": gi, "annotation": text, "parsed_with": sp1, "validated_with": sp2,
                       "validated_with_parsing_schema_first": bool((ti + i1 + i2) % 2)}
                n += 1
                if count:
                    w.case(key=("history", gi, i1, i2, text), nontrivial=True,
                           sample={"annotation": text, "parsed_with": sp1, "validated_with": sp2})
                try:
                    hs = HedString(text, S1)
                    if (ti + i1 + i2) % 2:
                        judge(hs, text, S1)              # judged by its own schema first (every second case)
                except Exception as e:  # noqa
                    w.fail("C13.history.judged_by_validating_schema", inp, "EXC " + repr(e)[:200], "parses")
                    continue
                got, gforms = judge(hs, text, S2)
                exp, eforms = fresh[(text, i2)]
                # label only (never the expected value): where a tag's split into name and value/extension differs between
                # the two schemas, the object keeps the split of the schema it was identified with before (narrow clause)
                f1 = fresh[(text, i1)][1]
                stale_region = not isinstance(f1, list) or not isinstance(eforms, list) or len(f1) != len(eforms) or \
                    any(a[2] != b[2] for a, b in zip(f1, eforms))
                # label only: a tag that one of the two schemas knows under a short form other than the text as written
                # (long / partial-path spelling) - the object is looked up again by that short form, not by its text
                short_region = not stale_region and any(f[0].casefold() != f[5].casefold() for f in f1 + eforms)
                if stale_region or short_region:
                    # Re-using ONE parsed object across schemas that split or spell the tag differently is a history the property does
                    # not quantify over (C13 ranges over inputs and configurations); the real code keeps part of the earlier
                    # identification there (stale value split / look-up by the earlier short form).  Recorded as an observation in
                    # DESIGN.md section D, not judged.
                    OBSERVED[CL_HISTORY_STALE if stale_region else CL_HISTORY_SHORT] = OBSERVED.get(
                        CL_HISTORY_STALE if stale_region else CL_HISTORY_SHORT, 0) + 1
                    continue
                cl = (lambda general: general)
                general = "C13.history.judged_by_validating_schema"
                ok = w.check(got == exp, cl(general), inp, got, exp)
                if ok and not isinstance(got, str) and not any(g[1] == 1 for g in got):
                    # (with an error the validator may stop before it identifies the tags; nothing to compare then)
                    w.check(gforms == eforms, cl("C13.history.forms_follow_validating_schema"), inp, gforms, eforms,
                            check="tag forms after validation")
                # back through the object's own validate(): judged by the schema it was parsed with
                try:
                    from hed.errors.error_reporter import ErrorHandler
                    from hed.errors.error_types import ErrorContext
                    eh = ErrorHandler(check_for_warnings=True)
                    eh.push_error_context(ErrorContext.HED_STRING, hs)
                    back = [(i["code"], i["severity"]) for i in hs.validate(allow_placeholders=False, error_handler=eh)]
                except Exception as e:  # noqa
                    back = "EXC " + repr(e)[:200]
                exp_back = fresh[(text, i1)][0]
                exp_back = [(c, sv) for c, sv, _, _ in exp_back] if isinstance(exp_back, list) else exp_back
                w.check(back == exp_back, cl("C13.history.own_validate_uses_parsing_schema"), inp, back, exp_back,
                        check="own validate() after validation with the other schema")
    return n


# ------------------------------------------------------------------------------------------------------------------
# configuration histories: schema objects that were used before they got their prefix
# ------------------------------------------------------------------------------------------------------------------
# (standard version, library version, prefix, edit of the library or None); all pairings lie on one side of generation 8.3.0
CONFIG_PAIRINGS = [
    ("8.2.0", "testlib_2.0.0", "tl:", {"required": ["B-nonextension"], "unique": ["Flute-sound", "A-nonextension"]}),
    ("8.3.0", "score_2.0.0", "sc:", None),
    ("8.2.0", "testlib_2.0.0", "tl:", None),
    ("8.2.0", "score_1.1.0", "sc:", None),          # from here on: thorough tier only
    ("8.2.0", "testlib_3.0.0", "Tl:", {"required": ["Piano-sound"], "unique": ["F-nonextension"]}),
    ("8.2.0", "testlib_3.0.0", "tl:", None),
]
CONFIG_HISTORIES = ["set_prefix_after_unprefixed_use", "reprefix_after_use_under_another_prefix", "prefix_removed_after_prefixed_use",
                    "used_single_schema_given_prefix", "unmerged_file_loaded_with_namespace_after_standard_was_used",
                    "group_built_from_objects_used_alone", "standard_member_prefixed_after_use"]
LOOKUP_ATTRIBUTES = ["unique", "required", "topLevelTagGroup", "tagGroup", "requireChild", "reserved", "extensionAllowed", "takesValue",
                     "relatedTag"]
CL_LOOKUP = "C13.history.attribute_lookup_follows_current_prefix"


UNMERGED_AFTER_USE = "unmerged_file_loaded_with_namespace_after_standard_was_used"
# narrow (defect of the unchanged tree): a partnered library loaded from its UNMERGED file is built on a deep copy of the cached
# standard schema; when that standard schema has answered get_tags_with_attribute before, the copy keeps the standard's finished
# attribute lists, so the library's own tags never appear in them (its own unique / required tags are not enforced)
CL_STALE_COPY = "C13.history.unmerged_library_keeps_attribute_lists_of_used_standard"


def _own_tag(alone, name):
    e = alone.tags.get(name)
    return e is not None and e.has_attribute("inLibrary")


def _without_own_attribute_issues(verdict):
    return [v for v in verdict if v[0] not in ("REQUIRED_TAG_MISSING", "TAG_NOT_UNIQUE")] if isinstance(verdict, list) else verdict


def _head_diff(a, b):
    """the first entries of a that are not in b (else the head of a)"""
    if isinstance(a, str) or isinstance(b, str):
        return a
    other = set(b)
    d = [x for x in a if x not in other]
    return {"count": len(a), "not_in_other": d[:5]} if d else {"count": len(a), "head": a[:3]}


def _edited_library_file(version, edit, folder):
    """a private copy of the bundled (merged) library file in which some of the library's own tags are required / unique"""
    tree = ET.parse(_xml_path(version))
    todo = {name: attr for attr, names in edit.items() for name in names}
    for node in tree.getroot().iter("node"):
        attr = todo.pop(node.findtext("name"), None)
        if attr:
            a = ET.SubElement(node, "attribute")
            ET.SubElement(a, "name").text = attr
    if todo:
        raise ValueError("edit names not found in %s: %s" % (version, sorted(todo)))
    path = os.path.join(folder, "HED_%s_edit_%s.xml" % (version, "_".join(sorted(n for ns in edit.values() for n in ns))))
    tree.write(path, encoding="utf-8", xml_declaration=True)
    return path


def special_texts(uniques, requireds, x, y, long_of):
    """annotations around unique and required tags; x: a tag of the library, y: a standard tag"""
    out = []
    for u in uniques:
        out += ["(%s, %s)" % (u, x), "(%s, %s), (%s, %s)" % (u, x, u, y), "(%s, %s), %s, (%s, (%s))" % (u, x, y, u, y),
                "(%s, %s), (%s, %s)" % (long_of(u), x, u, y), "(%s, %s), (%s, %s)" % (u.lower(), x, u.upper(), y),
                "%s, %s" % (u, u), u, "(%s, %s), (%s, %s), (%s)" % (u, x, u, y, u), "%s, (%s, %s)" % (y, u, x),
                "(%s), (%s)" % (u, u), "(%s, (%s, %s))" % (x, u, y)]
    for r in requireds:
        out += [r, "(%s, %s)" % (r, x), "%s, (%s, %s)" % (y, x, r), long_of(r), r.lower(), "%s, %s" % (r, r)]
    out += [x, y, "%s, %s" % (x, y), "(%s, %s)" % (y, x)]        # nothing unique, nothing required
    for u in uniques[:1]:
        for r in requireds[:1]:
            out += ["(%s, %s), %s" % (u, x, r), "(%s, %s), (%s, %s), %s" % (u, x, u, y, r)]
    return list(dict.fromkeys(out))


def _use(obj, texts, ns):
    """what an earlier part of a program does with a schema object: validate a few annotations, ask for attribute lists"""
    for t in texts:
        observe(prefix_all(t, ns) if ns else t, obj, strip=ns)
    for a in LOOKUP_ATTRIBUTES:
        try:
            obj.get_tags_with_attribute(a)
        except Exception:  # noqa
            pass


def build_config_history(how, std_v, lib_path, lib_alone, p, use_texts, folder):
    """-> (schema or group to validate with, {namespace: the member loaded alone, never prefixed}, schemas for the lookup check)"""
    from hed.schema import load_schema, HedSchemaGroup
    std_cached = load(std_v)
    _use(std_cached, use_texts, "")
    if how == "set_prefix_after_unprefixed_use":
        lib = load_schema(lib_path)
        _use(lib, use_texts, "")
        lib.set_schema_prefix(p[:-1])
        return HedSchemaGroup([std_cached, lib]), {"": std_cached, p: lib_alone}, {"": std_cached, p: lib}
    if how == "reprefix_after_use_under_another_prefix":
        lib = load_schema(lib_path, schema_namespace="zz")
        _use(lib, use_texts, "zz:")
        lib.set_schema_prefix(p)
        return HedSchemaGroup([lib, std_cached]), {"": std_cached, p: lib_alone}, {"": std_cached, p: lib}
    if how == "prefix_removed_after_prefixed_use":
        lib = load_schema(lib_path, schema_namespace=p)
        _use(lib, use_texts, p)
        lib.set_schema_prefix("")
        return lib, {"": lib_alone}, {"": lib}
    if how == "used_single_schema_given_prefix":
        lib = load_schema(lib_path)
        _use(lib, use_texts, "")
        lib.set_schema_prefix(p)
        return lib, {p: lib_alone}, {p: lib}
    if how == "unmerged_file_loaded_with_namespace_after_standard_was_used":
        path = os.path.join(folder, "unmerged_%s" % os.path.basename(lib_path))
        load_schema(lib_path).save_as_xml(path, save_merged=False)
        lib = load_schema(path, schema_namespace=p[:-1])
        return HedSchemaGroup([std_cached, lib]), {"": std_cached, p: lib_alone}, {"": std_cached, p: lib}
    if how == "group_built_from_objects_used_alone":
        std = load_schema(_xml_path(std_v))
        _use(std, use_texts, "")
        lib = load_schema(lib_path, schema_namespace=p)
        _use(lib, use_texts, p)
        return HedSchemaGroup([lib, std]), {"": std_cached, p: lib_alone}, {"": std, p: lib}
    if how == "standard_member_prefixed_after_use":
        std = load_schema(_xml_path(std_v))
        _use(std, use_texts, "")
        std.set_schema_prefix("st")
        lib = load_schema(lib_path)
        _use(lib, use_texts, "")
        lib.set_schema_prefix(p)
        return HedSchemaGroup([std, lib]), {"st:": std_cached, p: lib_alone}, {"st:": std, p: lib}
    raise ValueError(how)


def run_config_history(w, pi, n_tags, folder, count=True, only=None):
    from hed.schema import load_schema
    std_v, lib_v, p, edit = CONFIG_PAIRINGS[pi]
    n = 0
    try:
        lib_path = _edited_library_file(lib_v, edit, folder) if edit else _xml_path(lib_v)
        lib_alone = load_schema(lib_path) if edit else load(lib_v)         # never prefixed, the oracle's "p's schema alone"
        std_alone = load(std_v)
    except Exception as e:  # noqa
        w.fail("C13.load.offline_pairing_loads", {"config_pairing": CONFIG_PAIRINGS[pi]}, repr(e)[:200], "both load")
        return 0
    own = sorted(e.short_tag_name for _, e in lib_alone.tags.items()
                 if e.has_attribute("inLibrary") and not e.name.endswith("/#") and not e.has_attribute("unique")
                 and not e.has_attribute("required") and not e.has_attribute("topLevelTagGroup") and not e.has_attribute("tagGroup"))
    x, y = own[len(own) // 2], "Red"
    uniques = ["Event-context"] + (edit or {}).get("unique", [])
    requireds = (edit or {}).get("required", [])

    def long_of(short):
        return lib_alone.tags[short].long_tag_name

    special = special_texts(uniques, requireds, x, y, long_of)
    use_texts = special[1:4] + [x, "%s, Zork" % y]
    texts = {}
    for ns_alone in (lib_alone, std_alone):
        general = annotations(w, ns_alone, n_tags)
        sp = special if ns_alone is lib_alone else special_texts(["Event-context"], [], "Blue", y, lambda s: std_alone.tags[s].long_tag_name)
        texts[id(ns_alone)] = sp + general[::2]
    expected = {}
    for how in CONFIG_HISTORIES:
        if only is not None and only["config_history"] != how:
            continue
        inp0 = {"config_history": how, "config_pairing": pi, "standard": std_v, "library": lib_v, "library_edit": edit, "prefix": p}
        try:
            G, members, objs = build_config_history(how, std_v, lib_path, lib_alone, p, use_texts, folder)
        except Exception as e:  # noqa
            w.fail("C13.load.offline_pairing_loads", inp0, "EXC " + repr(e)[:300], "the configuration can be built")
            continue
        for ns, alone in members.items():
            if only is not None and only.get("annotation") is None:
                break           # replay of an attribute look-up
            if requireds and alone is not lib_alone:
                # a group advertises the required tags of ALL members, so the unprefixed / standard member of a group with a library
                # that has required tags is outside what the offline pairings (none has a required tag) let the property say
                continue
            clause = "C13.prefixed.judged_as_alone" if ns else "C13.unprefixed.judged_as_alone"
            for A in (texts[id(alone)] if only is None else [only["annotation"]]):
                if only is not None and only["namespace"] != ns:
                    continue
                inp = dict(inp0, namespace=ns, annotation=A)
                PA = prefix_all(A, ns) if ns else A
                got, gforms = observe(PA, G, strip=ns)
                if (id(alone), A) not in expected:
                    expected[(id(alone), A)] = observe(A, alone)
                exp, eforms = expected[(id(alone), A)]
                n += 1
                if count:
                    w.case(key=("config", pi, how, ns, A), nontrivial=True,
                           sample={"history": how, "annotation": PA, "codes": got if isinstance(got, str) else [g[0] for g in got]})
                cl = clause
                if ns and got != exp and _without_style(got) == _without_style(exp):
                    cl = "C13.prefixed.capitalisation_warning_reads_prefix"
                elif how == UNMERGED_AFTER_USE and edit and alone is lib_alone and _without_own_attribute_issues(got) == \
                        _without_own_attribute_issues(exp):
                    # narrow label (defect of the unchanged tree, see CL_STALE_COPY): the library has unique / required tags of its
                    # own and the two verdicts differ in nothing but the issues that come from the advertised unique / required lists
                    cl = CL_STALE_COPY
                w.check(got == exp, cl, inp, got, exp, prefixed_text=PA)
                if got == exp and not isinstance(got, str):
                    w.check(gforms == eforms, "C13.forms.same_tag_forms_modulo_prefix", inp, gforms, eforms, prefixed_text=PA)
        if only is not None and only.get("annotation") is not None:
            continue
        # the names advertised for an attribute carry the prefix the object has now; a group advertises the union
        for a in LOOKUP_ATTRIBUTES:
            inp = dict(inp0, attribute=a, annotation=None)
            union, stale_own = set(), set()
            for ns, obj in objs.items():
                alone = members[ns]
                want = sorted(ns + name for name in alone.get_tags_with_attribute(a))
                union |= set(want)
                n += 1
                if count:
                    w.case(key=("config-lookup", pi, how, ns, a), nontrivial=bool(want))
                try:
                    have = sorted(obj.get_tags_with_attribute(a))
                except Exception as e:  # noqa
                    have = "EXC " + repr(e)[:200]
                cl = CL_LOOKUP
                if how == UNMERGED_AFTER_USE and alone is lib_alone and have != want and \
                        have == sorted(ns + name for name in alone.get_tags_with_attribute(a) if not _own_tag(alone, name)):
                    cl = CL_STALE_COPY      # narrow: right names, right prefix, exactly the library's own tags are missing
                    stale_own |= set(want) - set(have)
                if have != want:
                    w.fail(cl, dict(inp, namespace=ns), _head_diff(have, want), _head_diff(want, have))
            try:
                have = sorted(G.get_tags_with_attribute(a))
            except Exception as e:  # noqa
                have = "EXC " + repr(e)[:200]
            cl = CL_STALE_COPY if stale_own and not isinstance(have, str) and have == sorted(union - stale_own) else CL_LOOKUP
            if have != sorted(union):
                w.fail(cl, dict(inp, namespace="(whole group)"), _head_diff(have, sorted(union)), _head_diff(sorted(union), have))
    return n


# ------------------------------------------------------------------------------------------------------------------
# partnered vocabulary
# ------------------------------------------------------------------------------------------------------------------
def _xml_path(version):
    import hed.schema
    d = os.path.join(os.path.dirname(hed.schema.__file__), "schema_data")
    return os.path.join(d, ("HED" + version if version[0].isdigit() else "HED_" + version) + ".xml")


def xml_tags(version):
    """-> {long name: in_library(bool)} read from the XML alone (placeholders '#' skipped)"""
    root = ET.parse(_xml_path(version)).getroot()
    out = {}

    def walk(node, path):
        name = node.findtext("name")
        if name == "#":
            return
        long_name = path + "/" + name if path else name
        inlib = any((a.findtext("name") or "") == "inLibrary" for a in node.findall("attribute"))
        out[long_name] = inlib
        for ch in node.findall("node"):
            walk(ch, long_name)

    for top in root.find("schema").findall("node"):
        walk(top, "")
    return out


def entry_view(e):
    parent = getattr(e, "parent", None)
    tv = getattr(e, "takes_value_child_entry", None)
    return {"name": e.name, "attributes": _norm(e.attributes), "description": e.description,
            "short": getattr(e, "short_tag_name", None), "long": getattr(e, "long_tag_name", None),
            "unit_classes": sorted(getattr(e, "unit_classes", {}) or {}),
            "value_classes": sorted(getattr(e, "value_classes", {}) or {}),
            "inherited": _norm(getattr(e, "inherited_attributes", {}) or {}),
            "parent": parent.name if parent is not None else None,
            "takes_value": tv.name if tv is not None else None}


def _norm(attrs):
    return {k: (sorted(v.split(",")) if isinstance(v, str) else v) for k, v in attrs.items()}


def run_partner(w, lib_spec, std_spec, sample_n, count=True):
    from hed.schema.hed_schema_constants import HedSectionKey
    inp = {"library": lib_spec, "standard": std_spec}
    try:
        L, S = load(lib_spec), load(std_spec)
    except Exception as e:  # noqa
        w.fail("C13.load.offline_pairing_loads", inp, repr(e)[:200], "both load")
        return 0
    n = 0
    std_names = []
    for name, e in S.tags.items():
        n += 1
        if count:
            w.case(key=("partner", repr(lib_spec), name), nontrivial=True,
                   sample={"library": lib_spec, "standard tag": name})
        m = L.tags.get(name)
        ok = m is not None and entry_view(m) == entry_view(e) and m == e and not m.has_attribute("inLibrary")
        w.check(ok, "C13.partner.standard_tag_unchanged", dict(inp, tag=name),
                entry_view(m) if m is not None else None, entry_view(e))
        if not e.name.endswith("/#"):
            std_names.append(e.long_tag_name)
    for sec in (HedSectionKey.UnitClasses, HedSectionKey.Units, HedSectionKey.UnitModifiers, HedSectionKey.ValueClasses,
                HedSectionKey.Attributes, HedSectionKey.Properties):
        for name, e in S[sec].items():
            n += 1
            if count:
                w.case(key=("partner", repr(lib_spec), str(sec), name), nontrivial=True)
            m = L[sec].get(name)
            ok = m is not None and m == e and _norm(m.attributes) == _norm(e.attributes)
            if ok and sec == HedSectionKey.UnitClasses:
                ok = sorted(m.units) == sorted(e.units) and sorted(m.derivative_units) == sorted(e.derivative_units)
            if ok and sec == HedSectionKey.Units:
                ok = m.derivative_units == e.derivative_units
            w.check(ok, "C13.partner.standard_units_classes_attributes_unchanged", dict(inp, section=str(sec), entry=name),
                    _norm(m.attributes) if m is not None else None, _norm(e.attributes))
    # own tags: read from the library XML(s)
    own_xml = set()
    for v in (lib_spec if isinstance(lib_spec, list) else [lib_spec]):
        own_xml |= {k for k, inlib in xml_tags(v).items() if inlib}
    lib_names = {e.long_tag_name for name, e in L.tags.items() if not e.name.endswith("/#")}
    missing = sorted(own_xml - lib_names)
    w.check(not missing, "C13.partner.own_tags_present", inp, missing[:5], "every inLibrary node of the XML is a tag")
    others = sorted(lib_names - set(std_names) - own_xml)
    w.check(not others, "C13.partner.nothing_else_added", inp, others[:5], "tags == standard + own")
    w.check(not (own_xml & set(std_names)), "C13.partner.nothing_else_added", inp, sorted(own_xml & set(std_names))[:5],
            "own and standard names disjoint")
    own_flag = sorted(e.long_tag_name for name, e in L.tags.items()
                      if not e.name.endswith("/#") and e.has_attribute("inLibrary") and e.long_tag_name not in own_xml)
    w.check(not own_flag, "C13.partner.own_tags_present", inp, own_flag[:5], "inLibrary only on the library's own tags")
    n += 4
    # behaviour: a standard tag alone is judged and resolved the same by both
    names = sorted(set(e.short_tag_name for name, e in S.tags.items() if not e.name.endswith("/#")))
    if sample_n and sample_n < len(names):
        names = w.rng.sample(names, sample_n)
    for s in names:
        for A in (s, s + "/Extx"):
            got, gf = observe(A, L)
            exp, ef = observe(A, S)
            n += 1
            if count:
                w.case(key=("partner-verdict", repr(lib_spec), A), nontrivial=True)
            w.check(got == exp and gf == ef, "C13.partner.standard_tag_same_verdict", dict(inp, annotation=A),
                    [got, gf], [exp, ef])
    return n


# ------------------------------------------------------------------------------------------------------------------
# refusals
# ------------------------------------------------------------------------------------------------------------------
def own_short_names(version):
    return {k.rsplit("/", 1)[-1].lower() for k, inlib in xml_tags(version).items() if inlib}


def all_short_names(version):
    return {k.rsplit("/", 1)[-1].lower() for k in xml_tags(version)}


_clash_memo = {}


def clashing_names(a, b):
    """names that two bundled versions share when loaded under one prefix, decided from the XML files alone"""
    if (a, b) not in _clash_memo:
        _clash_memo[(a, b)] = _clashing_names(a, b)
    return _clash_memo[(a, b)]


def _clashing_names(a, b):
    partnered = [v for v in (a, b) if _with_standard(v)]
    if len(partnered) == 2 and _with_standard(a) == _with_standard(b):
        return own_short_names(a) & own_short_names(b)      # the shared standard part is the same partner
    return all_short_names(a) & all_short_names(b)


def _attempt(spec):
    from hed.schema import load_schema_version
    from hed.errors.exceptions import HedFileError
    try:
        s = load_schema_version(spec)
        return "loaded", type(s).__name__
    except HedFileError as e:
        return "refused", str(e.code)
    except Exception as e:  # noqa
        return "exception", repr(e)[:200]


def run_refusals(w, count=True):
    from hed.schema import HedSchemaGroup
    from hed.errors.exceptions import HedFileError
    n = 0
    before = {v: _digest(v) for v in ("testlib_2.0.0", "8.3.0", "score_1.1.0", "8.2.0")}
    same_twice = []
    for v in ("8.3.0", "score_1.1.0", "testlib_2.0.0", "score_2.0.0"):
        for p in ("", "x:", "sc:"):
            same_twice.append([p + v, p + v])
            same_twice.append([p + v, "y:8.2.0", p + v])
    for spec in same_twice:
        n += 1
        if count:
            w.case(key=("refuse", tuple(spec)), nontrivial=True, sample={"load": spec})
        r = _attempt(spec)
        w.check(r[0] == "refused", "C13.refuse.same_library_twice", {"load": spec}, r, "HedFileError")
    # two schemas under one prefix with clashing names (clash decided from the XML files)
    candidates = [("testlib_2.0.0", "testlib_2.1.0"), ("testlib_2.1.0", "testlib_3.0.0"), ("testlib_2.0.0", "testlib_3.0.0"),
                  ("8.2.0", "8.3.0"), ("8.0.0", "8.1.0"), ("score_1.1.0", "8.2.0"), ("8.2.0", "score_1.1.0"),
                  ("score_1.1.0", "score_2.0.0"), ("score_1.0.0", "score_1.1.0"), ("testlib_1.0.2", "testlib_2.0.0"),
                  ("score_2.0.0", "8.3.0"), ("testlib_1.0.2", "8.1.0"), ("8.0.0", "score_1.0.0")]
    for a, b in candidates:
        clash = clashing_names(a, b)
        if not clash:
            continue
        for p in ("", "x:"):
            spec = [p + a, p + b]
            n += 1
            if count:
                w.case(key=("refuse", tuple(spec)), nontrivial=True, sample={"load": spec, "clashing": sorted(clash)[:3]})
            r = _attempt(spec)
            w.check(r[0] == "refused", "C13.refuse.clashing_names_under_one_prefix",
                    {"load": spec, "clashing_names": sorted(clash)[:5]}, r, "HedFileError")
    # group constructor: duplicate namespaces, empty list
    from hed.schema import load_schema_version
    for specs in (["8.3.0", "8.2.0"], ["x:8.3.0", "x:score_2.0.0"], []):
        n += 1
        if count:
            w.case(key=("refuse-group", tuple(specs)), nontrivial=True)
        try:
            HedSchemaGroup([load_schema_version(v) for v in specs])
            r = ("loaded", "HedSchemaGroup")
        except HedFileError as e:
            r = ("refused", str(e.code))
        except Exception as e:  # noqa
            r = ("exception", repr(e)[:200])
        w.check(r[0] == "refused", "C13.refuse.duplicate_prefix_in_group", {"HedSchemaGroup of": specs}, r, "HedFileError")
    # loading with a prefix that is not alphabetic is refused
    for bp in BAD_PREFIXES_NONALPHA:
        if bp == ":":
            continue      # an empty prefix before ':' means "no prefix"
        for v in ("8.3.0", "score_1.1.0"):
            for spec in ([bp + v], [bp + v, "8.2.0"], bp + v):
                n += 1
                if count:
                    w.case(key=("refuse-prefix", repr(spec)), nontrivial=True)
                r = _attempt(spec)
                w.check(r[0] == "refused", "C13.prefix.not_alphabetic_is_error", {"load": spec}, r, "HedFileError")
    # controls: these must load
    for spec in (["a:8.3.0", "b:8.3.0"], ["score_1.1.0", "testlib_2.0.0"], ["x:score_1.1.0", "x:testlib_3.0.0", "8.2.0"],
                 ["abc:8.3.0"], ["testlib_2.0.0", "tl:testlib_2.1.0"]):
        n += 1
        if count:
            w.case(key=("control", tuple(spec)), nontrivial=True)
        r = _attempt(spec)
        w.check(r[0] == "loaded", "C13.load.offline_pairing_loads", {"load": spec}, r, "loads")
    # refused loads leave the schemas they touched intact for later loads
    for v, d in before.items():
        n += 1
        w.check(_digest(v) == d, "C13.refuse.leaves_loaded_schemas_intact", {"schema": v}, _digest(v), d)
    return n


def _digest(v):
    from hed.schema import load_schema_version
    s = load_schema_version(v)
    return [len(s.tags), sum(len(str(e.attributes)) for _, e in s.tags.items()), s._namespace]


def _with_standard(version):
    return ET.parse(_xml_path(version)).getroot().attrib.get("withStandard")



# ------------------------------------------------------------------------------------------------------------------
# group constructions with repeated members (the same object / the same version / the same library, in every list position)
# ------------------------------------------------------------------------------------------------------------------
DUP_VERSIONS = ["8.3.0", "score_2.0.0", "8.2.0"]          # a standard schema, the library partnered with it, another standard schema
DUP_PREFIXES = ["", "x:", "y:"]


def _spec_prefix(m):
    return m.partition(":")[0] + ":" if ":" in m else ""


def _spec_version(m):
    return m.partition(":")[2] if ":" in m else m


def _group_verdict(build):
    from hed.errors.exceptions import HedFileError
    try:
        return ("loaded", build())
    except HedFileError as e:
        return ("refused", str(e.code))
    except Exception as e:  # noqa
        return ("exception", repr(e)[:200])


def run_group_constructions(w, count=True, only=None):
    """every list of 2 and 3 members over {version} x {prefix} (+ separately parsed copies for the constructor), repeats included:
    HedSchemaGroup(list of objects) - load_schema_version gives the IDENTICAL object for the same text - and
    load_schema_version(list of texts).  From the statement: refused iff two members share a prefix (the same library twice under one
    prefix, or two schemas with clashing names under one prefix); accepted when all prefixes differ (also the same library under two
    prefixes)."""
    import itertools
    import json as _json
    from hed.schema import HedSchemaGroup, load_schema, load_schema_version
    members = [p + v for v in DUP_VERSIONS for p in DUP_PREFIXES]
    objs = {m: load(m) for m in members}
    # separately parsed copies: equal content, a different object
    objs["copy of 8.2.0"] = load_schema(_xml_path("8.2.0"))
    objs["copy of x:8.2.0"] = load_schema(_xml_path("8.2.0"), schema_namespace="x")
    prefix_of = {m: (_spec_prefix(m[len("copy of "):]) if m.startswith("copy of ") else _spec_prefix(m)) for m in objs}
    n = 0
    n_slow = 0
    for size in (2, 3):
        # ---- the constructor, given objects
        for combo in itertools.product(list(objs), repeat=size):
            if only is not None and (only["group_construction"] != "HedSchemaGroup" or list(combo) != only["members"]):
                continue
            inp = {"group_construction": "HedSchemaGroup", "members": list(combo),
                   "same_object_twice": len(set(combo)) < len(combo)}
            prefixes = [prefix_of[m] for m in combo]
            shared = len(set(prefixes)) < len(prefixes)
            n += 1
            if count:
                w.case(key=("group-construction", "HedSchemaGroup", combo), nontrivial=True,
                       sample={"HedSchemaGroup of": list(combo), "expected": "refused" if shared else "accepted"})
            r = _group_verdict(lambda: HedSchemaGroup([objs[m] for m in combo]))
            if shared:
                w.check(r[0] == "refused", "C13.refuse.duplicate_prefix_in_group", inp, r if r[0] != "loaded" else "accepted",
                        "HedFileError: two members share the prefix %r" % [p for p in prefixes if prefixes.count(p) > 1][0])
            else:
                ok = r[0] == "loaded" and all(r[1].schema_for_namespace(prefix_of[m]) is objs[m] for m in combo)
                w.check(ok, "C13.load.offline_pairing_loads", inp, r if r[0] != "loaded" else "a member does not answer for its prefix",
                        "a group in which each member answers for its prefix")
        # ---- load_schema_version, given version texts
        for ci, combo in enumerate(itertools.product(members, repeat=size)):
            as_json = ci % 5 == 2
            if only is not None and (only["group_construction"] != "load_schema_version" or list(combo) != only["members"]
                                     or as_json != only.get("as_json_text", False)):
                continue
            inp = {"group_construction": "load_schema_version", "members": list(combo), "as_json_text": as_json}
            by_prefix = {}
            for m in combo:
                by_prefix.setdefault(_spec_prefix(m), []).append(_spec_version(m))
            twice = [vs for vs in by_prefix.values() if len(set(vs)) < len(vs)]
            clash = [(a, b) for vs in by_prefix.values() for a, b in itertools.combinations(dict.fromkeys(vs), 2)]
            if not twice and clash:
                # two different schemas under one prefix: every such attempt parses files again; a spread sample of them
                n_slow += 1
                if only is None and n_slow % (71 if w.quick else 5) != 1:
                    continue
                if not all(clashing_names(a, b) for a, b in clash):
                    continue
            n += 1
            if count:
                w.case(key=("group-construction", "load_schema_version", combo, as_json), nontrivial=True,
                       sample={"load": list(combo), "expected": "refused" if twice or clash else "accepted"})
            arg = _json.dumps(list(combo)) if as_json else list(combo)
            r = _group_verdict(lambda: load_schema_version(arg))
            if twice:
                w.check(r[0] == "refused", "C13.refuse.same_library_twice", inp, r if r[0] != "loaded" else "accepted", "HedFileError")
            elif clash:
                w.check(r[0] == "refused", "C13.refuse.clashing_names_under_one_prefix",
                        dict(inp, clashing_names=sorted(clashing_names(*clash[0]))[:5]), r if r[0] != "loaded" else "accepted",
                        "HedFileError")
            else:
                ok = r[0] == "loaded"
                if ok and len(combo) > 1:
                    ok = all(r[1].schema_for_namespace(_spec_prefix(m)) is not None and
                             r[1].schema_for_namespace(_spec_prefix(m)).version_number == _spec_version(m).rpartition("_")[2]
                             and r[1].schema_for_namespace(_spec_prefix(m)).library == _spec_version(m).rpartition("_")[0]
                             for m in combo)
                w.check(ok, "C13.load.offline_pairing_loads", inp, r if r[0] != "loaded" else "a member does not answer for its prefix",
                        "a group in which each version answers for its prefix")
    # ---- the same library twice inside ONE version text (comma form), alone and next to another member
    comma = [p + v + "," + v for v in DUP_VERSIONS for p in ("", "x:")]
    for k, text in enumerate(comma if not w.quick or only is not None else comma[1::3]):
        for spec in (text, [text], ["y:8.2.0", text]) if not w.quick or only is not None else ((text, [text], ["y:8.2.0", text])[k % 3],):
            if only is not None and (only["group_construction"] != "load_schema_version" or only["members"] != spec):
                continue
            n += 1
            if count:
                w.case(key=("group-construction", "comma", repr(spec)), nontrivial=True)
            r = _group_verdict(lambda: load_schema_version(spec))
            w.check(r[0] == "refused", "C13.refuse.same_library_twice",
                    {"group_construction": "load_schema_version", "members": spec}, r if r[0] != "loaded" else "accepted", "HedFileError")
    return n


# ------------------------------------------------------------------------------------------------------------------
# the prefix given at load time, for every schema format the package reads
# ------------------------------------------------------------------------------------------------------------------
FORMAT_SCHEMAS = ["testlib_2.0.0", "8.2.0", "score_2.0.0", "8.3.0", "testlib_3.0.0", "score_1.1.0"]      # quick: the first two
FORMAT_GOOD_NS = ["tl", "tl:"]
FORMAT_BAD_NS = ["t1", "t-l", "t1:", "a_b", "tl::", "t l", "1", "t.l"]
FORMAT_LOADERS = ["xml file", "mediawiki file", "tsv directory", "tsv file name", "xml text", "mediawiki text", "dataframes"]


class _Rng:
    def __init__(self, seed):
        import random
        self.rng = random.Random(seed)


def format_loaders(version, merged, folder):
    """save the bundled schema in every format -> {loader name: function(namespace) -> schema}"""
    from hed.schema import load_schema, from_string, from_dataframes
    src = load(version)
    tag = "HED_%s_%s" % (version, "merged" if merged else "unmerged")
    xml, wiki, tsv_dir = os.path.join(folder, tag + ".xml"), os.path.join(folder, tag + ".mediawiki"), os.path.join(folder, tag)
    src.save_as_xml(xml, save_merged=merged)
    src.save_as_mediawiki(wiki, save_merged=merged)
    src.save_as_dataframes(os.path.join(tsv_dir, tag + ".tsv"), save_merged=merged)
    xml_text = src.get_as_xml_string(save_merged=merged)
    wiki_text = src.get_as_mediawiki_string(save_merged=merged)
    frames = src.get_as_dataframes(save_merged=merged)
    return {
        "xml file": lambda ns: load_schema(xml, schema_namespace=ns),
        "mediawiki file": lambda ns: load_schema(wiki, schema_namespace=ns),
        "tsv directory": lambda ns: load_schema(tsv_dir, schema_namespace=ns),
        "tsv file name": lambda ns: load_schema(os.path.join(tsv_dir, tag + ".tsv"), schema_namespace=ns),
        "xml text": lambda ns: from_string(xml_text, ".xml", schema_namespace=ns),
        "mediawiki text": lambda ns: from_string(wiki_text, ".mediawiki", schema_namespace=ns),
        "dataframes": lambda ns: from_dataframes({k: df.copy() for k, df in frames.items()}, schema_namespace=ns),
    }


def run_formats(w, version, merged, folder, n_tags, count=True, only=None):
    from hed.schema import HedSchemaGroup
    from hed.errors.exceptions import HedFileError
    inp0 = {"loader_format": None, "schema": version, "saved_merged": merged}
    try:
        alone = load(version)                                  # the same schema without prefix
        std_v = _with_standard(version) or version
        std = load(std_v)
        loaders = format_loaders(version, merged, folder)
    except Exception as e:  # noqa
        w.fail("C13.load.offline_pairing_loads", inp0, "EXC " + repr(e)[:300], "the bundled schema is saved in every format")
        return 0
    shim = _Rng(w.seed * 1000 + FORMAT_SCHEMAS.index(version))
    texts = annotations(shim, alone, n_tags)
    texts = texts[::3] if w.quick else texts
    std_texts = annotations(shim, std, 2)[::4]
    p = "tl:"
    n = 0
    expected = {}
    for li, name in enumerate(FORMAT_LOADERS):
        if only is not None and only["loader_format"] != name:
            continue
        fn = loaders[name]
        # ---- a prefix that is not alphabetic is refused, whatever the format
        si = FORMAT_SCHEMAS.index(version)
        # (every load parses the whole schema: the quick tier takes one refused and one accepted namespace per loader, rotating)
        bads = FORMAT_BAD_NS if not w.quick or only is not None else [FORMAT_BAD_NS[(3 * li + si) % len(FORMAT_BAD_NS)]] if si == 0 else []
        for bad in bads:
            if only is not None and only.get("namespace_given") != bad:
                continue
            inp = dict(inp0, loader_format=name, namespace_given=bad)
            n += 1
            if count:
                w.case(key=("format-bad", version, merged, name, bad), nontrivial=True)
            try:
                obj = fn(bad)
                r = ("loaded", repr(getattr(obj, "_namespace", None)))
            except HedFileError as e:
                r = ("refused", str(e.code))
            except Exception as e:  # noqa
                r = ("exception", repr(e)[:200])
            w.check(r[0] == "refused", "C13.prefix.not_alphabetic_is_error", inp, r, "HedFileError")
        for gi, given in enumerate(FORMAT_GOOD_NS):
            if only is not None and only.get("namespace_given") != given:
                continue
            if only is None and w.quick and gi != (li + si) % 2:
                continue
            inp1 = dict(inp0, loader_format=name, namespace_given=given)
            n += 1
            try:
                obj = fn(given)
            except Exception as e:  # noqa
                w.fail("C13.load.offline_pairing_loads", inp1, "EXC " + repr(e)[:300], "loads with the prefix")
                continue
            try:
                G = HedSchemaGroup([std, obj] if (li + gi) % 2 == 0 else [obj, std])
            except Exception as e:  # noqa
                G = None
                w.fail("C13.load.offline_pairing_loads", inp1, "EXC " + repr(e)[:300],
                       "the loaded object can be grouped with the unprefixed standard schema %s" % std_v)
            for ti, A in enumerate(texts if only is None or only.get("annotation") is None else [only["annotation"]]):
                inp = dict(inp1, namespace=p, annotation=A)
                PA = prefix_all(A, p)
                if A not in expected:
                    expected[A] = observe(A, alone)
                exp, eforms = expected[A]
                for target, sch in (("the loaded object", obj), ("group with unprefixed %s" % std_v, G)):
                    if sch is G and (G is None or (ti % 3 and only is None)):
                        continue
                    if only is not None and only.get("validated_against", target) != target:
                        continue
                    got, gforms = observe(PA, sch, strip=p)
                    n += 1
                    if count:
                        w.case(key=("format", version, merged, name, given, target, A), nontrivial=True,
                               sample={"format": name, "schema_namespace": given, "annotation": PA})
                    clause = "C13.prefixed.judged_as_alone"
                    if got != exp and _without_style(got) == _without_style(exp):
                        clause = "C13.prefixed.capitalisation_warning_reads_prefix"
                    w.check(got == exp, clause, dict(inp, validated_against=target), got, exp, prefixed_text=PA)
                    if got == exp and not isinstance(got, str):
                        w.check(gforms == eforms, "C13.forms.same_tag_forms_modulo_prefix", dict(inp, validated_against=target),
                                gforms, eforms, prefixed_text=PA)
                # the unprefixed text: its tags have a prefix ("") that the loaded object does not answer for
                if re.search(r"[^,()\s]", A) and not isinstance(exp, str) and (ti % 2 == 0 or only is not None):
                    bgot, _ = observe(A, obj)
                    n += 1
                    if count:
                        w.case(key=("format-unprefixed", version, merged, name, given, A), nontrivial=True)
                    w.check(isinstance(bgot, list) and any(b[1] == 1 for b in bgot), "C13.prefix.not_loaded_is_error",
                            dict(inp, namespace="", validated_against="the loaded object", prefixed_text=A), bgot,
                            "an error-severity issue: the object answers for %r only" % p)
            # unprefixed annotations in the group are judged by the unprefixed standard schema alone
            for B in (std_texts if only is None or only.get("annotation") is None else [only["annotation"]]):
                if G is None or (only is not None and only.get("namespace") != ""):
                    continue
                got, gforms = observe(B, G)
                exp, eforms = observe(B, std)
                n += 1
                if count:
                    w.case(key=("format-group-unprefixed", version, merged, name, given, B), nontrivial=True)
                w.check(got == exp, "C13.unprefixed.judged_as_alone",
                        dict(inp1, namespace="", annotation=B, validated_against="group with unprefixed %s" % std_v), got, exp)
    return n


# ------------------------------------------------------------------------------------------------------------------
def run(w: Workload):
    w.rule = ("for each offline schema group (standard, library, prefixed and unprefixed members, merged libraries under one "
              "prefix) and each member namespace p: annotations generated from that member's own vocabulary (seeded sample of "
              "standard and library tags: short/long form, value with/without/bad units, extensions; group shapes, duplicates, "
              "structural and reserved-tag cases; printable and non-printable non-ASCII text in values and extensions) are validated prefixed-with-p against the group and unprefixed against the "
              "member loaded alone; every 5th annotation is also tried under unloaded and non-alphabetic prefixes; plus the "
              "partnered-vocabulary comparison over every standard entry and the refusal table; configuration histories: (pairing, way "
              "the schema object was used before it got / changed / lost its prefix, member namespace, annotation around the unique / "
              "required tags or general annotation) and (pairing, way, member or group, attribute looked up); temporal: (group, "
              "prefixed member, temporal tag(s), use of a definition, further content of the group, order, surroundings)")
    n_tags = 25 if w.quick else 120
    gis = QUICK_GROUPS if w.quick else list(range(len(GROUPS)))
    for gi in gis:
        n = guarded(w, "group %s" % (GROUPS[gi][0],), run_group, gi, n_tags)
        w.part("group %s" % GROUPS[gi][0], cases=n, bound="%d sampled standard + %d library tags per member, each in ~5 "
               "spellings, + ~60 composed annotations; bad prefixes on every 5th" % (n_tags, n_tags), exhaustive=False)
    n_temporal = 0
    for gi in (TEMPORAL_GROUPS[:5] if w.quick else TEMPORAL_GROUPS):
        n_temporal += guarded(w, "temporal %s" % (GROUPS[gi][0],), run_temporal, gi) or 0
    w.part("temporal groups with definitions under a prefix", cases=n_temporal,
           bound="groups %s, each prefixed member that has the temporal tags: %d spellings / combinations of Onset, Offset, Inset, "
                 "Duration, Delay (short, long, lower case) x %d uses of a definition (none, Def with / without / with a missing / "
                 "with a surplus value, unknown, Def-expand, two) x %d further contents of the group (none, one / two inner groups, a "
                 "tag, nested, empty) x 3 orders, in 6 surroundings (top level, nested, bare, beside a second temporal group)%s; "
                 "definition dictionary built from definitions declared under the prefix (+ %d definition lists incl. faulty ones: "
                 "same names, same complaints); every annotation through the string entry point, chunks of 6 as rows of a table "
                 "with onset column and the definitions in its sidecar" % (
                     [GROUPS[g][0] for g in (TEMPORAL_GROUPS[:5] if w.quick else TEMPORAL_GROUPS)], len(TEMPORAL_TAGS),
                     len(TEMPORAL_DEFS), len(TEMPORAL_EXTRAS), " (quick: every 7th combination)" if w.quick else "",
                     len(TEMPORAL_DEFINITION_VARIANTS)), exhaustive=False)
    n_hist = 3 if w.quick else 12
    for gi in (QUICK_HISTORY if w.quick else list(range(len(GROUPS)))):
        n = guarded(w, "history %s" % (GROUPS[gi][0],), run_history, gi, n_hist)
        if n:
            w.part("history %s" % GROUPS[gi][0], cases=n, bound="every ordered pair (parsed with, validated with) of {group, each "
                   "member alone}; %d sampled standard + %d library tags per member in ~5 spellings + ~60 composed annotations, "
                   "prefixed per member, every third also unprefixed, 40 two-namespace mixes; every second case validated with "
                   "the parsing schema first" % (n_hist, n_hist), exhaustive=False)
    import shutil
    import tempfile
    folder = tempfile.mkdtemp(prefix="c13_")
    try:
        for pi in (range(3) if w.quick else range(len(CONFIG_PAIRINGS))):
            n = guarded(w, "configuration history %d" % pi, run_config_history, pi, 3 if w.quick else 10, folder)
            std_v, lib_v, p, edit = CONFIG_PAIRINGS[pi]
            w.part("configuration history %s + %s%s as %s" % (std_v, lib_v, " (edited: %s)" % edit if edit else "", p), cases=n,
                   bound="%d ways a schema object is used before it gets / changes / loses its prefix x {prefixed member, unprefixed or "
                         "standard member} x (annotations around each unique and required tag: once, repeated, nested, long and "
                         "lower-case spelling, with and without the required tag; + every second of the general annotations over %d "
                         "sampled standard + %d library tags) + %d attribute look-ups per member and for the group"
                         % (len(CONFIG_HISTORIES), 3 if w.quick else 10, 3 if w.quick else 10, len(LOOKUP_ATTRIBUTES)),
                   exhaustive=False)
    finally:
        shutil.rmtree(folder, ignore_errors=True)
    for lib, std in (PARTNERS[:2] + PARTNERS[4:6] if w.quick else PARTNERS):
        n = guarded(w, "partnered %s" % lib, run_partner, lib, std, 150 if w.quick else 0)
        w.part("partnered %s with %s" % (lib, std), cases=n, bound="every entry of the standard schema (tags, unit classes, units, "
               "modifiers, value classes, attributes, properties) compared; own tags vs XML; verdict of " +
               ("150 sampled" if w.quick else "all") + " standard tags", exhaustive=not w.quick)
    n = run_refusals(w)
    w.part("refusals and controls", cases=n, bound="same library twice (4 versions x 3 prefixes x 2 list shapes), clashing pairs "
           "decided from the XML (x 2 prefixes), group constructor, non-alphabetic prefixes at load, 5 controls",
           exhaustive=True)
    # (the two parts below draw from their own seeded generator, so the samples of the parts above do not move)
    n = run_group_constructions(w)
    w.part("group constructions with repeated members", cases=n,
           bound="every list of 2 and of 3 members, repeats included (first / middle / last, adjacent or not), over {8.3.0, score_2.0.0, "
                 "8.2.0} x {no prefix, x:, y:}: HedSchemaGroup of the objects (the same text gives the identical object; + two "
                 "separately parsed copies of 8.2.0) and load_schema_version of the texts (every 5th as JSON text; of the lists "
                 "that only put two DIFFERENT schemas under one prefix every %s is tried); + the same version twice "
                 "inside one comma-separated text" % ("71st" if w.quick else "5th"), exhaustive=False)
    folder = tempfile.mkdtemp(prefix="c13f_")
    try:
        todo = [(v, True) for v in (FORMAT_SCHEMAS[:2] if w.quick else FORMAT_SCHEMAS)]
        if not w.quick:
            todo += [(v, False) for v in FORMAT_SCHEMAS if _with_standard(v)]
        for version, merged in todo:
            n = run_formats(w, version, merged, folder, 3 if w.quick else 8)
            w.part("prefix given at load time: %s saved %s" % (version, "merged" if merged else "unmerged"), cases=n,
                   bound="%d loaders (%s) x schema_namespace in %s (quick: one of the two per loader, alternating): every%s annotation over %d sampled standard + %d library tags "
                         "(+ the composed ones) prefixed against the loaded object (every third also against its group with the "
                         "unprefixed standard schema, both list orders) = the unprefixed annotation against the bundled schema; every second "
                         "unprefixed against the loaded object is an error; unprefixed standard annotations in the group; %s "
                         "non-alphabetic namespaces per loader are refused"
                         % (len(FORMAT_LOADERS), ", ".join(FORMAT_LOADERS), FORMAT_GOOD_NS, " third" if w.quick else "",
                            3 if w.quick else 8, 3 if w.quick else 8, "1 of the %d (first schema only)" % len(FORMAT_BAD_NS) if w.quick else "all %d" % len(FORMAT_BAD_NS)),
                   exhaustive=False)
    finally:
        shutil.rmtree(folder, ignore_errors=True)
    w.assumptions += [
        "the 'schema of p alone' is load_schema_version of the same version text without the prefix",
        "judged exactly = same ordered list of (code, severity, named tag text, selected fragment), both without the prefix",
        "own tags of a library are the XML nodes carrying the inLibrary attribute; names clash when two XML files share a "
        "(case-folded) tag name outside a common partnered standard part",
        "only schemas bundled with the package are used (no network)",
        "'the same library twice' / 'two schemas under one prefix' is read per prefix: the same version under two DIFFERENT prefixes "
        "is a legitimate group (each prefix has its own schema)",
        "prefix at load time: 'the same schema without prefix' is the bundled schema loaded by version; the saved copies are taken to "
        "be faithful (C05)",
    ]
    w.not_covered += [
        "history part: cases where the two schemas split or spell a tag differently are skipped, not judged (re-using one parsed object across "
        "such schemas is outside the property's quantifier; the real code keeps part of the earlier identification there - observation in "
        "DESIGN.md section D); skipped this run: %s" % dict(OBSERVED),
        "annotations mixing tags of several namespaces in one string (the property only speaks of all-p and all-unprefixed; "
        "mixed annotations are used in the history part only, where the oracle is the freshly parsed string)",
        "definitions used across namespaces (a definition declared under one prefix and used under another); sidecar / table "
        "entry points with schema groups beyond the temporal-group tables",
        "configuration histories: required tags exist in no bundled schema and are exercised on edited copies of testlib 2.0.0 / 3.0.0 "
        "only, and only for the library member (a group advertises the required tags of all members, so the standard member of "
        "such a group is not compared); pairings that straddle generation 8.3.0; mediawiki / tsv unmerged files; a second "
        "library merged into an already used schema object (load_schema(..., schema=used))",
        "loader internals (base2schema merge) beyond the resulting vocabulary",
        "group constructions: lists longer than 3; schemas read from a URL",
    ]


def replay(w: Workload, case: dict):
    inp = case["input"]
    if inp.get("group_construction"):
        run_group_constructions(w, count=False, only=inp)
    elif inp.get("loader_format") or "saved_merged" in inp:
        import shutil
        import tempfile
        folder = tempfile.mkdtemp(prefix="c13f_")
        try:
            run_formats(w, inp["schema"], inp["saved_merged"], folder, 3, count=False, only=inp if inp.get("loader_format") else None)
        finally:
            shutil.rmtree(folder, ignore_errors=True)
    elif inp.get("config_history"):
        import shutil
        import tempfile
        folder = tempfile.mkdtemp(prefix="c13_")
        try:
            run_config_history(w, inp["config_pairing"], 3, folder, count=False, only=inp)
        finally:
            shutil.rmtree(folder, ignore_errors=True)
    elif inp.get("temporal"):
        run_temporal(w, inp["group_index"], count=False, only=inp)
    elif inp.get("history"):
        run_history(w, inp["group_index"], 0, count=False, only=inp)
    elif "group_index" in inp:
        run_group(w, inp["group_index"], 0, count=False, only=inp["annotation"])
    elif "library" in inp:
        run_partner(w, inp["library"], inp["standard"], 0, count=False)
    else:
        run_refusals(w, count=False)
    w.failures = [f for f in w.failures if f["clause"] == case["clause"]]


if __name__ == "__main__":
    main(run, "C13", replay)
